#!/usr/bin/env python3
"""splitpatch.py <patch> list | splitpatch.py <patch> emit i,j,k  -> prints a patch with only those hunks"""
import sys, re
txt = open(sys.argv[1]).read().splitlines(keepends=True)
files = []  # (header_lines, [hunks])
cur = None
for line in txt:
    if line.startswith('diff '):
        cur = {'hdr': [line], 'hunks': []}; files.append(cur)
    elif line.startswith('--- ') or line.startswith('+++ '):
        cur['hdr'].append(line)
    elif line.startswith('@@'):
        cur['hunks'].append([line])
    else:
        if cur['hunks']: cur['hunks'][-1].append(line)
idx = 0
if sys.argv[2] == 'list':
    for f in files:
        for h in f['hunks']:
            added = [l[1:].strip() for l in h if l.startswith('+')][:2]
            print(idx, f['hdr'][-1].strip(), h[0].strip(), '|', ' / '.join(added)[:110]); idx += 1
else:
    want = set(int(x) for x in sys.argv[3].split(','))
    for f in files:
        sel = []
        for h in f['hunks']:
            if idx in want: sel.append(h)
            idx += 1
        if sel:
            sys.stdout.write(''.join(l for l in f['hdr'] if not l.startswith('diff ')))
            for h in sel: sys.stdout.write(''.join(h))
