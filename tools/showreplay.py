#!/venv/bin/python
import json,sys
for f in sys.argv[1:]:
    d=json.load(open(f))
    print('==',d['signature']); print('  ',d['msg'][:300])
    c=d['case']
    prog=c[0] if isinstance(c,list) else c
    if isinstance(prog,dict) and 'cfg' in prog:
        print('  cfg',prog['cfg'], 'profile',prog.get('profile'))
        for o in prog['ops']: print('    ',{k:v for k,v in o.items() if v not in (None,)})
        if isinstance(c,list): print('  rest',c[1:])
    else:
        print('  case',json.dumps(c)[:1500])
