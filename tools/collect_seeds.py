#!/usr/bin/env python3
"""Assemble /verif/seeded/<id>/ (patch.diff, demo.py, notes.md, meta.json) from the sub-agents' deliverables in
/tmp/seed/out/<id>/ and the seedcheck logs in /verif/out/seed_<id>*.log."""
import glob, json, os, re, shutil, sys
props = {json.loads(l)['id']: json.loads(l) for l in open('/verif/properties.jsonl')}
ROUNDS = [('/tmp/seed/out', '', 'seed_'), ('/tmp/seed2/out', '-b', 'seed2_'), ('/tmp/seed3/out', '-c', 'seed3_'), ('/tmp/seed4/out', '-d', 'seed4_'), ('/tmp/seed5/out', '-e', 'seed5_'), ('/tmp/seed6/out', '-f', 'seed6_'), ('/tmp/seed7/out', '-g', 'seed7_'), ('/tmp/seed8/out', '-h', 'seed8_'), ('/tmp/seed9/out', '-i', 'seed9_')]
for d, suffix, logtag in [(d, sfx, tag) for root, sfx, tag in ROUNDS for d in sorted(glob.glob(root + '/C*'))]:
    pid = os.path.basename(d)
    if not os.path.exists(os.path.join(d, 'patch.diff')):
        continue
    out = os.path.join('/verif/seeded', pid + suffix)
    os.makedirs(out, exist_ok=True)
    for f in ('patch.diff', 'demo.py', 'notes.md'):
        if os.path.exists(os.path.join(d, f)):
            shutil.copy(os.path.join(d, f), os.path.join(out, f))
    runs = []
    confirmed = {}
    for log in sorted(glob.glob('/verif/out/%s%s.*log' % (logtag, pid)), key=os.path.getmtime):
        txt = open(log).read()
        m = re.search(r'\n(\{\n "seed".*)', txt, re.S)
        if not m:
            continue
        try:
            res = json.loads(m.group(1))
        except Exception:
            continue
        confirmed = {k: res.get(k) for k in ('demo_unpatched_rc', 'patch_applies', 'demo_patched_rc', 'tests_pass', 'tests_line')}
        for c, r in res.get('checks', {}).items():
            runs.append({'check': c, 'detected': r['rc'] == 1, 'rc': r['rc'], 'signatures': r['violations'], 'wall_s': r['wall'], 'log': os.path.basename(log)})
    notes = open(os.path.join(out, 'notes.md')).read() if os.path.exists(os.path.join(out, 'notes.md')) else ''
    meta = {
        'property': pid,
        'title': props[pid]['title'],
        'source': 'independent sub-agent given only the property text and its own scratch worktree of /repo (no access to /verif)',
        'needs_to_manifest': notes[:1500],
        'confirmed_by_me': confirmed,
        'what_i_ran': 'tools/seedcheck.py: clone /repo to a scratch dir, run demo.py (must pass), git apply patch.diff, run demo.py (must fail), run the pinned test suite (must pass), then ./check <ID> --tier quick with VERIF_REPO pointing at the patched clone; scratch dir removed afterwards',
        'check_runs': runs,
    }
    json.dump(meta, open(os.path.join(out, 'meta.json'), 'w'), indent=1)
    print(pid + suffix, confirmed.get('demo_patched_rc'), [(r['check'], r['detected']) for r in runs])
