#!/venv/bin/python
"""Run the independent readers over engine-generated images and print a histogram of finding clauses."""
import sys, os, collections, json
sys.path.insert(0, os.path.dirname(os.path.dirname(os.path.abspath(__file__))))
from hypothesis import given, settings, seed, HealthCheck, Phase
from vf import gen, shim
from vf.engine import Run
from vf.indep import iso9660
shim.install('UTC')
N = int(sys.argv[1]) if len(sys.argv) > 1 else 200
hist = collections.Counter(); examples = {}
count = [0]
@seed(int(sys.argv[2]) if len(sys.argv) > 2 else 7)
@settings(max_examples=N, database=None, deadline=None, phases=[Phase.generate], suppress_health_check=list(HealthCheck))
@given(gen.any_profile(reopen_ok=False))
def t(p):
    r = Run(p); r.run_all()
    if r.dead or r.problems: r.close(); return
    img = r.write(); r.close()
    if img is None: return
    count[0] += 1
    info = iso9660.read_iso(img)
    for c, m in info['findings']:
        hist[c] += 1
        if c not in examples:
            examples[c] = (m, p)
t()
print(count[0], 'images')
for c, n in hist.most_common(): print(n, c, '|', examples[c][0][:260])
json.dump({c: {'signature': c, 'msg': m, 'case': [p, None]} for c, (m, p) in examples.items()}, open('/verif/out/survey_examples.json', 'w'))
