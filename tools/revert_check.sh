#!/bin/sh
# usage: revert_check.sh <commit> <check...>  : clone /repo, revert commit, run checks against it
c=$1; shift
d=$(mktemp -d /tmp/revchk_XXXX)
git clone -q /repo $d/repo
git -C $d/repo -c user.email=a@b -c user.name=x revert --no-edit $c >/dev/null 2>&1 || { echo "revert failed $c"; rm -rf $d; exit 2; }
for k in "$@"; do
  out=$(cd /verif && VERIF_REPO=$d/repo ./check $k --tier quick 2>&1); rc=$?
  echo "revert $c check $k rc=$rc: $(echo "$out" | grep signature | cut -c1-150 | head -4 | tr '\n' ' ')"
done
rm -rf $d
git -C /verif checkout -- evidence
