#!/usr/bin/env python3
"""Generate /verif/SENSITIVITY.md from seeded/<ID>/meta.json (and the hand mutations recorded below)."""
import glob, json, os
rows = []
for f in sorted(glob.glob('/verif/seeded/C*/meta.json')):
    m = json.load(open(f))
    pid = m['property']
    runs = m.get('check_runs', [])
    own = [r for r in runs if r['check'] == pid]
    others = [r for r in runs if r['check'] != pid]
    rows.append((os.path.basename(os.path.dirname(f)), m, own, others))
out = ['# Sensitivity of the checks', '',
       'Source (b) of DESIGN.md 10.6: one change per property written by a sub-agent that was given only the property text',
       'and a scratch worktree of /repo (nothing from /verif).  Each was confirmed by `tools/seedcheck.py` (demo passes on the',
       'unmodified tree, patch applies, demo fails with the patch, pinned test suite still passes) and then the quick tier of the',
       'listed checks was run against the patched tree (`VERIF_REPO=<scratch clone>`).  "first run" is the result before any',
       'strengthening prompted by a miss; every miss led to a generator or oracle change (last column), after which the seed was re-run.', '',
       '| seed | what it changes (needs to manifest) | confirmed | detected by own check (runs, oldest first) | other checks that detect it | strengthening it prompted |',
       '|------|--------------------------------------|-----------|-------------------------------------------|------------------------------|---------------------------|']
NOTES = json.load(open('/verif/seeded/strengthening.json')) if os.path.exists('/verif/seeded/strengthening.json') else {}
for pid, m, own, others in rows:
    conf = m.get('confirmed_by_me', {})
    ok = conf.get('demo_unpatched_rc') == 0 and conf.get('patch_applies') and conf.get('demo_patched_rc') not in (0, None) and conf.get('tests_pass')
    first_line = (m.get('needs_to_manifest', '').strip().split('\n') or [''])
    summary = NOTES.get(pid, {}).get('summary') or ' '.join(l.strip() for l in first_line[:3])[:220]
    ownres = ', '.join('%s%s' % ('DETECTED' if r['detected'] else 'missed', (' (%s)' % r['signatures'][0][:50]) if r['detected'] and r['signatures'] else '') for r in own) or 'not run'
    oth = ', '.join(sorted(set(r['check'] for r in others if r['detected']))) or '-'
    out.append('| %s | %s | %s | %s | %s | %s |' % (pid, summary.replace('|', '/'), 'yes' if ok else 'NO: %r' % conf, ownres, oth, NOTES.get(pid, {}).get('strengthening', '-')))
out += ['', '## Hand mutations while building (source (a))', '']
for l in NOTES.get('_hand', []):
    out.append('* ' + l)
open('/verif/SENSITIVITY.md', 'w').write('\n'.join(out) + '\n')
print('\n'.join(out[:14]))
