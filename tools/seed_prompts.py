#!/usr/bin/env python3
"""seed_prompts.py <round dir, e.g. /tmp/seed4>  -- writes one prompt per property for an independent sub-agent
(round dir/prompts/<ID>.txt), creates the scratch worktrees (round dir/wt/<ID>) and copies check_tests.py next to them.
The prompt contains only the property text, the house rules and one line naming mechanisms earlier rounds already used
(so that a new round explores something else).  Nothing of /verif's checks is revealed."""
import json, os, shutil, subprocess, sys
root = os.path.abspath(sys.argv[1])
only = sys.argv[2:]
props = {json.loads(l)['id']: json.loads(l) for l in open('/verif/properties.jsonl')}
AVOID = json.load(open('/verif/seeded/round_hints.json'))
os.makedirs(root + '/prompts', exist_ok=True)
os.makedirs(root + '/out', exist_ok=True)
os.makedirs(root + '/wt', exist_ok=True)
shutil.copy('/verif/tools/check_tests.py', root + '/check_tests.py')
T = open('/verif/seeded/PROMPT-template.txt').read()
for pid, p in sorted(props.items()):
    if only and pid not in only:
        continue
    wt = '%s/wt/%s' % (root, pid)
    if not os.path.exists(wt):
        subprocess.run(['git', '-C', '/repo', 'worktree', 'add', '--detach', '-f', wt, 'HEAD'], check=True, capture_output=True)
    anchors = ', '.join(p['anchors']['files'])
    h = AVOID[pid]
    txt = (T.replace('<worktree>', wt).replace('<outdir>', '%s/out/%s' % (root, pid)).replace('<root>', root)
           .replace('<title>', p['title']).replace('<statement>', p['statement']).replace('<quant>', p['quantifier']['text'])
           .replace('<anchors>', anchors).replace('<avoid>', h['avoid']).replace('<instead>', h['instead']))
    open('%s/prompts/%s.txt' % (root, pid), 'w').write(txt)
    print(pid, len(txt))
