#!/venv/bin/python
"""Copy replay files of failures that no longer reproduce on the current tree (fixed defects, seeded
changes) into /verif/regressions/<ID>/ so that every quick run replays them first."""
import glob, importlib, json, os, shutil, sys, time
sys.path.insert(0, os.path.dirname(os.path.dirname(os.path.abspath(__file__))))
from vf.runner import Collector, load_replay
CAP = int(sys.argv[1]) if len(sys.argv) > 1 else 20
for d in sorted(glob.glob('/verif/out/replays/C*')):
    pid = os.path.basename(d)
    mod = importlib.import_module('vf.props.' + pid.lower())
    kept = 0
    total = 0.0
    files = sorted(glob.glob(d + '/*.json'), key=os.path.getsize)
    for f in files:
        if kept >= CAP or total > 6.0:
            break
        try:
            data = load_replay(f)
            col = Collector()
            t0 = time.perf_counter()
            mod.replay(data['case'], col)
            dt = time.perf_counter() - t0
        except Exception as e:
            print(pid, os.path.basename(f), 'replay error', repr(e)[:100])
            continue
        if col.failures or dt > 1.5:
            continue
        out = os.path.join('/verif/regressions', pid)
        os.makedirs(out, exist_ok=True)
        name = '%s-%s' % (data['signature'].split('/known:')[0].replace('/', '_')[:70], os.path.basename(f))
        shutil.copy(f, os.path.join(out, name))
        kept += 1
        total += dt
    print(pid, 'kept', kept, 'replay time %.1fs' % total)
