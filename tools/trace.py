#!/venv/bin/python
"""Print the concrete API calls a replay's program makes (for triage / stand-alone repros)."""
import json, sys, os
sys.path.insert(0, os.path.dirname(os.path.dirname(os.path.abspath(__file__))))
from vf import shim
from vf.engine import Run, new_kwargs, open_image, api_view, model_view, diff_views
from vf.model import Skip
d = json.load(open(sys.argv[1]))
c = d['case']
prog = c[0] if isinstance(c, list) else c
shim.install('UTC')
print('# sig', d['signature'])
print('iso = pycdlib.PyCdlib(always_consistent=%r); iso.new(**%r)' % (prog['cfg'].get('ac', False), new_kwargs(prog['cfg'])))
class R(Run):
    def step(self, i):
        op = self.ops[i]
        if op['k'] not in ('write','reopen','query'):
            try:
                call = self.model.resolve(op)
                kw = {k: (v if not isinstance(v,str) or len(v)<70 else v[:30]+'..(%d)'%len(v)) for k,v in call.kwargs.items()}
                extra = ''
                if call.blob is not None and call.method in ('add_fp','add_file'):
                    extra = ' len=%d' % call.blob.length
                print('iso.%s(%s)%s' % (call.method, ', '.join('%s=%r'%kv for kv in kw.items()), extra))
            except Skip as s:
                print('# skip', op['k'], s)
            # need a fresh model state: re-resolve happens again in super().step (pure)
        else:
            print('#', op['k'])
        r = super().step(i)
        print('   ->', r)
        return r
run = R(prog)
run.run_all()
for p in run.problems: print('PROBLEM', p.sig, p.msg[:300])
if not run.dead:
    img = run.write()
    if img is None:
        print('PROBLEM', run.problems[-1].sig, run.problems[-1].msg[:300])
    else:
        print('# image', len(img)//2048, 'sectors')
        new = open_image(img)
        if isinstance(new, Exception): print('REOPEN FAILED', repr(new))
        else:
            try:
                relocs = bool(run.model.relocated_dirs()); got = api_view(new, run.model.has, bool(run.model.rr), physical_iso=not relocs, logical_iso_paths=[p for p in run.model.t["iso"] if p != "/"] if relocs else None)
                for x in diff_views(got, model_view(run.model))[:10]: print('DIFF', x)
            except Exception as e:
                import traceback; traceback.print_exc()
