#!/venv/bin/python
"""usage: check_tests.py <worktree>   -- runs the project's pinned test suite inside <worktree> (against the worktree's
sources) and checks that every test that passes on the unmodified project still passes.  Exit 0 iff so."""
import json, os, subprocess, sys, tempfile
import xml.etree.ElementTree as ET
wt = os.path.abspath(sys.argv[1])
want = set(json.load(open('/root/.vp/BASELINE.json'))['stable_pass'])
with tempfile.TemporaryDirectory() as d:
    x = os.path.join(d, 'j.xml')
    env = dict(os.environ, PYTHONPATH=wt)
    subprocess.run(['/venv/bin/python', '-m', 'pytest', '-q', '-p', 'no:cacheprovider', '--timeout=900', '--continue-on-collection-errors',
                    '-n', '6', '--junitxml=' + x], cwd=wt, env=env, stdout=subprocess.DEVNULL, stderr=subprocess.DEVNULL)
    passed = set()
    for tc in ET.parse(x).getroot().iter('testcase'):
        if not any(c.tag in ('failure', 'error', 'skipped') for c in tc):
            passed.add('%s::%s' % (tc.get('classname'), tc.get('name')))
missing = sorted(want - passed)
print('%d expected, %d pass, %d no longer pass' % (len(want), len(want & passed), len(missing)))
for m in missing[:30]: print('  NOT PASSING:', m)
sys.exit(1 if missing else 0)
