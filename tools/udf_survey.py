#!/venv/bin/python
import sys, os, collections, json
sys.path.insert(0, os.path.dirname(os.path.dirname(os.path.abspath(__file__))))
from hypothesis import given, settings, seed, HealthCheck, Phase, strategies as st
from vf import gen, shim
from vf.engine import Run, model_view, diff_views
from vf.indep import udf as iudf, iso9660
from vf.indep.image import Image
from vf.indep.views import udf_view
shim.install('UTC')
N = int(sys.argv[1]) if len(sys.argv) > 1 else 200
hist = collections.Counter(); examples = {}
count = [0]
cfg = gen.cfg_st(udf=st.just(True))
@seed(int(sys.argv[2]) if len(sys.argv) > 2 else 7)
@settings(max_examples=N, database=None, deadline=None, phases=[Phase.generate], suppress_health_check=list(HealthCheck))
@given(st.one_of(gen.mixed(True, cfg), gen.links(cfg, True), gen.growshrink(cfg, True)))
def t(p):
    r = Run(p); r.run_all()
    if r.dead or r.problems: r.close(); return
    img = r.write(); r.close()
    if img is None: return
    count[0] += 1
    vol = iso9660.read_iso(img).get('volume_size')
    info = iudf.read_udf(Image(img), last_sector=vol - 1)
    if info is None:
        hist['NOT-UDF'] += 1; return
    for c, m in info['findings']:
        hist[c] += 1
        examples.setdefault(c, (m, p))
    got = udf_view(img, info)
    for ns, path, a, b in diff_views({'udf': got}, {'udf': model_view(r.model).get('udf')}):
        k = 'view-' + ('missing' if a is None else 'extra' if b is None else 'differs')
        hist[k] += 1
        examples.setdefault(k, ('%r %r %r' % (path, a, b), p))
t()
print(count[0], 'images')
for c, n in hist.most_common(): print(n, c, '|', examples.get(c, ('',))[0][:300])
json.dump({c: {'signature': c, 'msg': m, 'case': [p, None]} for c, (m, p) in examples.items()}, open('/verif/out/udf_survey_examples.json', 'w'))
