#!/venv/bin/python
"""Run the repository's pinned test suite (guard off - there are no hooks) and check that
every test in BASELINE.json's stable_pass still passes.  Exit 0 iff so."""
import json, os, subprocess, sys, tempfile
import xml.etree.ElementTree as ET
base = json.load(open('/root/.vp/BASELINE.json'))
want = set(base['stable_pass'])
with tempfile.TemporaryDirectory() as d:
    x = os.path.join(d, 'j.xml')
    env = dict(os.environ); env.pop('PYCDLIB_VERIF', None)
    subprocess.run(['/venv/bin/python', '-m', 'pytest', '-q', '-p', 'no:cacheprovider', '--timeout=900',
                    '--continue-on-collection-errors', '-n', os.environ.get('BASELINE_JOBS', '12'), '--junitxml=' + x],
                   cwd='/repo', env=env, stdout=subprocess.DEVNULL, stderr=subprocess.DEVNULL)
    passed = set()
    for tc in ET.parse(x).getroot().iter('testcase'):
        if not any(c.tag in ('failure', 'error', 'skipped') for c in tc):
            passed.add('%s::%s' % (tc.get('classname'), tc.get('name')))
missing = sorted(want - passed)
print('baseline: %d expected, %d of them pass now, %d missing' % (len(want), len(want & passed), len(missing)))
for m in missing[:20]:
    print('  NOT PASSING:', m)
sys.exit(1 if missing else 0)
