#!/usr/bin/env python3
"""seed_regress.py [ids...]  -- re-run every seeded change (seeded/<ID>[-x]/patch.diff) against the *current* quick tier of its
own property's check: clone /repo to a scratch directory, apply the patch, run ./check <ID> --tier quick with VERIF_REPO
pointing at the clone, record whether a violation is reported.  Prints one line per seed and writes out/seed_regress.json.
The scratch clone is removed after each seed."""
import glob, json, os, shutil, subprocess, sys, tempfile, time
here = os.path.dirname(os.path.dirname(os.path.abspath(__file__)))
only = sys.argv[1:]
res = {}
for d in sorted(glob.glob(os.path.join(here, 'seeded', 'C*'))):
    sid = os.path.basename(d)
    if only and sid not in only:
        continue
    pid = sid.split('-')[0]
    if os.path.exists(os.path.join(d, 'RETIRED')):
        res[sid] = {'retired': True}
        print(sid, 'retired (see seeded/%s/RETIRED)' % sid, flush=True)
        continue
    work = tempfile.mkdtemp(prefix='seedreg_', dir='/tmp')
    try:
        tree = os.path.join(work, 'repo')
        subprocess.run(['git', 'clone', '-q', '/repo', tree], check=True)
        ap = subprocess.run(['git', '-C', tree, 'apply', os.path.join(d, 'patch.diff')], capture_output=True, text=True)
        if ap.returncode:
            res[sid] = {'applies': False}
            print(sid, 'PATCH DOES NOT APPLY', flush=True)
            continue
        t0 = time.time()
        p = subprocess.run([os.path.join(here, 'check'), pid, '--tier', 'quick'], cwd=here, capture_output=True, text=True,
                           env=dict(os.environ, VERIF_REPO=tree, VERIF_SEED=os.environ.get('VERIF_SEED', '1')))
        sigs = [l.split('signature:')[1].strip()[:100] for l in p.stdout.splitlines() if 'signature:' in l]
        res[sid] = {'applies': True, 'rc': p.returncode, 'detected': p.returncode == 1, 'signatures': sigs[:4], 'wall_s': round(time.time() - t0, 1)}
        print(sid, 'DETECTED' if p.returncode == 1 else 'missed (rc=%d)' % p.returncode, sigs[:2], flush=True)
    finally:
        shutil.rmtree(work, ignore_errors=True)
os.makedirs(os.path.join(here, 'out'), exist_ok=True)
json.dump(res, open(os.path.join(here, 'out', 'seed_regress.json'), 'w'), indent=1)
subprocess.run(['git', '-C', here, 'checkout', '--', 'evidence'], capture_output=True)
n = sum(1 for r in res.values() if r.get('detected'))
live = sum(1 for r in res.values() if not r.get('retired'))
print('%d of %d live seeded changes detected by the quick tier of their own check (%d retired)' % (n, live, len(res) - live))
