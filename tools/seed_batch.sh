#!/bin/sh
# seed_batch.sh "<pid>:<checks...>" ...   runs seedcheck for each seed with the given checks
for spec in "$@"; do
  pid=${spec%%:*}; checks=$(echo "${spec#*:}" | tr ',' ' ')
  /verif/tools/seedcheck.py ${SEED_ROOT:-/tmp/seed/out}/$pid $checks > /verif/out/seed${SEED_TAG:-}_$pid.$(date +%H%M%S).log 2>&1
done
