#!/bin/sh
# Run every registered quick check once; print one summary line each.
cd "$(dirname "$0")/.." || exit 2
for p in $(python3 -c "import json;print(' '.join(c['property_id'] for c in json.load(open('MANIFEST.json'))['checks']))"); do
  out=$(./check $p --tier quick 2>&1); rc=$?
  echo "$p rc=$rc $(echo "$out" | grep -c '^VIOLATION') violations | $(echo "$out" | grep "^$p quick" | tail -1)"
  echo "$out" | grep -A1 '^VIOLATION' | grep signature | cut -c1-200
done
