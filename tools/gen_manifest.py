#!/venv/bin/python
"""Generate /verif/MANIFEST.json from the table below (one entry per claimed property)."""
import json
import os
import sys

HERE = os.path.dirname(os.path.dirname(os.path.abspath(__file__)))

ALL = ['C%02d' % i for i in range(1, 21)]

# id -> (category, technique, text, note, design_ref)
CLAIMED = {
    'C19': ('exploration',
            'property-based testing (Hypothesis): generated (TZ, instant) pairs against an independent timestamp decoder; parse/record round trip',
            'Generated-input search: ~120k (zone, instant) pairs per quick run, biased to year ends, leap days and DST transitions found by bisection; '
            'every recorded byte string (directory-record date, volume-descriptor date, RR TF 7/17-byte, UDF timestamp, and the same fields inside a mastered image) '
            'is decoded by an independent decoder and must denote floor(t). Sampling, not proof: absence of violations is evidence over the explored cases only.',
            'Trusts libc localtime/gmtime for the true offset of a zone; zones whose offset is not a multiple of 15 min are skipped by construction.',
            'DESIGN.md section 3, C19'),
    'C01': ('exploration',
            'model-based property testing (Hypothesis): generated edit histories interpreted against the real library and a reference model, written image reopened and compared through the public API',
            'Generated-input search over edit histories: each program (configuration + 5..200 symbolic edit ops from the profiles mixed/growshrink/deep/links/boot) is applied to a fresh PyCdlib object and to a reference model of the documented semantics; the image is written, reopened by a fresh object and its API view (walk/get_record/get_file_from_iso_fp in every namespace) must equal the model view. Failures are bucketed by signature, re-confirmed on refusal-free programs, attributed to open known findings only if they vanish when that finding\'s avoidance switch alone is on, and minimised by ddmin.',
            'Trusts the reference model (vf/model.py, each rule cites a docstring). Over-refusals (legal edit refused) are counted, not failed. Files > 4 GiB are not covered in the quick tier.',
            'DESIGN.md section 3, C01'),
}

NOT_YET = 'check not built yet in this session (work in progress; see DESIGN.md section 9 for the order)'


def main():
    checks = []
    for pid in ALL:
        if pid not in CLAIMED:
            continue
        cat, tech, text, note, ref = CLAIMED[pid]
        checks.append({
            'property_id': pid,
            'quick_cmd': './check %s --tier quick' % pid,
            'thorough_cmd': './check %s --tier thorough' % pid,
            'evidence_file': 'evidence/%s.json' % pid,
            'replay_cmd_template': './check %s --replay {path}' % pid,
            'engine': 'vf',
            'level_claimed': {'category': cat, 'text': text, 'design_ref': ref},
            'level_note': note,
            'technique': tech,
        })
    na = [{'property_id': p, 'reason': NOT_YET} for p in ALL if p not in CLAIMED]
    m = {
        'version': 1,
        'setup_cmd': './setup.sh',
        'hooks': {
            'guard': 'PYCDLIB_VERIF',
            'enable': 'no hooks are needed: time.time, uuid.uuid4 and random are pinned from the harness (vf/shim.py) and file objects passed through the public API are wrapped; the guard variable is unused',
            'baseline_off_cmd': 'cd /repo && /venv/bin/python -m pytest -ra -q -p no:cacheprovider --timeout=900 --continue-on-collection-errors',
            'source_commits': [],
            'add_only': True,
        },
        'engines': [{
            'name': 'vf',
            'path': 'vf/',
            'serves_properties': sorted(CLAIMED),
            'kind_free_text': 'Hypothesis-driven generated-input campaigns (edit histories as data, byte-level mutation, stateful machines) with explicit oracles: reference model, independent decoders written from the standards, round trips, differential/metamorphic relations; collect-then-shrink by failure signature; sharded over 16 processes',
        }],
        'checks': checks,
        'notes': 'Every check is ./check <ID> --tier quick|thorough; VERIF_SEED selects the Hypothesis seed (seed*64+shard). Exit 0 held / 1 VIOLATION / 2 harness error. known_findings.json lists genuine defects (open -> KNOWN-FINDING line, fixed -> suppresses nothing).',
        'not_applicable': na,
    }
    with open(os.path.join(HERE, 'MANIFEST.json'), 'w') as f:
        json.dump(m, f, indent=1)
        f.write('\n')
    try:
        import jsonschema
        jsonschema.validate(m, json.load(open('/root/.vp/MANIFEST.schema.json')))
        print('MANIFEST.json valid;', len(checks), 'checks,', len(na), 'not_applicable')
    except ImportError:
        print('MANIFEST.json written (jsonschema not importable here)')


if __name__ == '__main__':
    main()
