#!/venv/bin/python
"""Generate /verif/MANIFEST.json from the table below (one entry per claimed property)."""
import json
import os
import sys

HERE = os.path.dirname(os.path.dirname(os.path.abspath(__file__)))

ALL = ['C%02d' % i for i in range(1, 21)]

# id -> (category, technique, text, note, design_ref)
CLAIMED = {
    'C19': ('exploration',
            'property-based testing (Hypothesis): generated (TZ, instant) pairs against an independent timestamp decoder; parse/record round trip',
            'Generated-input search: ~120k (zone, instant) pairs per quick run, biased to year ends, leap days and DST transitions found by bisection; '
            'every recorded byte string (directory-record date, volume-descriptor date, RR TF 7/17-byte, UDF timestamp, and the same fields inside a mastered image) '
            'is decoded by an independent decoder and must denote floor(t). Sampling, not proof: absence of violations is evidence over the explored cases only.',
            'Trusts libc localtime/gmtime for the true offset of a zone; zones whose offset is not a multiple of 15 min are skipped by construction.',
            'DESIGN.md section 3, C19'),
    'C01': ('exploration',
            'model-based property testing (Hypothesis): generated edit histories interpreted against the real library and a reference model, written image reopened and compared through the public API',
            'Generated-input search over edit histories: each program (configuration + 5..200 symbolic edit ops from the profiles mixed/growshrink/deep/links/boot) is applied to a fresh PyCdlib object and to a reference model of the documented semantics; the image is written, reopened by a fresh object and its API view (walk/get_record/get_file_from_iso_fp in every namespace) must equal the model view. Failures are bucketed by signature, re-confirmed on refusal-free programs, attributed to open known findings only if they vanish when that finding\'s avoidance switch alone is on, and minimised by ddmin.',
            'Trusts the reference model (vf/model.py, each rule cites a docstring). Over-refusals (legal edit refused) are counted, not failed. Files > 4 GiB are not covered in the quick tier.',
            'DESIGN.md section 3, C01'),
    'C02': ('exploration',
            'model-based property testing (Hypothesis): generated multi-generation edit histories (write/close/open in the middle) against a reference model',
            'As C01, but every program contains 1-3 reopen steps (the image is written, closed and the written bytes opened again) with edits before and after each; the API view of the reopened object must equal the reference model after every reopen and after the final write, so untouched content must be carried over unchanged and removed entries must be gone in every namespace. A third of the reopens open a re-laid-out version of the image (file data moved, gaps, arbitrary extents on empty files, version descriptor, declared size too small) and a third an independently re-mastered one (vf/indep/remaster.py: every sector after the descriptors re-assigned in the manner of mkisofs, system-use areas rebuilt with another entry order and other record/continuation splits, El Torito pointers following the moved data; optionally the records of a directory in ECMA-119 9.3 order instead of byte order). About half of the reopens use the same PyCdlib object again (close() then open_fp()). In a third of the cases the final image is also cut by 1-2 sectors: if the library still opens it, its own view of it must be the view one generation (and one added file) later.',
            'The vendored foreign images are not available offline (vendor/*.tar.gz are git-LFS pointers); the re-laid-out and re-mastered images stand in for them and emulate only traits of real mastering programs (the ER continuation area has a sector of its own, as mkisofs writes it). Trusts the reference model.',
            'DESIGN.md section 3, C02'),
    'C05': ('exploration',
            'round-trip property testing (Hypothesis): write -> open -> write -> open -> write over generated images, byte comparison with the modification-date fields masked',
            'Each generated program (all profiles incl. El Torito sections, isohybrid, UDF, XA, duplicate PVDs, relocation, multi-sector continuation areas, with and without earlier generations) is mastered, then opened and written twice more under a pinned clock; B1 must equal B0 apart from the volume modification date fields and B2 must equal B1 exactly. The first differing byte is classified by the kind of on-disc object it lies in.',
            'time.time/uuid4/random pinned by the harness. An image just mastered that the library cannot open is reported here as well as by C01 (it cannot be re-mastered at all); histories that fail before that are C01/C02 findings and only counted.',
            'DESIGN.md section 3, C05'),
    'C06': ('exploration',
            'differential / metamorphic property testing (Hypothesis): same edits under generated schedules of force_consistency / queries / extra writes and both consistency modes must give identical bytes',
            'For each generated program the edits alone are run lazily to obtain reference bytes; then two drawn schedules insert force_consistency, get_record/list_children/walk/full_path_from_dirrecord/file_mode and extra write_fp calls at drawn positions, in lazy or always-consistent mode, and the final image must be byte-identical. After force_consistency the extent and length reported by get_record for every path must be where the next written image holds that file / directory.',
            'Random/uuid/time draws are pinned per op serial so inserted calls cannot shift them. Programs whose plain run fails are C01 domain and only counted.',
            'DESIGN.md section 3, C06'),
    'C03': ('exploration',
            'property-based testing (Hypothesis) with an independent decoder as oracle: generated images validated by a from-the-standard ECMA-119 reader and compared with the library API view',
            'Every image mastered from a generated program is decoded by vf/indep/iso9660.py (no pycdlib code): descriptor set + terminator, both-endian agreement of every number, record packing inside sectors, byte order of identifiers, "."/".." extents and sizes, directory sizes, L and M path tables rebuilt from the directory hierarchy in ECMA-119 6.9.1 order with parent numbers; the recovered ISO9660 and Joliet trees with contents must equal what the library API lists for the reopened image.',
            'The independent reader is my reading of ECMA-119 (checked by image-mutation tests). Byte order of identifiers is required; ECMA-119 9.3 ordering differences are a recorded known finding.',
            'DESIGN.md section 3, C03'),
    'C04': ('exploration',
            'property-based testing (Hypothesis) with an invariant over the allocation map decoded by independent readers, plus a write log of the mastering pass',
            'For each generated history (with and without reopen generations) the image is mastered through a write-recording file; the independent ISO9660/SUSP/UDF readers give the allocation map; checked: no two distinct objects overlap, everything inside the declared volume size, all descriptors agree on it, image length == declared size (+ cylinder padding on hybrids), names share data sectors iff the reference model says they are links, no byte is written twice (except the boot-info-table patch and final pad), no unused tail sector / unowned interior sector, and the library\'s own PYCDLIB_TRACK_WRITES detector stays silent (half of the cases). One file of 1-4 GiB per run (two in quick, twelve in thorough; several UDF allocation descriptors / ISO9660 extents) is mastered into a sparse file: its ISO9660, Joliet and UDF names must describe the same sectors, which hold its bytes, and share none with its neighbours.',
            'Exact-size clause is an interpretation (see DESIGN.md C04). Structural reserves (UDF bridge gap, version descriptor sector, path-table reservation) are allowed.',
            'DESIGN.md section 3, C04'),
    'C16': ('exploration',
            'stateful / model-based property testing (Hypothesis): generated stream-operation programs (and a RuleBasedStateMachine) shadowed by io.BytesIO',
            'Programs of open/read/readinto/readall/seek/tell/close/extract/query ops over 4-8 files (parsed from an image - half of the images without UDF independently re-mastered first -, added but unwritten, shared backing file, one > 4 GiB two-extent file) are interpreted against PyCdlibIO and an io.BytesIO shadow per stream; every return value and position must agree, extraction output must equal the content, and reads may only touch image bytes inside the file being read (read log of the image file).',
            'Closed streams are excluded by construction. One file of a recipe may be an El Torito boot file with a boot info table: readers must get the file with the 56-byte table over bytes 8..64 (computed independently: PVD sector, file extent, length, checksum of the rest), and the extent the table claims is verified against a mastering at the end of the case. Single-threaded interleavings only.',
            'DESIGN.md section 3, C16'),
    'C13': ('exploration',
            'property-based testing (Hypothesis): boundary-straddling candidate identifiers and re-add histories against a reference legality predicate, with an independent scan of the written directory',
            'Candidate identifiers from a grammar that straddles every boundary of the statement (characters, 8.3, 30/31, 207/208, 222+, dots, semicolons, versions, Joliet 64 units, UDF 254/127, depth 7/8) and 2-6 op histories that re-add existing/removed/other-type/other-namespace names are applied to fresh images. Accepted => legal per vf/legal.py, image writes, reopens and holds the identifier exactly once (independent struct-based lister); refused => exactly PyCdlibInvalidInput from the edit; illegal => refused; duplicates => refused. Every directory of the written image is walked physically as well - also the relocation directory and what the library put there under identifiers of its own making (template with 2-4 like-named directories at the eighth level): no identifier twice.',
            'vf/legal.py encodes the rules listed in the statement (interpretation points are marked). Over-refusals of legal names are counted, not failed.',
            'DESIGN.md section 3, C13'),
    'C18': ('exploration',
            'property-based testing (Hypothesis): generated Unicode source names through the mangling helpers and the facades, checked against the legality predicate and by real edits',
            'Nasty Unicode source names (case-mapping expanders, combining marks, astral, dots, semicolons, control characters; lengths around 8/12/30/207/255) at every level for files and directories: the helpers must not raise, the derived identifier must be legal (vf/legal.py) and accepted by a real add on a fresh image that writes and reopens, identity on already-legal input, and the Rock Ridge/Joliet/UDF facades must add, find, read and remove entries by the generated names. Half of the Rock Ridge cases also put 2-4 like-named directories at the eighth level of different parents through the facade (the library relocates them under identifiers of its own making) with a file in each: every file is found by its facade path, in its own directory only, live and after reopen.',
            'Collisions of derived names inside one directory are skipped (the facades have no collision numbering).',
            'DESIGN.md section 3, C18'),
    'C20': ('exploration',
            'property-based testing (Hypothesis): generated source trees and option sets through the two command-line tools as subprocesses; extracted tree compared with a model, image sniffed independently',
            'Source trees (colliding names after mangling, Unicode, > 8.3 / 31 / 64 characters, deep nesting, empty files and directories, identical and hash-colliding contents incl. copies of the boot image, relative/absolute/dangling symlinks, a directory that fills one sector exactly in the Joliet or ISO9660 view) x -iso-level x -R/-r x -J x -udf x -scan-for-duplicates x boot options x hide/exclude patterns are built with pycdlib-genisoimage and extracted with pycdlib-extract-files per requested view; paths, bytes and symlink targets must match the model of the tree, the ISO9660 view must hold every file once under a legal distinct identifier, and the image must carry exactly the requested extensions (struct-based sniffing).',
            'Only documented option combinations are generated; patterns never start with "-" and never match the boot image.',
            'DESIGN.md section 3, C20'),
    'C08': ('exploration',
            'property-based testing (Hypothesis) with an independent SUSP/RRIP decoder as oracle, compared with the reference model',
            'Images of generated Rock Ridge histories (1.09/1.10/1.12, XA, names up to > 1000 bytes, symlink targets from a grammar, relocation, many entries per directory, removals, reopen generations) are decoded by vf/indep/iso9660.py: NM-joined names, PX modes (when given), PX link counts recomputed from the physical hierarchy, SL targets and the logical tree after CL/RE/PL resolution must equal the model; system-use areas must be well formed (lengths, CE areas inside their sector and disjoint, CE/CL/PL targets, ER id for the version, SP only in the root dot record, PX length per version).',
            'Independent SUSP/RRIP reader is my reading of the specifications. Link count rule for directories is an interpretation (POSIX count over the physical hierarchy).',
            'DESIGN.md section 3, C08'),
    'C09': ('exploration',
            'property-based testing (Hypothesis) with an independent Joliet decoder as oracle, plus boundary probes for the refusal clause',
            'Images of generated Joliet histories (levels 1-3, divergent trees, BMP and astral names up to 64 UTF-16 units, removals, reopen) are decoded from the supplementary descriptor alone: tree, names and contents must equal the model, Joliet files must share sectors with their ISO9660 links, the descriptor\'s path tables / "." / ".." / ordering must be valid and the escape sequence must match the level. Single-edit probes with names of 58..70 units check that > 64 units is refused with PyCdlibInvalidInput and that accepted names come back exactly. In a third of the cases one file is afterwards replaced in place (modify_file_in_place, same number of sectors) in the written image file and the Joliet tree of that file is decoded and compared again.',
            'Names are decoded as UTF-16BE; astral characters count as two units.',
            'DESIGN.md section 3, C09'),
    'C10': ('exploration',
            'property-based testing (Hypothesis) with an independent ECMA-167/UDF decoder as oracle, compared with the reference model',
            'Images of generated UDF histories (files, directories past one sector of FIDs, symlinks, cross-namespace and UDF hard links, removals, reopen-then-edit, Latin-1 and UCS-2 names) are decoded by vf/indep/udf.py starting only from the VRS and the anchors at 256 and the last sector: all validator clauses (anchors, tags incl. CRC/checksum/location, main/reserve VDS, partition bounds, LVID, FSD->root, information lengths, extents, parent FIDs, link counts, names) must be silent and the recovered tree, symlink targets and file bytes must equal the model.',
            'Independent UDF reader validated by its image-mutation self-test. Files > 4 GiB not in the quick tier.',
            'DESIGN.md section 3, C10'),
    'C11': ('exploration',
            'property-based testing (Hypothesis) with an independent El Torito decoder as oracle, compared with the requested boot parameters and file contents',
            'Images of generated boot histories (noemul/floppy/hdemul, platform ids, up to 32 entries, efi/bootable flags, load size/segment, boot info table, explicit catalog names, catalog hard links, unlinked boot files, rm_eltorito, reopen) are decoded independently: boot record at 17, validation entry checksum, per-entry parameters, section headers, each RBA holding the chosen boot file\'s bytes, the catalog readable through each of its names with identical bytes, and the boot info table (PVD sector, file sector, length, checksum) both as stored and as read back. The catalog is also read through its names on the live object right before mastering and compared with the catalog sector of that image. Once El Torito has been removed, the allocation clauses of C04 (no sector without an owner, no tail slack, image length) are applied: everything only El Torito referred to must be gone. rm_eltorito on an isohybrid image is a call that must be refused.',
            'El Torito 1.0 layout as I read it. Section platform ids follow what add_eltorito documents.',
            'DESIGN.md section 3, C11'),
    'C12': ('exploration',
            'property-based testing (Hypothesis) with an independent MBR/GPT/APM decoder as oracle plus a differential against the non-hybrid image of the same history',
            'Hybrid images by construction (isolinux-signature boot file, 0-2 EFI entries, drawn geometry 1..63 x 1..256, partition entry/offset/type, mbr id, efi/mac, edits after add_isohybrid, reopen) are decoded by vf/indep/hybrid.py and validated against facts from the independent ISO9660/El Torito reader: signature, single active partition with CHS/LBA covering the cylinder-padded image, boot file address, GPT CRCs and primary/backup mirror, EFI/Mac partitions and APM entries delimiting the El Torito images, no overlap of the backup GPT with the volume; bytes from 32 KiB to the volume end must equal the non-hybrid image of the same history.',
            'Either assignment of two 0xef images to the EFI and Mac roles is accepted (interpretation).',
            'DESIGN.md section 3, C12'),
    'C07': ('exploration',
            'stateful / model-based property testing (Hypothesis): generated link/unlink/remove/boot interleavings with an invariant checked after every step on the mastered image',
            'Programs from the links profile (add_fp incl. empty files, add_hard_link across all namespace pairs and from the boot catalog, rm_hard_link, rm_file via each namespace, add/rm_eltorito, reopen) are executed step by step; after every applied edit the image is mastered and decoded independently: file names per namespace must equal the reference model, all names of one content must point at sectors holding its bytes, distinct contents must not share sectors, nothing may overlap, and no sector may stay allocated once the last reference (name or El Torito entry) is gone.',
            'Documented looseness for zero-byte files is modelled as an interval. Per-step mastering is assumed not to disturb the object (C06).',
            'DESIGN.md section 3, C07'),
    'C14': ('fault_enumeration',
            'fault enumeration with property-based placement (Hypothesis): every row of a refusal catalogue (mutator x cause x stage) injected at generated points of generated histories; twin-run byte comparison',
            'The refusal catalogue (vf/model.py BadCatalogue, 131 rows: 11 late refusals of records that already reserved a Rock Ridge continuation area; 30 rows added after the fourth sensitivity round - a taken Rock Ridge name under fresh other names, empty-string paths per call and namespace, the Joliet-only directory calls, clear_hidden, open on an initialised object, calls without a path, an unrepresentable UDF symlink target; and bad/duplicate/over-long name or missing parent in the first, second or third namespace, wrong entry type, missing Rock Ridge name, foreign-namespace arguments, depth, invalid boot parameters with and without a boot info table, duplicate catalog names per namespace, hybrid parameters, wrong object state ...) is enumerated; each refused call is placed at a drawn point of a generated history. The image written right after the refused call must equal the one written right before it, the final image must equal that of the twin run without the refused calls, later edits must behave identically and no write may fail; finally both runs give everything back (El Torito, every file, symlink and directory, bottom-up) and the images must agree again, so that counters and reservations leaked by a refused call show when what they belong to is released. Calls of the history itself that the library refuses (the model holds them valid) are treated the same way: a third run with the first such call taken out must refuse the same later calls and master the same bytes. Evidence lists hits per catalogue row.',
            'A catalogue call that the library accepts is handed to C13 (counted). modify_file_in_place refusals are C17.',
            'DESIGN.md section 3, C14 and appendix A'),
    'C17': ('exploration',
            'property-based testing (Hypothesis): generated images and modification sequences; byte-diff confinement against regions located by independent readers, plus reopen and view comparison',
            'The final image of a generated program (in a third of the cases first re-mastered by vf/indep/remaster.py, so that the library modifies an image it did not write) is written to a read/write file object and opened from it; 1-3 modify_file_in_place calls pick a target (file / directory / missing path) and a new length class (0, 1, same, up to and beyond the sector boundary, one sector less). Refusals must leave the file byte-identical; an accepted call must only change the file\'s data sectors, the directory records / UDF file entry of its names and the size/date fields of the descriptors (regions located on the pre-image by the independent ISO9660/UDF readers), the result must be a valid image for the independent reader and reopen with every name of the content showing the new bytes and everything else unchanged.',
            'BytesIO backing file. The modification date field is allowed to change along with the size fields (interpretation).',
            'DESIGN.md section 3, C17'),
    'C15': ('fault_enumeration',
            'structured mutation fuzzing: Hypothesis-driven (quick) and coverage-guided atheris/libFuzzer (thorough) patches of valid base images taken from independent field maps; exception-type and work-bound oracle',
            'One decoder turns (base image, patch list) into bytes: 56 valid base images from the history engine (all extension combinations, 8 of them with a real boot info table) are truncated at drawn lengths, have fields from the independent readers\' field maps (lengths, extents, counts, tags, pointers - ISO9660, SUSP, path tables, El Torito, UDF, MBR/GPT) replaced by boundary/cyclic/out-of-range/byte-swapped/random values, or bytes flipped; "pair" cases patch two neighbouring fields of one structure with coordinated values, "resealed" cases make the tag CRC/checksum of every patched UDF descriptor valid again, "pointer" cases give a pointer field the value of another pointer of its kind (self-referencing structures). "smaller" / "larger" cases set sizes, counts and lengths far below / beyond what the image can hold (resealed). open_fp on the result must return or raise a PyCdlibException subclass; in half of the cases the file object behaves like a file of the operating system (OSError for a negative offset, a buffer allocated before reading - a read request out of proportion to the image is MemoryError), and in a quarter the PyCdlib object has had a small volume on a 1 TiB medium open before (close() documents re-use). A deterministic work bound on the reads of the image file, RLIMIT_AS and a budget of 30 s CPU time (ITIMER_VIRTUAL, independent of load) decide termination and memory. The thorough tier adds 15 atheris processes feeding the same decoder (and raw splices) with coverage feedback, from empty and seeded corpora. Violations are bucketed by (exception type, innermost repository frame).',
            'Sampling of the byte-string space around valid images; arbitrary random bytes mostly die at the first magic check and are exercised through the raw-splice mode only.',
            'DESIGN.md section 3, C15'),
}

NOT_YET = 'check not built yet in this session (work in progress; see DESIGN.md section 9 for the order)'


def main():
    checks = []
    for pid in ALL:
        if pid not in CLAIMED:
            continue
        cat, tech, text, note, ref = CLAIMED[pid]
        checks.append({
            'property_id': pid,
            'quick_cmd': './check %s --tier quick' % pid,
            'thorough_cmd': './check %s --tier thorough' % pid,
            'evidence_file': 'evidence/%s.json' % pid,
            'replay_cmd_template': './check %s --replay {path}' % pid,
            'engine': 'vf',
            'level_claimed': {'category': cat, 'text': text, 'design_ref': ref},
            'level_note': note,
            'technique': tech,
        })
    na = [{'property_id': p, 'reason': NOT_YET} for p in ALL if p not in CLAIMED]
    m = {
        'version': 1,
        'setup_cmd': './setup.sh',
        'hooks': {
            'guard': 'PYCDLIB_VERIF',
            'enable': 'no hooks are needed: time.time, uuid.uuid4 and random are pinned from the harness (vf/shim.py) and file objects passed through the public API are wrapped; the guard variable is unused',
            'baseline_off_cmd': 'cd /repo && /venv/bin/python -m pytest -ra -q -p no:cacheprovider --timeout=900 --continue-on-collection-errors',
            'source_commits': [],
            'add_only': True,
        },
        'engines': [{
            'name': 'vf',
            'path': 'vf/',
            'serves_properties': sorted(CLAIMED),
            'kind_free_text': 'Hypothesis-driven generated-input campaigns (edit histories as data, byte-level mutation, stateful machines) with explicit oracles: reference model, independent decoders written from the standards, round trips, differential/metamorphic relations; collect-then-shrink by failure signature; sharded over 16 processes',
        }],
        'checks': checks,
        'notes': 'Every check is ./check <ID> --tier quick|thorough; VERIF_SEED selects the Hypothesis seed (seed*64+shard). Exit 0 held / 1 VIOLATION / 2 harness error. known_findings.json lists genuine defects (open -> KNOWN-FINDING line, fixed -> suppresses nothing).',
        'not_applicable': na,
    }
    with open(os.path.join(HERE, 'MANIFEST.json'), 'w') as f:
        json.dump(m, f, indent=1)
        f.write('\n')
    try:
        import jsonschema
        jsonschema.validate(m, json.load(open('/root/.vp/MANIFEST.schema.json')))
        print('MANIFEST.json valid;', len(checks), 'checks,', len(na), 'not_applicable')
    except ImportError:
        print('MANIFEST.json written (jsonschema not importable here)')


if __name__ == '__main__':
    main()
