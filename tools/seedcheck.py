#!/venv/bin/python
"""seedcheck.py <seed dir> [check ids...]
<seed dir> holds patch.diff and demo.py (a seeded change that breaks a property).  Makes a scratch copy of /repo,
confirms (1) demo passes on the unmodified copy, (2) patch applies, (3) demo fails with the patch, (4) the pinned test
suite still passes with the patch, then runs the given quick checks (default: all registered) against the patched copy
(VERIF_REPO) and prints which of them report a violation.  The scratch copy is removed afterwards."""
import json, os, shutil, subprocess, sys, tempfile, time
seed = os.path.abspath(sys.argv[1])
checks = sys.argv[2:] or [c['property_id'] for c in json.load(open('/verif/MANIFEST.json'))['checks']]
work = tempfile.mkdtemp(prefix='seedcheck_', dir='/tmp')
tree = os.path.join(work, 'repo')
res = {'seed': seed, 'checks': {}}
try:
    subprocess.run(['git', 'clone', '-q', '/repo', tree], check=True)
    def demo():
        p = subprocess.run(['/venv/bin/python', os.path.join(seed, 'demo.py')], cwd=work, env=dict(os.environ, PYTHONPATH=tree), capture_output=True, text=True, timeout=600)
        return p.returncode, (p.stdout + p.stderr)[-300:]
    rc0, out0 = demo()
    res['demo_unpatched_rc'] = rc0
    ap = subprocess.run(['git', '-C', tree, 'apply', os.path.join(seed, 'patch.diff')], capture_output=True, text=True)
    res['patch_applies'] = ap.returncode == 0
    if ap.returncode:
        res['apply_error'] = ap.stderr[-300:]
    else:
        rc1, out1 = demo()
        res['demo_patched_rc'] = rc1
        res['demo_patched_tail'] = out1[-200:]
        t = subprocess.run(['/verif/tools/check_tests.py', tree], capture_output=True, text=True)
        res['tests_pass'] = t.returncode == 0
        res['tests_line'] = t.stdout.strip().splitlines()[0] if t.stdout.strip() else ''
        for c in checks:
            t0 = time.time()
            p = subprocess.run(['/verif/check', c, '--tier', 'quick'], cwd='/verif', env=dict(os.environ, VERIF_REPO=tree, VERIF_SEED=os.environ.get('VERIF_SEED', '1')), capture_output=True, text=True)
            sigs = [l.split('signature:')[1].strip()[:110] for l in p.stdout.splitlines() if 'signature:' in l]
            res['checks'][c] = {'rc': p.returncode, 'violations': sigs[:6], 'wall': round(time.time() - t0, 1)}
            print(c, 'rc=%d' % p.returncode, sigs[:3], flush=True)
finally:
    shutil.rmtree(work, ignore_errors=True)
    subprocess.run(['git', '-C', '/verif', 'checkout', '--', 'evidence'], capture_output=True)
print(json.dumps(res, indent=1))
