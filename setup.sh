#!/bin/sh
# Offline setup: everything comes from the wheelhouse on disk.
set -e
HERE="$(cd "$(dirname "$0")" && pwd)"
/venv/bin/python -c 'import hypothesis' 2>/dev/null || \
  /venv/bin/pip install --no-index --find-links /opt/veriftools/wheels hypothesis
mkdir -p "$HERE/.deps"
/venv/bin/python -c "import sys; sys.path.append('$HERE/.deps'); import atheris" 2>/dev/null || \
  /venv/bin/pip install --no-index --find-links /opt/veriftools/wheels --target "$HERE/.deps" atheris || \
  echo "atheris unavailable: C15 thorough tier falls back to Hypothesis only"
/venv/bin/python -c 'import hypothesis; print("hypothesis", hypothesis.__version__)'
