"""Reference model of what the pycdlib documentation says each edit means.

One tree per namespace (ISO9660 with optional Rock Ridge attributes, Joliet, UDF); blobs
(content + set of names across namespaces + El Torito references); symlinks; hidden flags;
boot state; hybrid parameters; number of PVD copies; relocation directory name.

The model never looks at pycdlib.  `resolve(op)` turns a symbolic op into a concrete call
description plus an `effect` closure that applies the documented meaning to the model.
"""
import io
import hashlib

from vf import names

NS = ('iso', 'jol', 'udf')
NSBIT = {'iso': 1, 'jol': 2, 'udf': 4}


def content(blob_id, length, ckind=0):
    """File content as a pure function of drawn integers."""
    if length == 0:
        return b''
    data = bytearray(hashlib.shake_128(b'blob%d' % blob_id).digest(min(length, 1 << 20)))
    if length > len(data):
        data = (data * (length // len(data) + 1))[:length]
    if ckind == 1 and length >= 0x44:
        data[0x40:0x44] = b'\xfb\xc0\x78\x70'
    if ckind == 2 and length >= 512:
        data[0:512] = hd_mbr(blob_id)
    return bytes(data)


def hd_mbr(seed):
    """A minimal MBR with exactly one partition entry (required by El Torito hdemul)."""
    m = bytearray(512)
    ent = bytearray(16)
    ent[0] = 0x80
    ent[4] = [0x01, 0x04, 0x06, 0x0b, 0x83][seed % 5]
    ent[5:8] = bytes([0x3f, 0x20, 0x00])
    ent[8:12] = (1).to_bytes(4, 'little')
    ent[12:16] = (64).to_bytes(4, 'little')
    m[446:462] = ent
    m[510:512] = b'\x55\xaa'
    return bytes(m)


def join(parent, name):
    return ('' if parent == '/' else parent) + '/' + name


def parent_of(path):
    p = path.rsplit('/', 1)[0]
    return p or '/'


def depth(path):
    return 0 if path == '/' else path.count('/')


class Blob:
    __slots__ = ('id', 'length', 'ckind', 'names', 'boot_refs', 'bit', 'catalog', 'cid')

    def __init__(self, bid, length, ckind=0):
        self.id = bid
        self.cid = bid          # content id (changes when the content is replaced in place, C17)
        self.length = length
        self.ckind = ckind
        self.names = set()      # (ns, path)
        self.boot_refs = 0
        self.bit = False
        self.catalog = False


class Skip(Exception):
    """The op's symbolic references cannot be resolved in the current state."""


class Call:
    __slots__ = ('method', 'kwargs', 'effect', 'note', 'blob', 'post')

    def __init__(self, method, kwargs, effect, note=None, blob=None):
        self.method = method
        self.kwargs = kwargs
        self.effect = effect
        self.note = note
        self.blob = blob
        self.post = None


class Model:
    def __init__(self, cfg, avoid=()):
        self.cfg = dict(cfg)
        self.avoid = set(avoid or ())
        self.rr_moved_removed = False
        self.level = cfg['level']
        self.rr = cfg.get('rr')
        self.has = {'iso': True, 'jol': cfg.get('joliet') is not None, 'udf': bool(cfg.get('udf'))}
        self.t = {ns: {} for ns in NS}          # path -> entry dict
        for ns in NS:
            if self.has[ns]:
                self.t[ns]['/'] = {'type': 'dir', 'gid': 0, 'hidden': False, 'rr': None, 'mode': 0o040555}
        self.gids = {0: {ns: '/' for ns in NS if self.has[ns]}}
        self.blobs = {}
        self.boot = None
        self.hybrid = None
        self.pvds = 1
        self.reloc = None          # (iso name, rr name) once set or used
        self.generation = 0
        self.classes = set()
        self.next_null = 0
        self.used_names = {False: [], True: []}   # name sets drawn so far (for 'reuse': same names in another directory)
        self.zero_shared = False   # after a reopen zero-length files/symlinks share one inode in the library

    # ------------------------------------------------------------------ helpers
    def on_reopen(self):
        """What a written image cannot carry: a boot file without any name is known from its El Torito
        entry only, i.e. as `sector count` virtual sectors of 512 bytes."""
        # a relocation directory name of the user's choice is a setting of the object, not of the image: a new object
        # knows the relocation directory only by the relocated directories it finds in it
        if self.reloc is not None and self.reloc != ('RR_MOVED', 'rr_moved'):
            if not self.relocated_dirs():
                self.reloc = None
            else:
                self.reloc_forget = True
        seen = set()
        for e in (self.boot or {}).get('entries', []):
            b = self.blobs.get(e['blob'])
            if b is None or b.id in seen:
                continue
            seen.add(b.id)
            if not b.names and e['load'] * 512 < b.length and e.get('media') != 'floppy':     # (a diskette image has the size of its medium)
                b.length = e['load'] * 512
                self.classes.add('hidden-boot-file-cut-to-load-size')

    def avoided(self, fid):
        self.avoided_counts = getattr(self, 'avoided_counts', {})
        self.avoided_counts[fid] = self.avoided_counts.get(fid, 0) + 1

    def role(self, ns, path):
        """What kind of entry a path is, for narrow failure signatures."""
        key = 'iso' if ns in ('rr', 'isol') else ns
        tree = self.t.get(key, {})
        e = None
        if ns == 'rr':
            for p, ent in tree.items():
                if p != '/' and self.rr_path(p) == path:
                    e, path = ent, p
                    break
        else:
            e = tree.get(path)
        if e is None:
            return 'not-in-model'
        tags = []
        if key == 'iso' and self.rr and self.level < 4:
            p = path
            while p != '/':
                if self.t['iso'].get(p, {}).get('reloc'):
                    tags.append('in-relocated-tree')
                    break
                p = parent_of(p)
        if e['type'] == 'file':
            b = self.blobs.get(e['blob'])
            if b is None:
                tags.append('dead-blob')
            elif b.catalog:
                tags.append('catalog')
            else:
                if b.boot_refs:
                    tags.append('bootfile' + ('-unlinked-name' if not any(n == 'iso' for n, _ in b.names) else ''))
                if b.length == 0:
                    tags.append('zero-length')
                if len(b.names) > 1:
                    tags.append('linked')
        else:
            tags.append(e['type'])
        return '+'.join(tags) or 'plain'

    def enabled(self):
        return [ns for ns in NS if self.has[ns]]

    def children(self, ns, path):
        pre = '/' if path == '/' else path + '/'
        n = len(pre)
        return [p for p in self.t[ns] if p.startswith(pre) and p != '/' and '/' not in p[n:]]

    def is_empty(self, ns, path):
        pre = '/' if path == '/' else path + '/'
        for p in self.t[ns]:
            if p != path and p.startswith(pre):
                return False
        return True

    def rr_path(self, iso_path):
        """Rock Ridge path of an ISO entry (join of the rr names along the logical path)."""
        if iso_path == '/':
            return '/'
        comps = []
        p = iso_path
        while p != '/':
            comps.append(self.t['iso'][p]['rr'])
            p = parent_of(p)
        return '/' + '/'.join(reversed(comps))

    def reloc_name_taken(self):
        iso_name, rr_name = self.rr_moved_names()
        for p, e in self.t['iso'].items():
            if p != '/' and parent_of(p) == '/' and (p == '/' + iso_name or (self.rr and e.get('rr') == rr_name)):
                return True
        return False

    def relocated_dirs(self):
        return [p for p, e in self.t['iso'].items() if e.get('reloc')]

    def rr_moved_names(self):
        return self.reloc or ('RR_MOVED', 'rr_moved')

    def pick_gid(self, i):
        g = sorted(self.gids)
        return g[i % len(g)]

    def file_blobs(self, pred=None):
        out = [b for b in self.blobs.values() if b.names and not b.catalog and (pred is None or pred(b))]
        out.sort(key=lambda b: b.id)
        return out

    def iso_file_ok_depth(self, parent_path):
        """Depth rule for a new ISO entry under parent_path."""
        if self.rr or self.level == 4:
            return True
        return depth(parent_path) + 1 <= 7

    def _new_names(self, op, isdir, parents=None):
        nm = self._fresh_names(op, isdir)
        r = op.get('reuse', 0)
        pool = self.used_names[isdir]
        if r and parents and pool and not op.get('xl'):
            cand = pool[r % len(pool)]
            if all(join(parents[ns], cand[ns]) not in self.t[ns] for ns in parents):
                self.classes.add('same-name-other-dir')
                return cand
        if op.get('k') != 'bad':      # a refused call must not shift what later draws pick (twin runs, C14)
            pool.append(nm)
        return nm

    MAGIC = ['XA', 'XA', 'SP', 'CE', 'NM', 'RR', 'ER', 'PX', 'SL', 'TF', 'CL', 'PL', 'RE', 'ST', 'XAXA', 'XA\x00', 'AA']

    def _fresh_names(self, op, isdir):
        lvl = self.level
        sz, lead, salt, n = op.get('sz', 0), op.get('lead', 0), op.get('salt', 0), op['n']
        # A Rock Ridge (and XA) record must still fit 255 bytes: the library needs room for the
        # mandatory system-use entries next to the identifier (measured limit 176/190; C13 owns the boundary)
        cap = None
        if self.rr:
            cap = 150
        elif self.cfg.get('xa'):
            cap = 190
        xl = op.get('xl')
        if xl and xl.get('rr', 8) < 4:
            # very short Rock Ridge names next to exact ISO9660 lengths: the last characters of the serial (unique for < 36^k ops)
            k = max(1, xl['rr'])
            short = names.b36(n, 3).lower()[-k:]
            base = {'iso': names.exact_iso_dir(n, xl.get('iso', 7), lead) if isdir else names.exact_iso_file(n, xl.get('iso', 10), lead),
                    'rr': short, 'jol': names.exact_plain(n, xl.get('jol', 5), lead), 'udf': names.exact_plain(n, xl.get('udf', 7), lead)}
            return base
        if xl and isdir:
            return {'iso': names.exact_iso_dir(n, xl.get('iso', 7), lead), 'rr': names.exact_plain(n, xl.get('rr', 8), lead),
                    'jol': names.exact_plain(n, xl.get('jol', 5), lead), 'udf': names.exact_plain(n, xl.get('udf', 7), lead)}
        if xl and not isdir:
            # exact lengths requested (sector-filling recipes)
            return {'iso': names.exact_iso_file(n, xl.get('iso', 10), lead), 'rr': names.exact_plain(n, xl.get('rr', 8), lead),
                    'jol': names.exact_plain(n, xl.get('jol', 5), lead), 'udf': names.exact_plain(n, xl.get('udf', 7), lead)}
        rrn = names.rr_name(n, op.get('rsz', sz), lead, salt)
        if op.get('magic'):
            # signatures of on-disc structures right behind the first character of the Rock Ridge name (parsers that sniff for
            # a structure at a fixed offset of the system use field see the name's characters there)
            rrn = rrn[0] + self.MAGIC[op['magic'] % len(self.MAGIC)] + rrn[1:]
        isod = names.iso_dir(n, lvl, sz, lead, salt, cap) if isdir else None
        if isdir and op.get('rrm'):
            # a directory of the user's that has the default names of the Rock Ridge relocation directory (one of them or both)
            if op['rrm'] in (1, 2):
                isod = 'RR_MOVED'
            if op['rrm'] in (1, 3):
                rrn = 'rr_moved'
        return {
            'iso': isod if isdir else names.iso_file(n, lvl, sz, lead, salt, 1, cap),
            'rr': rrn,
            'jol': names.joliet_name(n, sz, lead, salt),
            'udf': names.udf_name(n, op.get('usz', sz), lead, salt),
        }

    def _parents(self, op, want_mask):
        gid = self.pick_gid(op.get('d', 0))
        where = self.gids[gid]
        out = {}
        for ns in NS:
            if self.has[ns] and (want_mask & NSBIT[ns]) and ns in where:
                out[ns] = where[ns]
        return gid, out

    def drop_blob_if_dead(self, b):
        if not b.names and b.boot_refs == 0 and not b.catalog:
            self.blobs.pop(b.id, None)

    def remove_name(self, ns, path):
        e = self.t[ns].pop(path)
        if e['type'] == 'file':
            b = self.blobs.get(e['blob'])
            if b is not None:
                b.names.discard((ns, path))
                self.drop_blob_if_dead(b)
        return e

    # ------------------------------------------------------------------ resolve
    def resolve(self, op):
        return getattr(self, 'op_' + op['k'])(op)

    def op_add_fp(self, op):
        gid, parents = self._parents(op, op.get('ns', 7))
        if 'iso' in parents and not self.iso_file_ok_depth(parents['iso']):
            del parents['iso']
        if not parents:
            raise Skip('no namespace available')
        nm = self._new_names(op, False, parents)
        if op.get('vtwin') and 'iso' in parents:
            # another version of a file that is already in this directory: the same name and extension, a different number after ';'
            sibs = sorted(p for p, e in self.t['iso'].items() if p != '/' and parent_of(p) == parents['iso'] and e['type'] == 'file' and ';' in p.rsplit('/', 1)[1])
            if sibs:
                base = sibs[op['vtwin'] % len(sibs)].rsplit('/', 1)[1].rpartition(';')[0]
                for v in ([2, 3, 32767, 1, 10] * 2)[op['vtwin'] % 5:]:
                    if join(parents['iso'], '%s;%d' % (base, v)) not in self.t['iso']:
                        nm = dict(nm, iso='%s;%d' % (base, v))
                        self.classes.add('other-version-of-a-sibling')
                        break
        if op.get('utwin') and 'udf' in parents:
            # a sibling's Latin-1 UDF name re-read as UCS-2: other characters, other compression id, the very same identifier bytes
            sibs = sorted(p for p, e in self.t['udf'].items() if p != '/' and parent_of(p) == parents['udf'])
            for k in range(len(sibs)):
                base = sibs[(op['utwin'] + k) % len(sibs)].rsplit('/', 1)[1]
                try:
                    raw = base.encode('latin-1')
                    if len(raw) % 2 or len(raw) < 4:
                        continue
                    cand = raw.decode('utf-16_be')
                    cand.encode('utf-16_be', 'strict')
                except (UnicodeError, ValueError):
                    continue
                if any(0xd800 <= ord(ch) <= 0xdfff for ch in cand) or '/' in cand or '\0' in cand:
                    continue
                if join(parents['udf'], cand) not in self.t['udf']:
                    nm = dict(nm, udf=cand)
                    self.classes.add('udf-name-with-a-siblings-bytes')
                    break
        if op.get('xtwin') and 'iso' in parents:
            # a sibling's name with one more digit at the end of the extension: byte order and ECMA-119 9.3 order (extension
            # padded with spaces) disagree about which of the two comes first
            sibs = sorted(p for p, e in self.t['iso'].items() if p != '/' and parent_of(p) == parents['iso'] and e['type'] == 'file' and ';' in p.rsplit('/', 1)[1])
            for k in range(len(sibs)):
                base, _, ver = sibs[(op['xtwin'] + k) % len(sibs)].rsplit('/', 1)[1].rpartition(';')
                stem, dot, ext = base.partition('.')
                if dot and len(ext) < (3 if self.level == 1 else 8) and len(base) < (12 if self.level == 1 else 28):
                    cand = '%s.%s%d;%s' % (stem, ext, op['xtwin'] % 10, ver)
                    if join(parents['iso'], cand) not in self.t['iso']:
                        nm = dict(nm, iso=cand)
                        self.classes.add('extension-twin-of-a-sibling')
                        break
        length = op['len']
        if length > 0xffffffff and self.level < 3 and 'iso' in parents:
            raise Skip('large file below level 3')
        kw = {}
        paths = {}
        for ns in parents:
            paths[ns] = join(parents[ns], nm[ns])
        if 'iso' in paths:
            kw['iso_path'] = paths['iso']
            if self.rr:
                kw['rr_name'] = nm['rr']
        if 'jol' in paths:
            kw['joliet_path'] = paths['jol']
        if 'udf' in paths:
            kw['udf_path'] = paths['udf']
        mode = op.get('mode')
        if mode is not None and self.rr and 'iso' in paths:
            kw['file_mode'] = mode
        else:
            mode = None
        bid = op['n']
        ck = op.get('ck', 0)
        blob = Blob(bid, length, ck)

        def effect():
            self.blobs[bid] = blob
            for ns, p in paths.items():
                e = {'type': 'file', 'blob': bid, 'hidden': False}
                if ns == 'iso':
                    e['rr'] = nm['rr'] if self.rr else None
                    e['mode'] = mode if self.rr else None   # only an explicitly given mode is checked
                self.t[ns][p] = e
                blob.names.add((ns, p))
            if length == 0:
                self.classes.add('zero-length-file')
            if len(paths) > 1:
                self.classes.add('cross-namespace-link')
        return Call('add_file' if op.get('file') else 'add_fp', kw, effect, blob=blob)

    def op_add_dir(self, op):
        gid, parents = self._parents(op, op.get('ns', 7))
        if 'iso' in parents and not (self.rr or self.level == 4) and depth(parents['iso']) + 1 > 7:
            del parents['iso']
        if not parents:
            raise Skip('no namespace available')
        reloc_here = 'iso' in parents and self.rr and self.level < 4 and (depth(parents['iso']) + 1) % 8 == 0
        if reloc_here and not self.relocated_dirs() and self.reloc_name_taken():
            raise Skip('the relocation directory cannot be created: its name is taken (refusal row add_directory/relocation-name-taken)')
        # relocated directories share one RR_MOVED, where the library renames the second of two equal identifiers:
        # names are reused there only on request (reloctwins profile)
        nm = self._new_names(op, True, None if (reloc_here and not op.get('twin')) else parents)
        paths = {ns: join(parents[ns], nm[ns]) for ns in parents}
        kw = {}
        mode = op.get('mode')
        if 'iso' in paths:
            kw['iso_path'] = paths['iso']
            if self.rr:
                kw['rr_name'] = nm['rr']
                if mode is not None:
                    kw['file_mode'] = mode
        if 'jol' in paths:
            kw['joliet_path'] = paths['jol']
        if 'udf' in paths:
            kw['udf_path'] = paths['udf']
        new_gid = op['n']
        if ('iso' in paths and self.rr and self.level < 4 and depth(paths['iso']) % 8 == 0 and self.rr_moved_removed
                and 'rr-moved-stale' in self.avoid):
            raise Skip('avoid:rr-moved-stale')
        if ('iso' in paths and self.rr and self.level < 4 and depth(paths['iso']) % 8 == 0 and self.generation > 0
                and 'reloc-after-reopen' in self.avoid):
            raise Skip('avoid:reloc-after-reopen')

        def effect():
            self.gids[new_gid] = dict(paths)
            for ns, p in paths.items():
                e = {'type': 'dir', 'gid': new_gid, 'hidden': False}
                if ns == 'iso':
                    e['rr'] = nm['rr'] if self.rr else None
                    e['mode'] = mode if self.rr else None
                    if self.rr and self.level < 4 and depth(p) % 8 == 0:
                        e['reloc'] = True
                        self.classes.add('relocation')
                        if self.reloc is None:
                            self.reloc = ('RR_MOVED', 'rr_moved')
                self.t[ns][p] = e
            if len(set(paths)) != len(self.enabled()):
                self.classes.add('divergent-trees')
        return Call('add_directory', kw, effect)

    def _blob_name(self, op, pred=None):
        bl = self.file_blobs(pred)
        if not bl:
            raise Skip('no blob')
        b = bl[op.get('b', 0) % len(bl)]
        nl = sorted(b.names)
        ns, path = nl[op.get('j', 0) % len(nl)]
        return b, ns, path

    def op_rm_file(self, op):
        b, ns, path = self._blob_name(op, lambda b: b.boot_refs == 0)
        kw = {{'iso': 'iso_path', 'jol': 'joliet_path', 'udf': 'udf_path'}[ns]: path}
        had = len(b.names)

        def effect():
            # documented: "removes the data and the listing of the file from all contexts"
            for (n2, p2) in sorted(b.names):
                self.t[n2].pop(p2, None)
            b.names.clear()
            self.drop_blob_if_dead(b)
            self.classes.add('removal')
            if had >= 2:
                self.classes.add('rm_file-multi-name')
        c = Call('rm_file', kw, effect, blob=b)
        c.note = ('rm_file', ns, path)
        return c

    def op_rm_dir(self, op):
        cands = []
        for gid in sorted(self.gids):
            if gid == 0:
                continue
            where = self.gids[gid]
            if where and all(self.is_empty(ns, p) for ns, p in where.items()):
                cands.append(gid)
        if not cands:
            raise Skip('no empty dir')
        gid = cands[op.get('d', 0) % len(cands)]
        where = dict(self.gids[gid])
        mask = op.get('ns', 7)
        sel = {ns: p for ns, p in where.items() if mask & NSBIT[ns]} or where
        kw = {}
        if 'iso' in sel:
            kw['iso_path'] = sel['iso']
        if 'jol' in sel:
            kw['joliet_path'] = sel['jol']
        if 'udf' in sel:
            kw['udf_path'] = sel['udf']

        def effect():
            for ns, p in sel.items():
                e = self.t[ns].pop(p)
                del self.gids[gid][ns]
                if e.get('reloc') and not self.relocated_dirs():
                    self.rr_moved_removed = True
                    if getattr(self, 'reloc_forget', False):
                        self.reloc = None
                        self.reloc_forget = False
            if not self.gids[gid]:
                del self.gids[gid]
            self.classes.add('removal')
            self.classes.add('rm_directory')
        return Call('rm_directory', kw, effect)

    def op_add_link(self, op):
        if op.get('symsrc') and self.rr and not (op.get('symsrc') == 2 and self.has['udf'] and any(e['type'] == 'sym' for e in self.t['udf'].values())):
            # the old path names a Rock Ridge symlink: nothing to share, the call must be refused
            syms = sorted(p for p, e in self.t['iso'].items() if e['type'] == 'sym')
            if syms:
                gid, parents = self._parents(op, NSBIT['iso'])
                if 'iso' in parents and self.iso_file_ok_depth(parents['iso']):
                    nm = self._new_names(dict(op, k='bad'), False)
                    return Call('add_hard_link', {'iso_old_path': syms[op['symsrc'] % len(syms)], 'iso_new_path': join(parents['iso'], nm['iso']), 'rr_name': nm['rr']},
                                lambda: None, note=('must-refuse', 'old-path-is-a-symlink'))
        if op.get('symsrc') == 2 and self.has['udf']:
            # ... or a UDF symlink (the new name would be a regular file holding the path components)
            syms = sorted(p for p, e in self.t['udf'].items() if e['type'] == 'sym')
            if syms:
                gid, parents = self._parents(op, NSBIT['udf'])
                if 'udf' in parents:
                    nm = self._new_names(dict(op, k='bad'), False)
                    return Call('add_hard_link', {'udf_old_path': syms[op.get('j', 0) % len(syms)], 'udf_new_path': join(parents['udf'], nm['udf'])},
                                lambda: None, note=('must-refuse', 'old-path-is-a-udf-symlink'))
        b, ons, opath = self._blob_name(op)
        tns = [ns for ns in self.enabled()][op.get('to', 0) % len(self.enabled())]
        if op.get('within'):
            # source and target in one namespace chosen outright (1 iso, 2 joliet, 3 udf): the names of one File Entry / inode
            want = {1: 'iso', 2: 'jol', 3: 'udf'}.get(op['within'])
            have = sorted(p_ for n_, p_ in b.names if n_ == want)
            if want in self.enabled() and have:
                ons, opath, tns = want, have[0], want
        if op.get('dupnew') and any(e['type'] == 'file' and e.get('blob') != b.id for e in self.t[tns].values()):
            # the new name exists already (another file of that namespace): the call must be refused, and leave nothing behind
            taken = sorted(p_ for p_, e in self.t[tns].items() if e['type'] == 'file' and e.get('blob') != b.id)
            newp = taken[op['dupnew'] % len(taken)]
            kw_ = {{'iso': 'iso_old_path', 'jol': 'joliet_old_path', 'udf': 'udf_old_path'}[ons]: opath,
                   {'iso': 'iso_new_path', 'jol': 'joliet_new_path', 'udf': 'udf_new_path'}[tns]: newp}
            if tns == 'iso' and self.rr:
                kw_['rr_name'] = 'dup%d' % op['n']
            return Call('add_hard_link', kw_, lambda: None, note=('must-refuse', 'new-name-exists'))
        gid, parents = self._parents(op, NSBIT[tns])
        if tns not in parents:
            raise Skip('target dir missing in namespace')
        if tns == 'iso' and not self.iso_file_ok_depth(parents['iso']):
            raise Skip('too deep')
        if b.length > 0xfffff800:
            raise Skip('link to multi-extent file')
        nm = self._new_names(op, False, {tns: parents[tns]})
        if op.get('reuse') and tns == ons and opath.rsplit('/', 1)[0] != parents[tns].rstrip('/'):
            # the typical hard link: same name in another directory
            base = opath.rsplit('/', 1)[1]
            if join(parents[tns], base) not in self.t[tns]:
                nm = dict(nm)
                nm[tns] = base
                if tns == 'iso' and self.rr:
                    nm['rr'] = self.t['iso'][opath].get('rr') or nm['rr']
                self.classes.add('link-same-name-other-dir')
        newpath = join(parents[tns], nm[tns])
        kw = {{'iso': 'iso_old_path', 'jol': 'joliet_old_path', 'udf': 'udf_old_path'}[ons]: opath,
              {'iso': 'iso_new_path', 'jol': 'joliet_new_path', 'udf': 'udf_new_path'}[tns]: newpath}
        if tns == 'iso' and self.rr:
            kw['rr_name'] = nm['rr']
        src_mode = self.t[ons][opath].get('mode') if ons == 'iso' else None

        def effect():
            e = {'type': 'file', 'blob': b.id, 'hidden': False}
            if tns == 'iso':
                e['rr'] = nm['rr'] if self.rr else None
                # a link carries the old record's mode when linked from ISO9660; otherwise that of a file added without a mode
                e['mode'] = (src_mode if ons == 'iso' else 0o100444) if self.rr else None
            self.t[tns][newpath] = e
            b.names.add((tns, newpath))
            self.classes.add('hard-link')
            if tns != ons:
                self.classes.add('cross-namespace-link')
            if len(b.names) >= 3 and len({n for n, _ in b.names}) >= 2:
                self.classes.add('blob-3-names-2-ns')
        return Call('add_hard_link', kw, effect, blob=b)

    def op_rm_link(self, op):
        # (`bo`: only names of content that a boot catalogue entry refers to)
        b, ns, path = self._blob_name(op, (lambda b: b.boot_refs > 0) if op.get('bo') else None)
        if b.boot_refs > 0 and 'hidden-bootfile' in self.avoid:
            raise Skip('avoid:hidden-bootfile')
        kw = {{'iso': 'iso_path', 'jol': 'joliet_path', 'udf': 'udf_path'}[ns]: path}
        if b.boot_refs > 0 and len(b.names) == 1 and any(
                e['blob'] == b.id and e.get('media') != 'floppy' and e['load'] * 512 < ((b.length + 2047) // 2048) * 2048 for e in (self.boot or {}).get('entries', [])):
            # a boot file without any name survives in the image only as `load size` virtual sectors: how long it
            # "is" after a reopen is not defined by the format, so this corner is left out (counted)
            raise Skip('boot file with a short load size would lose its last name')

        def effect():
            last = len(b.names) == 1
            self.remove_name(ns, path)
            self.classes.add('removal')
            self.classes.add('rm_hard_link')
            if last:
                self.classes.add('last-name-removed' if b.boot_refs == 0 else 'hidden-boot-file')
        return Call('rm_hard_link', kw, effect, blob=b)

    TARGETS = ['foo', '/abs/path', '..', '.', '../up/../x', 'a/b/c/d/e/f/g/h/i/j', '/', 'dir/', './x',
               'x' * 248, 'y' * 255, 'z' * 260, 'w' * 600, '/'.join('c%d' % i for i in range(40)), 'a//b', '../../..', 'é/ü']

    def target(self, spec):
        t = self.TARGETS[spec % len(self.TARGETS)]
        return t

    TARGETS_U = ['文档/说明.txt', '../目录', 'a/é/中', '/корень/файл', 'x/' + '日' * 100, '😀/a', 'plain/文', 'Ω']
    TX_TAILS = ['.', '..', 'x', '..x', '.x', '...']
    TX_HEADS = ['', '', 'a/', '/', '../', '.hidden/', 'p' * 100 + '/']

    def target_of(self, op):
        """'tx' = [n, tail, head, mid]: one long component of n filler bytes whose pieces (the writer has to split it between
        SL entries) may end up being '.' or '..', optionally with dots in the middle and other components around it."""
        tu = op.get('tu')
        if tu:
            # components outside Latin-1 (UDF records them as 16-bit identifiers, Rock Ridge as UTF-8 bytes)
            return self.TARGETS_U[tu % len(self.TARGETS_U)]
        tc = op.get('tc')
        if tc:
            # 'tc' = [component length, count, head]: a target of many short components
            clen, cnt, head = (list(tc) + [1, 1, 0])[:3]
            comps = [('abcdefghij'[(i % 7):(i % 7) + max(1, clen)] or 'a') for i in range(max(1, cnt))]
            return self.TX_HEADS[head % len(self.TX_HEADS)] + '/'.join(comps)
        td = op.get('td')
        if td:
            # 'td' = [n, k]: a filler component of n bytes, then a component that begins with dots and goes on ('.profile', '..data'):
            # somewhere along n the first dot(s) of it are all that still fits the record / the SL entry
            n, k = (list(td) + [0, 0])[:2]
            return 'd' * max(1, n) + '/' + ['.profile', '..data', '.x', '..', '.a/.b/.c'][k % 5]
        tx = op.get('tx')
        if not tx:
            return self.target(op.get('tgt', 0))
        n, tail, head, mid = (list(tx) + [0, 0, 0, 0])[:4]
        body = 'q' * n
        if mid % 3 == 1:
            body = body[:n // 2] + '..' + body[n // 2:]
        elif mid % 3 == 2:
            body = '..' + body
        return self.TX_HEADS[head % len(self.TX_HEADS)] + body + self.TX_TAILS[tail % len(self.TX_TAILS)] + ('/z' if mid % 2 else '')

    def op_add_sym(self, op):
        form = op.get('form', 0)
        has_udf = self.has['udf']
        rr = bool(self.rr)
        if form == 0 and not rr:
            form = 2
        if form == 1 and not (rr and has_udf):
            form = 0 if rr else 2
        if form in (2, 3) and not has_udf:
            if rr:
                form = 0
            else:
                raise Skip('no RR and no UDF')
        if form == 3 and rr:
            form = 1
        want = 0
        if form in (0, 1, 3):
            want |= 1
        if form in (1, 2, 3):
            want |= 4
        if op.get('jol'):
            if form in (2, 3) and 'udf-symlink-joliet-dup' in self.avoid and self.has['jol']:
                self.avoided('udf-symlink-joliet-dup')
            else:
                want |= 2
        gid, parents = self._parents(op, want)
        if (want & 1) and ('iso' not in parents or not self.iso_file_ok_depth(parents['iso'])):
            raise Skip('iso parent missing')
        if (want & 4) and 'udf' not in parents:
            raise Skip('udf parent missing')
        nm = self._new_names(op, False, parents)
        tgt = self.target_of(op)
        kw = {}
        paths = {}
        if want & 1:
            paths['iso'] = join(parents['iso'], nm['iso'])
            kw['symlink_path'] = paths['iso']
        if form in (0, 1):
            kw['rr_symlink_name'] = nm['rr']
            kw['rr_path'] = tgt
        if want & 4:
            utgt = tgt
            if form in (1, 2, 3):
                # ECMA-167 path components cannot express empty interior/trailing components
                # ECMA-167 path components cannot express empty interior/trailing components: targets are compared modulo
                # doubled and trailing slashes (udf_norm); components of more than 254 bytes cannot be represented at all
                utgt = self.TARGETS[op.get('tgt', 0) % 8] if len(max(tgt.split('/'), key=lambda c: len(c.encode('utf-8')))) > 254 or any(len(c) > 127 and any(ord(ch) > 255 for ch in c) for c in tgt.split('/')) else tgt
            paths['udf'] = join(parents['udf'], nm['udf'])
            kw['udf_symlink_path'] = paths['udf']
            kw['udf_target'] = utgt
        if (want & 2) and 'jol' in parents:
            paths['jol'] = join(parents['jol'], nm['jol'])
            kw['joliet_path'] = paths['jol']

        def effect():
            if 'iso' in paths:
                if form in (0, 1):
                    self.t['iso'][paths['iso']] = {'type': 'sym', 'target': tgt, 'rr': nm['rr'], 'mode': None, 'hidden': False}
                else:
                    self.t['iso'][paths['iso']] = {'type': 'null', 'rr': None, 'mode': None, 'hidden': False}
            if 'udf' in paths:
                self.t['udf'][paths['udf']] = {'type': 'sym', 'target': kw['udf_target'], 'hidden': False}
            if 'jol' in paths:
                self.t['jol'][paths['jol']] = {'type': 'null', 'hidden': False}
            self.classes.add('symlink')
            if len(tgt) > 200:
                self.classes.add('long-symlink-target')
        return Call('add_symlink', kw, effect)

    def op_rm_sym(self, op):
        cands = []
        for ns in NS:
            for p, e in self.t[ns].items():
                if e['type'] in ('sym', 'null'):
                    cands.append((ns, p))
        cands.sort()
        if not cands:
            raise Skip('no symlink')
        ns, p = cands[op.get('i', 0) % len(cands)]
        e = self.t[ns][p]
        if ns == 'udf':
            # documented in add_symlink: rm_hard_link() removes the UDF record
            kw = {'udf_path': p}
            meth = 'rm_hard_link'
        else:
            kw = {{'iso': 'iso_path', 'jol': 'joliet_path'}[ns]: p}
            meth = 'rm_file'

        def effect():
            self.t[ns].pop(p)
            self.classes.add('removal')
            self.classes.add('rm-symlink')
        c = Call(meth, kw, effect)
        c.note = ('rm_sym', ns, p)
        return c

    def op_hide(self, op):
        cands = []
        for ns in ('iso', 'jol'):
            for p, e in self.t[ns].items():
                if p != '/':
                    cands.append((ns, p))
        cands.sort()
        if not cands:
            raise Skip('nothing to hide')
        ns, p = cands[op.get('i', 0) % len(cands)]
        on = bool(op.get('on', 1))
        if ns == 'jol':
            kw = {'joliet_path': p}
        elif self.rr and op.get('via', 0) == 1 and self.t['iso'][p].get('rr'):
            kw = {'rr_path': self.rr_path(p)}
        else:
            kw = {'iso_path': p}

        def effect():
            self.t[ns][p]['hidden'] = on
            self.classes.add('hidden-flag')
        return Call('set_hidden' if on else 'clear_hidden', kw, effect)

    # -- El Torito ----------------------------------------------------------
    MEDIA = ['noemul', 'noemul', 'noemul', 'floppy', 'hdemul']

    def op_add_boot(self, op):
        def ok(b):
            return any(ns == 'iso' for ns, _ in b.names) and b.length > 0 and b.length <= 0xfffff800
        media = self.MEDIA[op.get('media', 0) % len(self.MEDIA)]
        if media == 'floppy':
            pred = lambda b: ok(b) and b.length in (1228800, 1474560, 2949120)
        elif media == 'hdemul':
            pred = lambda b: ok(b) and b.ckind == 2 and b.length >= 512
        else:
            pred = ok
        bl = self.file_blobs(pred)
        if not bl:
            raise Skip('no suitable boot file')
        b = bl[op.get('b', 0) % len(bl)]
        isonames = sorted(p for ns, p in b.names if ns == 'iso')
        bootpath = isonames[op.get('j', 0) % len(isonames)]
        if self.boot is not None and len(self.boot['entries']) >= 32:
            raise Skip('sections full')
        if 'dup-pvd-eltorito' in self.avoid and self.pvds > 1:
            raise Skip('avoid:dup-pvd-eltorito')

        kw = {'bootfile_path': bootpath}
        first = self.boot is None
        platform = [0, 0, 0, 1, 2, 0xef][op.get('plat', 0) % 6]
        load = op.get('load')
        bit = bool(op.get('bit')) and b.length >= 64 and b.bit is not True
        efi = bool(op.get('efi'))
        bootable = bool(op.get('bootable', 1))
        seg = op.get('seg', 0)
        kw.update(platform_id=platform, media_name=media, bootable=bootable, boot_load_seg=seg, efi=efi,
                  boot_info_table=bit)
        if load is not None:
            kw['boot_load_size'] = load
        catpaths = {}
        nm = self._new_names(dict(op, sz=op.get('csz', 0)), False)
        if first:
            gid, parents = self._parents(op, 7)
            # catalog names: default names in the root unless explicit
            if op.get('catexplicit') and 'iso' in parents and self.iso_file_ok_depth(parents['iso']):
                catpaths['iso'] = join(parents['iso'], nm['iso'])
                kw['bootcatfile'] = catpaths['iso']
                if self.rr:
                    kw['rr_bootcatname'] = nm['rr']
                if self.has['jol'] and 'jol' in parents:
                    catpaths['jol'] = join(parents['jol'], nm['jol'])
                    kw['joliet_bootcatfile'] = catpaths['jol']
                elif self.has['jol']:
                    catpaths['jol'] = '/boot.cat'
                if self.has['udf'] and 'udf' in parents:
                    catpaths['udf'] = join(parents['udf'], nm['udf'])
                    kw['udf_bootcatfile'] = catpaths['udf']
                elif self.has['udf']:
                    catpaths['udf'] = '/boot.cat'
                catrr = nm['rr']
            else:
                catpaths['iso'] = '/BOOT.CAT;1'
                if self.has['jol']:
                    catpaths['jol'] = '/boot.cat'
                if self.has['udf']:
                    catpaths['udf'] = '/boot.cat'
                catrr = 'boot.cat'
            for ns, p in catpaths.items():
                if p in self.t[ns]:
                    raise Skip('catalog name exists')
        if media == 'floppy':
            # the library derives the floppy type from the sector count: only the image size works
            load = None
            kw.pop('boot_load_size', None)
        if load is not None and load * 512 > ((b.length + 2047) // 2048) * 2048:
            # a load size reaching beyond the boot file's own sectors is outside the sensible domain
            # (for an unlinked boot file the library can only recover the size from this count)
            load = None
            kw.pop('boot_load_size', None)
        sector_count = load if load is not None else ((b.length + 2047) // 2048) * 4
        if sector_count > 0xffff:
            raise Skip('sector count does not fit 16 bits')
        if media in ('floppy', 'hdemul'):
            sector_count = 1     # documented in eltorito.py: "the sector_count always ends up being 1"

        def effect():
            if first:
                cat = Blob(-1, 2048)
                cat.catalog = True
                self.blobs[-1] = cat
                for ns, p in catpaths.items():
                    e = {'type': 'file', 'blob': -1, 'hidden': False}
                    if ns == 'iso':
                        e['rr'] = catrr if self.rr else None
                        e['mode'] = None
                    self.t[ns][p] = e
                    cat.names.add((ns, p))
                self.boot = {'platform': platform, 'entries': []}
            eff = platform if first else (0xef if efi else 0)
            self.boot['entries'].append({'blob': b.id, 'media': media, 'platform': platform, 'eff_platform': eff, 'load': sector_count,
                                         'seg': seg, 'bootable': bootable, 'efi': efi, 'bit': bit})
            b.boot_refs += 1
            if bit:
                b.bit = True
            self.classes.add('eltorito')
            if len(self.boot['entries']) > 1:
                self.classes.add('eltorito-sections')
        return Call('add_eltorito', kw, effect, blob=b)

    def op_rm_boot(self, op):
        if self.boot is None:
            raise Skip('no boot')
        if self.hybrid is not None:
            # the hybrid boot sector describes the El Torito boot files: it has to go first (rm_isohybrid), the call must be refused
            self.classes.add('rm_eltorito-on-hybrid')
            return Call('rm_eltorito', {}, lambda: None, note=('must-refuse', 'isohybrid-present'))
        if 'hidden-bootfile' in self.avoid and any(not self.blobs[e['blob']].names for e in self.boot['entries'] if e['blob'] in self.blobs):
            raise Skip('avoid:hidden-bootfile')

        def effect():
            cat = self.blobs.get(-1)
            for ns, p in sorted(cat.names):
                self.t[ns].pop(p, None)
            cat.names.clear()
            cat.catalog = False
            self.blobs.pop(-1, None)
            for ent in self.boot['entries']:
                bb = self.blobs.get(ent['blob'])
                if bb is not None:
                    bb.boot_refs -= 1
                    if bb.bit:
                        # Interpretation: whether the boot-info-table patch survives rm_eltorito is not
                        # asserted; bytes 8..63 stay unpredictable but are no longer a live table
                        bb.bit = 'stale'
                    self.drop_blob_if_dead(bb)
            self.boot = None
            self.classes.add('rm_eltorito')
        return Call('rm_eltorito', {}, effect)

    def op_link_cat(self, op):
        if self.boot is None:
            raise Skip('no boot')
        tns = [ns for ns in self.enabled()][op.get('to', 0) % len(self.enabled())]
        gid, parents = self._parents(op, NSBIT[tns])
        if tns not in parents or (tns == 'iso' and not self.iso_file_ok_depth(parents['iso'])):
            raise Skip('no parent')
        nm = self._new_names(op, False, {tns: parents[tns]})
        if op.get('reuse') and tns == ons and opath.rsplit('/', 1)[0] != parents[tns].rstrip('/'):
            # the typical hard link: same name in another directory
            base = opath.rsplit('/', 1)[1]
            if join(parents[tns], base) not in self.t[tns]:
                nm = dict(nm)
                nm[tns] = base
                if tns == 'iso' and self.rr:
                    nm['rr'] = self.t['iso'][opath].get('rr') or nm['rr']
                self.classes.add('link-same-name-other-dir')
        newpath = join(parents[tns], nm[tns])
        kw = {'boot_catalog_old': True, {'iso': 'iso_new_path', 'jol': 'joliet_new_path', 'udf': 'udf_new_path'}[tns]: newpath}
        catnames = sorted(self.blobs[-1].names) if -1 in self.blobs else []
        if op.get('byname') and catnames:
            # the catalogue addressed like any other file: by one of the paths it has
            ons, opath = catnames[(op['byname'] - 1) % len(catnames)]
            del kw['boot_catalog_old']
            kw[{'iso': 'iso_old_path', 'jol': 'joliet_old_path', 'udf': 'udf_old_path'}[ons]] = opath
            self.classes.add('catalog-hard-link-by-path')
        if tns == 'iso' and self.rr:
            kw['rr_name'] = nm['rr']

        def effect():
            e = {'type': 'file', 'blob': -1, 'hidden': False}
            if tns == 'iso':
                e['rr'] = nm['rr'] if self.rr else None
                e['mode'] = None
            self.t[tns][newpath] = e
            self.blobs[-1].names.add((tns, newpath))
            self.classes.add('catalog-hard-link')
        return Call('add_hard_link', kw, effect)

    def op_rm_catlink(self, op):
        """rm_hard_link on one of the boot catalog's names (the catalog itself stays as long as El Torito does)."""
        if self.boot is None or -1 not in self.blobs or not self.blobs[-1].names:
            raise Skip('no catalog name')
        cat = self.blobs[-1]
        nl = sorted(cat.names)
        ns, path = nl[op.get('j', 0) % len(nl)]
        kw = {{'iso': 'iso_path', 'jol': 'joliet_path', 'udf': 'udf_path'}[ns]: path}

        def effect():
            self.t[ns].pop(path, None)
            cat.names.discard((ns, path))
            self.classes.add('catalog-name-unlinked')
            if not cat.names:
                self.classes.add('catalog-without-name')
        return Call('rm_hard_link', kw, effect)

    def op_add_hybrid(self, op):
        if self.boot is None:
            raise Skip('no boot')
        first = self.boot['entries'][0]
        b = self.blobs.get(first['blob'])
        if first['load'] != 4 or b is None or b.ckind != 1 or b.length < 0x44:
            raise Skip('initial entry not hybrid-capable')
        mac = bool(op.get('mac'))
        efi = op.get('efi')
        if mac and efi is False:
            efi = None
        pe = op.get('pe', 1)
        if ((efi or mac) and pe == 2) or (mac and pe == 3):
            # the library documents that it refuses this; the call is made all the same (a refusal is counted as such,
            # an acceptance leaves an MBR that C12 will not accept) - except where the call itself is what a check counts
            if not op.get('try_collision', True):
                raise Skip('partition entry collides with the EFI/Mac entry')
            self.classes.add('hybrid-collision-tried')
        if (mac or efi) and 'hybrid-gpt' in self.avoid:
            raise Skip('avoid:hybrid-gpt')
        n_ef = sum(1 for e in self.boot['entries'] if e['eff_platform'] == 0xef)
        want_ef = 2 if mac else (1 if efi else 0)
        if n_ef < want_ef:
            raise Skip('efi/mac support needs the El Torito images (documented refusal)')
        kw = {'part_entry': op.get('pe', 1), 'mbr_id': op.get('mbr_id'), 'part_offset': op.get('po', 0),
              'geometry_sectors': op.get('gs', 32), 'geometry_heads': op.get('gh', 64), 'part_type': op.get('pt'),
              'mac': mac, 'efi': efi}

        def effect():
            self.hybrid = dict(kw)
            self.classes.add('isohybrid')
            if kw['efi'] or mac:
                self.classes.add('isohybrid-gpt')
        return Call('add_isohybrid', kw, effect)

    def op_rm_hybrid(self, op):
        def effect():
            self.hybrid = None
        return Call('rm_isohybrid', {}, effect)

    def op_dup_pvd(self, op):
        if 'dup-pvd-udf' in self.avoid and self.has['udf']:
            raise Skip('avoid:dup-pvd-udf')
        if 'dup-pvd-eltorito' in self.avoid and self.boot is not None:
            raise Skip('avoid:dup-pvd-eltorito')

        def effect():
            self.pvds += 1
            self.classes.add('duplicate-pvd')
        return Call('duplicate_pvd', {}, effect)

    def op_set_reloc(self, op):
        if not self.rr or self.reloc is not None:
            raise Skip('cannot set relocated name')
        name = names.iso_dir(op['n'], self.level, op.get('sz', 0), op.get('lead', 0), op.get('salt', 0), 150)
        rrn = names.rr_name(op['n'], op['rsz'] if 'rsz' in op else op.get('sz', 0) % 3, op.get('lead', 0), op.get('salt', 0))     # (`rsz`: also names that need a continuation area)
        if '/' + name in self.t['iso']:
            raise Skip('exists')
        if op.get('badrr'):
            # a Rock Ridge name that no other call would take (empty, or with a slash): must be refused here as well
            return Call('set_relocated_name', {'name': name, 'rr_name': ['a/b', '', '/x'][op['badrr'] % 3]}, lambda: None, note=('must-refuse', 'illegal-rr-name'))

        def effect():
            self.reloc = (name, rrn)
        return Call('set_relocated_name', {'name': name, 'rr_name': rrn}, effect)

    def op_force(self, op):
        return Call('force_consistency', {}, lambda: None)

    # ------------------------------------------------------------------ views
    def view(self):
        """Neutral structure {ns: {path: (type, length, blob-or-None, hidden, target, mode)}}.
        'iso' is the *physical* ISO9660 listing (None when relocation makes it differ from the
        logical one), 'rr' the Rock Ridge tree."""
        out = {}
        relocs = self.relocated_dirs()
        for ns in NS:
            if not self.has[ns]:
                continue
            d = {}
            for p, e in self.t[ns].items():
                if p == '/':
                    continue
                d[p] = self._view_entry(ns, e)
            if ns == 'iso':
                if self.rr:
                    rrv = {}
                    for p, e in self.t['iso'].items():
                        if p == '/':
                            continue
                        rrv[self.rr_path(p)] = self._view_entry('rr', e)
                    if relocs:
                        rrv['/' + self.rr_moved_names()[1]] = ('dir', None, None, False, None, None)
                    out['rr'] = rrv
                out['iso'] = None if relocs else d
                out['isol'] = d if relocs else None
            else:
                out[ns] = d
        return out

    def _view_entry(self, ns, e):
        t = e['type']
        mode = e.get('mode') if ns == 'rr' else None
        if t == 'dir':
            return ('dir', None, None, e.get('hidden', False), None, mode)
        if t == 'file':
            b = self.blobs[e['blob']]
            return ('file', None if b.catalog else b.length, b.id, e.get('hidden', False), None, mode)
        if t == 'sym':
            if ns in ('rr', 'udf'):
                return ('sym', None, None, e.get('hidden', False), e['target'], mode)
            return ('file', 0, None, e.get('hidden', False), None, None)   # physical ISO view of an RR symlink
        return ('file', 0, None, e.get('hidden', False), None, mode)


# ----------------------------------------------------------------------------- C14: refusal catalogue
def _k(ns):
    return {'iso': 'iso_path', 'jol': 'joliet_path', 'udf': 'udf_path'}[ns]


class BadCatalogue:
    """Every way a public mutator can be refused that the source shows (DESIGN.md appendix A), as
    constructors of a concrete refused call from the current model state.  `staged` rows are refused
    only after an earlier part of the same call (an earlier namespace, a side-effecting helper) ran."""

    def __init__(self, model):
        self.m = model

    # helpers -------------------------------------------------------------
    def fresh(self, op, isdir=False):
        m = self.m
        nm = m._new_names(op, isdir)
        out = {}
        for ns in m.enabled():
            out[ns] = join('/', nm[ns])
        return nm, out

    def existing(self, ns, types, op):
        m = self.m
        c = sorted(p for p, e in m.t[ns].items() if p != '/' and e['type'] in types)
        if not c:
            raise Skip('nothing existing in ' + ns)
        return c[op.get('i', 0) % len(c)]

    def base_add(self, op, isdir=False):
        m = self.m
        nm, paths = self.fresh(op, isdir)
        kw = {}
        for ns, p in paths.items():
            kw[_k(ns)] = p
        if m.rr:
            kw['rr_name'] = nm['rr']
        return nm, paths, kw

    def content_args(self, op):
        return {'__content__': (op['n'], op.get('len', 5))}

    # rows: name -> (method, staged, builder) ---------------------------------
    def rows(self):
        return [
            ('add_fp/dup-iso', 'add_fp', False, self.add_dup('iso', False)),
            ('add_fp/dup-joliet-after-iso', 'add_fp', True, self.add_dup('jol', False)),
            ('add_fp/dup-udf-after-iso-joliet', 'add_fp', True, self.add_dup('udf', False)),
            ('add_fp/missing-parent-iso', 'add_fp', False, self.add_missing_parent('iso', False)),
            ('add_fp/missing-parent-joliet-after-iso', 'add_fp', True, self.add_missing_parent('jol', False)),
            ('add_fp/missing-parent-udf-after-iso-joliet', 'add_fp', True, self.add_missing_parent('udf', False)),
            ('add_fp/illegal-iso-name', 'add_fp', False, self.add_illegal_iso(False)),
            ('add_fp/joliet-name-too-long-after-iso', 'add_fp', True, self.add_long_joliet(False)),
            ('add_fp/udf-name-too-long-after-iso-joliet', 'add_fp', True, self.add_long_udf(False)),
            ('add_fp/rr-name-missing', 'add_fp', False, self.add_rr_missing(False)),
            ('add_fp/rr-name-with-slash', 'add_fp', False, self.add_rr_slash(False)),
            ('add_fp/file-mode-without-rr', 'add_fp', False, self.add_mode_norr(False)),
            ('add_fp/joliet-path-on-non-joliet-after-iso', 'add_fp', True, self.add_foreign_ns('jol', False)),
            ('add_fp/udf-path-on-non-udf-after-iso', 'add_fp', True, self.add_foreign_ns('udf', False)),
            ('add_fp/parent-is-a-file', 'add_fp', False, self.add_parent_is_file),
            ('add_directory/dup-iso', 'add_directory', False, self.add_dup('iso', True)),
            ('add_directory/dup-joliet-after-iso', 'add_directory', True, self.add_dup('jol', True)),
            ('add_directory/dup-udf-after-iso-joliet', 'add_directory', True, self.add_dup('udf', True)),
            ('add_directory/missing-parent-joliet-after-iso', 'add_directory', True, self.add_missing_parent('jol', True)),
            ('add_directory/missing-parent-udf-after-iso-joliet', 'add_directory', True, self.add_missing_parent('udf', True)),
            ('add_directory/illegal-iso-name', 'add_directory', False, self.add_illegal_iso(True)),
            ('add_directory/joliet-name-too-long-after-iso', 'add_directory', True, self.add_long_joliet(True)),
            ('add_directory/udf-name-too-long-after-iso-joliet', 'add_directory', True, self.add_long_udf(True)),
            ('add_directory/too-deep', 'add_directory', False, self.add_too_deep),
            ('add_directory/joliet-path-on-non-joliet-after-iso', 'add_directory', True, self.add_foreign_ns('jol', True)),
            ('add_directory/udf-path-on-non-udf-after-iso', 'add_directory', True, self.add_foreign_ns('udf', True)),
            ('add_directory/relocated-dup-after-rr-moved', 'add_directory', True, self.add_dir_relocated_dup),
            ('rm_file/missing', 'rm_file', False, self.rm_missing('rm_file')),
            ('rm_file/is-a-directory', 'rm_file', False, self.rm_wrong_type('rm_file', ('dir',))),
            ('rm_file/boot-referenced', 'rm_file', False, self.rm_boot_referenced),
            ('rm_directory/not-empty', 'rm_directory', False, self.rmdir_nonempty),
            ('rm_directory/root', 'rm_directory', False, lambda op: ('rm_directory', {'iso_path': '/'})),
            ('rm_directory/is-a-file', 'rm_directory', False, self.rm_wrong_type('rm_directory', ('file',))),
            ('rm_directory/missing', 'rm_directory', False, self.rm_missing('rm_directory')),
            ('rm_directory/joliet-missing-after-iso', 'rm_directory', True, self.rmdir_second_stage('jol')),
            ('rm_directory/udf-missing-after-iso', 'rm_directory', True, self.rmdir_second_stage('udf')),
            ('rm_directory/joliet-not-empty-after-iso', 'rm_directory', True, self.rmdir_second_stage_nonempty('jol')),
            ('rm_directory/udf-not-empty-after-iso', 'rm_directory', True, self.rmdir_second_stage_nonempty('udf')),
            ('add_hard_link/no-old-path', 'add_hard_link', False, self.link_no_old),
            ('add_hard_link/two-old-paths', 'add_hard_link', False, self.link_two_old),
            ('add_hard_link/unknown-keyword', 'add_hard_link', False, self.link_unknown_kw),
            ('add_hard_link/missing-old', 'add_hard_link', False, self.link_missing_old),
            ('add_hard_link/dup-new', 'add_hard_link', False, self.link_dup_new),
            ('add_hard_link/new-parent-missing', 'add_hard_link', False, self.link_new_parent_missing),
            ('add_hard_link/boot-catalog-without-eltorito', 'add_hard_link', False, self.link_cat_none),
            ('rm_hard_link/two-paths', 'rm_hard_link', False, self.rmlink_two),
            ('rm_hard_link/missing', 'rm_hard_link', False, self.rm_missing('rm_hard_link')),
            ('rm_hard_link/is-a-directory', 'rm_hard_link', False, self.rm_wrong_type('rm_hard_link', ('dir',))),
            ('add_symlink/no-rr-no-udf', 'add_symlink', False, self.sym_unsupported),
            ('add_symlink/rr-name-without-target', 'add_symlink', False, self.sym_half_rr),
            ('add_symlink/dup-iso', 'add_symlink', False, self.sym_dup('iso')),
            ('add_symlink/dup-udf-after-rr', 'add_symlink', True, self.sym_dup('udf')),
            ('add_symlink/dup-joliet-after-rr', 'add_symlink', True, self.sym_dup('jol')),
            ('add_symlink/joliet-on-non-joliet', 'add_symlink', False, self.sym_foreign_joliet),
            ('add_eltorito/missing-bootfile', 'add_eltorito', False, self.boot_missing),
            ('add_eltorito/invalid-media-name', 'add_eltorito', True, self.boot_bad('media_name', 'cdrom')),
            ('add_eltorito/invalid-platform', 'add_eltorito', True, self.boot_bad('platform_id', 7)),
            ('add_eltorito/floppy-wrong-size', 'add_eltorito', True, self.boot_bad('media_name', 'floppy')),
            ('add_eltorito/hdemul-without-mbr', 'add_eltorito', True, self.boot_bad('media_name', 'hdemul')),
            ('add_eltorito/joliet-catalog-on-non-joliet', 'add_eltorito', False, self.boot_foreign('joliet_bootcatfile')),
            ('add_eltorito/udf-catalog-on-non-udf', 'add_eltorito', False, self.boot_foreign('udf_bootcatfile')),
            ('add_eltorito/dup-catalog-iso', 'add_eltorito', True, self.boot_dup_catalog('iso')),
            ('add_eltorito/dup-catalog-joliet-after-iso', 'add_eltorito', True, self.boot_dup_catalog('jol')),
            ('add_eltorito/dup-catalog-udf-after-iso-joliet', 'add_eltorito', True, self.boot_dup_catalog('udf')),
            ('add_eltorito/boot-info-table-then-refused', 'add_eltorito', True, self.boot_bit_then_refused),
            ('rm_eltorito/none-present', 'rm_eltorito', False, self.rm_boot_none),
            ('add_isohybrid/no-eltorito', 'add_isohybrid', False, self.hyb_none),
            ('add_isohybrid/bad-geometry', 'add_isohybrid', True, self.hyb_bad({'geometry_sectors': 64})),
            ('add_isohybrid/mac-part-type', 'add_isohybrid', True, self.hyb_bad({'mac': True, 'part_type': 0x17})),
            ('add_isohybrid/mac-without-efi', 'add_isohybrid', False, self.hyb_bad({'mac': True, 'efi': False})),
            ('set_relocated_name/already-set', 'set_relocated_name', False, self.reloc_twice),
            ('set_relocated_name/no-rock-ridge', 'set_relocated_name', False, self.reloc_norr),
            ('set_relocated_name/illegal-name', 'set_relocated_name', True, self.reloc_illegal),
            ('set_hidden/two-paths', 'set_hidden', False, self.hide_two),
            ('set_hidden/missing', 'set_hidden', False, lambda op: ('set_hidden', {'iso_path': '/NOSUCH.;1'})),
            ('new/already-initialized', 'new', False, lambda op: ('new', {})),
        ]

    def rows_late(self):
        """Rows selected through `wx`: refusals of calls whose new record needs a Rock Ridge continuation area
        (an allocation in a structure shared by the whole volume) - the refusal must give that back as well."""
        return [
            ('add_hard_link/dup-new+continuation', 'add_hard_link', True, self.long_rr(self.link_dup_new)),
            ('add_hard_link/new-parent-missing+continuation', 'add_hard_link', True, self.long_rr(self.link_new_parent_missing)),
            ('add_fp/dup-iso+continuation', 'add_fp', True, self.long_rr(self.add_dup('iso', False))),
            ('add_fp/dup-joliet-after-iso+continuation', 'add_fp', True, self.long_rr(self.add_dup('jol', False))),
            ('add_fp/dup-udf-after-iso-joliet+continuation', 'add_fp', True, self.long_rr(self.add_dup('udf', False))),
            ('add_fp/parent-is-a-file+continuation', 'add_fp', True, self.long_rr(self.add_parent_is_file)),
            ('add_directory/dup-iso+continuation', 'add_directory', True, self.long_rr(self.add_dup('iso', True))),
            ('add_directory/dup-joliet-after-iso+continuation', 'add_directory', True, self.long_rr(self.add_dup('jol', True))),
            ('add_directory/dup-udf-after-iso-joliet+continuation', 'add_directory', True, self.long_rr(self.add_dup('udf', True))),
            ('add_symlink/dup-iso+continuation', 'add_symlink', True, self.long_rr(self.sym_dup('iso'))),
            ('add_symlink/dup-udf-after-rr+continuation', 'add_symlink', True, self.long_rr(self.sym_dup('udf'))),
        ]

    def rows_more(self):
        """Rows selected through `wy` (added after the fourth sensitivity round; a selector of their own so that older
        replay files keep their meaning): a taken Rock Ridge name under a fresh ISO9660 name, paths given as empty
        strings, the Joliet-only directory calls, clear_hidden, a second open, an unrepresentable UDF symlink target."""
        rows = [
            ('add_fp/dup-rr-name', 'add_fp', True, self.add_dup_rr('add_fp')),
            ('add_directory/dup-rr-name', 'add_directory', True, self.add_dup_rr('add_directory')),
            ('add_symlink/dup-rr-name', 'add_symlink', True, self.add_dup_rr('add_symlink')),
            ('add_hard_link/dup-rr-name', 'add_hard_link', True, self.add_dup_rr('add_hard_link')),
            ('add_eltorito/dup-rr-catalog-name', 'add_eltorito', True, self.add_dup_rr('add_eltorito')),
            ('add_symlink/udf-target-component-too-long-after-rr', 'add_symlink', True, self.sym_long_udf_target),
            ('add_joliet_directory/dup', 'add_joliet_directory', False, self.joldir('dup')),
            ('add_joliet_directory/missing-parent', 'add_joliet_directory', False, self.joldir('missing-parent')),
            ('add_joliet_directory/non-joliet', 'add_joliet_directory', False, self.joldir('non-joliet')),
            ('rm_joliet_directory/missing', 'rm_joliet_directory', False, self.joldir('rm-missing')),
            ('rm_joliet_directory/not-empty', 'rm_joliet_directory', False, self.joldir('rm-not-empty')),
            ('rm_joliet_directory/is-a-file', 'rm_joliet_directory', False, self.joldir('rm-file')),
            ('clear_hidden/missing', 'clear_hidden', False, lambda op: ('clear_hidden', {'iso_path': '/NOSUCH.;1'})),
            ('clear_hidden/two-paths', 'clear_hidden', False, lambda op: ('clear_hidden', self.hide_two(op)[1])),
            ('open_fp/already-initialized', 'open_fp', False, lambda op: ('open_fp', {'fp': io.BytesIO(b'\0' * 40960)})),
            ('rm_hard_link/no-path', 'rm_hard_link', False, lambda op: ('rm_hard_link', {})),
            ('add_fp/no-path', 'add_fp', False, lambda op: ('add_fp', dict(self.content_args(op)))),
            ('add_directory/no-path', 'add_directory', False, lambda op: ('add_directory', {})),
        ]
        for meth in ('add_fp', 'add_directory', 'add_symlink', 'add_eltorito'):
            for ns in ('iso', 'jol', 'udf'):
                rows.append(('%s/empty-%s-path' % (meth, ns), meth, ns != 'iso', self.empty_path(meth, ns)))
        # scalar arguments outside the range of the on-disc field that holds them (appended later: the selector is taken modulo the
        # number of rows, so only new draws reach them)
        rows += [
            ('add_eltorito/load-segment-out-of-range', 'add_eltorito', True, self.boot_bad('boot_load_seg', 70000)),
            ('add_eltorito/load-size-out-of-range', 'add_eltorito', True, self.boot_bad('boot_load_size', 70000)),
            ('add_hard_link/old-path-is-a-directory', 'add_hard_link', False, self.link_old_is_dir),
            ('add_fp/negative-length', 'add_fp', False, self.add_negative_length),
            ('add_isohybrid/partition-entry-0', 'add_isohybrid', True, self.hyb_bad({'part_entry': 0})),
            ('add_isohybrid/partition-entry-5', 'add_isohybrid', True, self.hyb_bad({'part_entry': 5})),
            ('add_hard_link/dup-new-udf', 'add_hard_link', True, self.link_dup_new_in('udf')),
            ('add_hard_link/dup-new-joliet', 'add_hard_link', True, self.link_dup_new_in('jol')),
            ('add_hard_link/dup-new-udf', 'add_hard_link', True, self.link_dup_new_in('udf')),
            ('add_directory/relocation-name-taken', 'add_directory', True, self.add_dir_reloc_name_taken),
            ('add_hard_link/old-path-is-a-symlink', 'add_hard_link', False, self.link_old_is_symlink),
            ('add_fp/rr-name-longer-than-a-block', 'add_fp', False, self.rr_too_long('add_fp')),
            ('add_directory/rr-name-longer-than-a-block', 'add_directory', False, self.rr_too_long('add_directory')),
            ('add_symlink/rr-target-longer-than-a-block', 'add_symlink', True, self.rr_too_long('add_symlink')),
        ]
        return rows

    def add_dir_reloc_name_taken(self, op):
        m = self.m
        if not (m.rr and m.level < 4) or m.relocated_dirs() or not m.reloc_name_taken():
            raise Skip('needs a taken relocation directory name and no relocation directory')
        c = sorted(p for p, e in m.t['iso'].items() if e['type'] == 'dir' and depth(p) == 7)
        if not c:
            raise Skip('no directory at depth 7')
        nm = m._new_names(op, True)
        return 'add_directory', {'iso_path': join(c[op.get('i', 0) % len(c)], nm['iso']), 'rr_name': nm['rr']}

    def link_old_is_dir(self, op):
        d = self.existing('iso', ('dir',), op)
        nm, paths = self.fresh(op)
        kw = {'iso_old_path': d, 'iso_new_path': paths['iso']}
        if self.m.rr:
            kw['rr_name'] = nm['rr']
        return 'add_hard_link', kw

    def rr_too_long(self, meth):
        def b(op):
            m = self.m
            if not m.rr:
                raise Skip('needs Rock Ridge')
            long_ = ('n%d' % op['n']) + 'x' * (2400 + 97 * (op.get('i', 0) % 5))
            if meth == 'add_symlink':
                nm, paths = self.fresh(op)
                kw = {'symlink_path': paths['iso'], 'rr_symlink_name': nm['rr'], 'rr_path': '/'.join(['dir%d' % op['n']] * (450 + op.get('i', 0) % 200))}
                if m.has['jol']:
                    kw['joliet_path'] = paths['jol']
                if m.has['udf']:
                    kw['udf_symlink_path'] = paths['udf']
                    kw['udf_target'] = 'short'
                return 'add_symlink', kw
            nm, paths, kw = self.base_add(op, meth == 'add_directory')
            kw['rr_name'] = long_
            if meth == 'add_fp':
                kw.update(self.content_args(op))
            if meth == 'add_directory' and m.level < 4 and not m.relocated_dirs():
                # below a directory at depth 7 if there is one: the refusal then comes on the relocation path
                c7 = sorted(p_ for p_, e in m.t['iso'].items() if e['type'] == 'dir' and depth(p_) == 7)
                if c7 and not m.reloc_name_taken():
                    kw = {'iso_path': join(c7[op.get('i', 0) % len(c7)], nm['iso']), 'rr_name': long_}
            return meth, kw
        return b

    def link_old_is_symlink(self, op):
        if not self.m.rr:
            raise Skip('needs Rock Ridge')
        d = self.existing('iso', ('sym',), op)
        nm, paths = self.fresh(op)
        return 'add_hard_link', {'iso_old_path': d, 'iso_new_path': paths['iso'], 'rr_name': nm['rr']}

    def add_negative_length(self, op):
        nm, paths, kw = self.base_add(op, False)
        kw['__content__'] = (op['n'], -1 - op.get('i', 0) % 3)
        return 'add_fp', kw

    def _root_rr_entry(self, op):
        m = self.m
        if not m.rr:
            raise Skip('needs Rock Ridge')
        c = sorted(p for p, e in m.t['iso'].items() if p != '/' and parent_of(p) == '/' and e.get('rr'))
        if not c:
            raise Skip('no Rock Ridge entry in the root')
        return m.t['iso'][c[op.get('i', 0) % len(c)]]['rr']

    def add_dup_rr(self, meth):
        def b(op):
            m = self.m
            taken = self._root_rr_entry(op)
            nm, paths = self.fresh(op, meth == 'add_directory')
            if meth in ('add_fp', 'add_directory'):
                kw = {_k(ns): p for ns, p in paths.items()}
                kw['rr_name'] = taken
                if meth == 'add_fp':
                    kw.update(self.content_args(op))
            elif meth == 'add_symlink':
                kw = {'symlink_path': paths['iso'], 'rr_symlink_name': taken, 'rr_path': 'target'}
                if m.has['jol']:
                    kw['joliet_path'] = paths['jol']
                if m.has['udf']:
                    kw.update(udf_symlink_path=paths['udf'], udf_target='target')
            elif meth == 'add_hard_link':
                kw = {'iso_old_path': self.existing('iso', ('file',), op), 'iso_new_path': paths['iso'], 'rr_name': taken}
            else:
                if m.boot is not None:
                    raise Skip('catalog exists')
                kw = {'bootfile_path': self._bootfile(op), 'bootcatfile': paths['iso'], 'rr_bootcatname': taken}
                if m.has['jol']:
                    kw['joliet_bootcatfile'] = paths['jol']
                if m.has['udf']:
                    kw['udf_bootcatfile'] = paths['udf']
            return meth, kw
        return b

    def sym_long_udf_target(self, op):
        m = self.m
        if not m.has['udf']:
            raise Skip('no udf')
        nm, paths = self.fresh(op)
        kw = {'udf_symlink_path': paths['udf'], 'udf_target': 'ok/' + 'x' * (255 + op.get('i', 0) % 50)}
        if m.rr:
            kw.update(symlink_path=paths['iso'], rr_symlink_name=nm['rr'], rr_path='target')
        else:
            kw.update(symlink_path=paths['iso'])
        return 'add_symlink', kw

    def joldir(self, what):
        def b(op):
            m = self.m
            if what == 'non-joliet':
                if m.has['jol']:
                    raise Skip('joliet image')
                return 'add_joliet_directory', {'joliet_path': '/foreign%d' % op['n']}
            if not m.has['jol']:
                raise Skip('no joliet')
            if what == 'dup':
                return 'add_joliet_directory', {'joliet_path': self.existing('jol', ('dir', 'file'), op)}
            if what == 'missing-parent':
                return 'add_joliet_directory', {'joliet_path': '/NOSUCHDIR/x%d' % op['n']}
            if what == 'rm-missing':
                return 'rm_joliet_directory', {'joliet_path': '/NOSUCH%d' % op['n']}
            if what == 'rm-file':
                return 'rm_joliet_directory', {'joliet_path': self.existing('jol', ('file',), op)}
            c = sorted(p for p, e in m.t['jol'].items() if p != '/' and e['type'] == 'dir' and not m.is_empty('jol', p))
            if not c:
                raise Skip('no non-empty joliet dir')
            return 'rm_joliet_directory', {'joliet_path': c[op.get('i', 0) % len(c)]}
        return b

    def empty_path(self, meth, ns):
        def b(op):
            m = self.m
            isdir = meth == 'add_directory'
            nm, paths = self.fresh(op, isdir)
            if meth in ('add_fp', 'add_directory'):
                kw = {_k(n2): p for n2, p in paths.items()}
                if m.rr:
                    kw['rr_name'] = nm['rr']
                kw[_k(ns)] = ''
                if meth == 'add_fp':
                    kw.update(self.content_args(op))
            elif meth == 'add_symlink':
                if not (m.rr or m.has['udf']):
                    raise Skip('no symlinks')
                kw = {'symlink_path': paths['iso']}
                if m.rr:
                    kw.update(rr_symlink_name=nm['rr'], rr_path='target')
                    if m.has['jol']:
                        kw['joliet_path'] = paths['jol']
                if m.has['udf']:
                    kw.update(udf_symlink_path=paths['udf'], udf_target='target')
                kw[{'iso': 'symlink_path', 'jol': 'joliet_path', 'udf': 'udf_symlink_path'}[ns]] = ''
                if ns == 'udf':
                    kw['udf_target'] = 'target'
            else:
                if m.boot is not None:
                    raise Skip('catalog exists')
                kw = {'bootfile_path': self._bootfile(op), 'bootcatfile': paths['iso']}
                if m.rr:
                    kw['rr_bootcatname'] = nm['rr']
                if m.has['jol']:
                    kw['joliet_bootcatfile'] = paths['jol']
                if m.has['udf']:
                    kw['udf_bootcatfile'] = paths['udf']
                kw[{'iso': 'bootcatfile', 'jol': 'joliet_bootcatfile', 'udf': 'udf_bootcatfile'}[ns]] = ''
            return meth, kw
        return b

    def long_rr(self, builder):
        def b(op):
            if not self.m.rr:
                raise Skip('needs Rock Ridge')
            meth, kw = builder(op)
            long_name = names.rr_name(op['n'], 4 + op.get('salt', 0) % 4, op.get('lead', 0), op.get('salt', 0))     # 180..251 characters
            if 'rr_name' in kw:
                kw['rr_name'] = long_name
            elif 'rr_symlink_name' in kw:
                kw['rr_symlink_name'] = long_name
            else:
                raise Skip('call carries no Rock Ridge name')
            return meth, kw
        return b

    # builders --------------------------------------------------------------
    def add_dup(self, ns, isdir):
        def b(op):
            m = self.m
            if not m.has[ns]:
                raise Skip('namespace off')
            nm, paths, kw = self.base_add(op, isdir)
            kw[_k(ns)] = self.existing(ns, ('dir',) if isdir else ('file', 'sym', 'null'), op)
            if ns == 'iso' and m.rr:
                kw['rr_name'] = nm['rr']
            meth = 'add_directory' if isdir else 'add_fp'
            if not isdir:
                kw.update(self.content_args(op))
            return meth, kw
        return b

    def add_missing_parent(self, ns, isdir):
        def b(op):
            m = self.m
            if not m.has[ns]:
                raise Skip('namespace off')
            nm, paths, kw = self.base_add(op, isdir)
            kw[_k(ns)] = '/NOSUCHDIR' + paths[ns]
            if not isdir:
                kw.update(self.content_args(op))
            return ('add_directory' if isdir else 'add_fp'), kw
        return b

    def add_illegal_iso(self, isdir):
        def b(op):
            if self.m.level == 4:
                raise Skip('level 4 takes any character')
            nm, paths, kw = self.base_add(op, isdir)
            kw['iso_path'] = '/lower' + ('' if isdir else '.x;1')
            if not isdir:
                kw.update(self.content_args(op))
            return ('add_directory' if isdir else 'add_fp'), kw
        return b

    def add_long_joliet(self, isdir):
        def b(op):
            if not self.m.has['jol']:
                raise Skip('no joliet')
            nm, paths, kw = self.base_add(op, isdir)
            kw['joliet_path'] = '/' + 'j' * 65
            if not isdir:
                kw.update(self.content_args(op))
            return ('add_directory' if isdir else 'add_fp'), kw
        return b

    def add_long_udf(self, isdir):
        def b(op):
            if not self.m.has['udf']:
                raise Skip('no udf')
            nm, paths, kw = self.base_add(op, isdir)
            kw['udf_path'] = '/' + 'u' * 255
            if not isdir:
                kw.update(self.content_args(op))
            return ('add_directory' if isdir else 'add_fp'), kw
        return b

    def add_rr_missing(self, isdir):
        def b(op):
            if not self.m.rr:
                raise Skip('no rr')
            nm, paths, kw = self.base_add(op, isdir)
            kw.pop('rr_name', None)
            if not isdir:
                kw.update(self.content_args(op))
            return ('add_directory' if isdir else 'add_fp'), kw
        return b

    def add_rr_slash(self, isdir):
        def b(op):
            if not self.m.rr:
                raise Skip('no rr')
            nm, paths, kw = self.base_add(op, isdir)
            kw['rr_name'] = 'a/b'
            if not isdir:
                kw.update(self.content_args(op))
            return ('add_directory' if isdir else 'add_fp'), kw
        return b

    def add_mode_norr(self, isdir):
        def b(op):
            if self.m.rr:
                raise Skip('rr image')
            nm, paths, kw = self.base_add(op, isdir)
            kw['file_mode'] = 0o100444
            if not isdir:
                kw.update(self.content_args(op))
            return ('add_directory' if isdir else 'add_fp'), kw
        return b

    def add_foreign_ns(self, ns, isdir):
        def b(op):
            if self.m.has[ns]:
                raise Skip('namespace present')
            nm, paths, kw = self.base_add(op, isdir)
            kw[_k(ns)] = '/foreign%d' % op['n']
            if not isdir:
                kw.update(self.content_args(op))
            return ('add_directory' if isdir else 'add_fp'), kw
        return b

    def add_parent_is_file(self, op):
        f = self.existing('iso', ('file',), op)
        nm, paths, kw = self.base_add(op, False)
        kw['iso_path'] = f + '/' + nm['iso']
        kw.update(self.content_args(op))
        return 'add_fp', kw

    def add_too_deep(self, op):
        m = self.m
        if m.rr or m.level == 4:
            raise Skip('no depth limit')
        deep = sorted(p for p, e in m.t['iso'].items() if e['type'] == 'dir' and depth(p) == 7)
        if not deep:
            raise Skip('no depth-7 directory')
        nm, paths, kw = self.base_add(op, True)
        kw['iso_path'] = deep[op.get('i', 0) % len(deep)] + '/' + nm['iso']
        return 'add_directory', kw

    def add_dir_relocated_dup(self, op):
        m = self.m
        if not (m.rr and m.level < 4):
            raise Skip('no relocation')
        cands = sorted(p for p, e in m.t['iso'].items() if e.get('reloc'))
        if not cands:
            raise Skip('nothing relocated')
        nm, paths, kw = self.base_add(op, True)
        kw['iso_path'] = cands[op.get('i', 0) % len(cands)]     # duplicate of an already relocated directory
        return 'add_directory', kw

    def rm_missing(self, meth):
        def b(op):
            ns = self.m.enabled()[op.get('i', 0) % len(self.m.enabled())]
            return meth, {_k(ns): '/NOSUCH%d' % op['n']}
        return b

    def rm_wrong_type(self, meth, types):
        def b(op):
            ns = self.m.enabled()[op.get('i', 0) % len(self.m.enabled())]
            return meth, {_k(ns): self.existing(ns, types, op)}
        return b

    def rm_boot_referenced(self, op):
        m = self.m
        if m.boot is None:
            raise Skip('no boot')
        names = sorted(n for e in m.boot['entries'] for n in (m.blobs[e['blob']].names if e['blob'] in m.blobs else ()))
        names += sorted(m.blobs[-1].names) if -1 in m.blobs else []
        if not names:
            raise Skip('no names')
        ns, p = names[op.get('i', 0) % len(names)]
        return 'rm_file', {_k(ns): p}

    def rmdir_nonempty(self, op):
        m = self.m
        c = sorted((ns, p) for ns in m.enabled() for p, e in m.t[ns].items() if p != '/' and e['type'] == 'dir' and not m.is_empty(ns, p))
        if not c:
            raise Skip('no non-empty dir')
        ns, p = c[op.get('i', 0) % len(c)]
        return 'rm_directory', {_k(ns): p}

    def _empty_iso_dir(self, op):
        m = self.m
        c = sorted(g for g, w in m.gids.items() if g != 0 and 'iso' in w and all(m.is_empty(ns, p) for ns, p in w.items()) and not m.t['iso'][w['iso']].get('reloc'))
        if not c:
            raise Skip('no empty iso dir')
        return m.gids[c[op.get('i', 0) % len(c)]]

    def rmdir_second_stage(self, ns):
        def b(op):
            if not self.m.has[ns]:
                raise Skip('namespace off')
            w = self._empty_iso_dir(op)
            return 'rm_directory', {'iso_path': w['iso'], _k(ns): '/NOSUCH%d' % op['n']}
        return b

    def rmdir_second_stage_nonempty(self, ns):
        def b(op):
            m = self.m
            if not m.has[ns]:
                raise Skip('namespace off')
            w = self._empty_iso_dir(op)
            c = sorted(p for p, e in m.t[ns].items() if p != '/' and e['type'] == 'dir' and not m.is_empty(ns, p))
            if not c:
                raise Skip('no non-empty dir in ' + ns)
            return 'rm_directory', {'iso_path': w['iso'], _k(ns): c[op.get('i', 0) % len(c)]}
        return b

    def link_no_old(self, op):
        nm, paths = self.fresh(op)
        return 'add_hard_link', {'iso_new_path': paths['iso'], 'rr_name': nm['rr']} if self.m.rr else {'iso_new_path': paths['iso']}

    def link_two_old(self, op):
        f = self.existing('iso', ('file',), op)
        nm, paths = self.fresh(op)
        kw = {'iso_old_path': f, 'iso_new_path': paths['iso']}
        if self.m.has['jol']:
            kw['joliet_old_path'] = self.existing('jol', ('file',), op)
        else:
            kw['boot_catalog_old'] = True
            if self.m.boot is None:
                raise Skip('needs joliet or boot')
        if self.m.rr:
            kw['rr_name'] = nm['rr']
        return 'add_hard_link', kw

    def link_unknown_kw(self, op):
        f = self.existing('iso', ('file',), op)
        nm, paths = self.fresh(op)
        return 'add_hard_link', {'iso_old_path': f, 'iso_new_path': paths['iso'], 'bogus_kw': 1}

    def link_missing_old(self, op):
        nm, paths = self.fresh(op)
        kw = {'iso_old_path': '/NOSUCH%d.;1' % op['n'], 'iso_new_path': paths['iso']}
        if self.m.rr:
            kw['rr_name'] = nm['rr']
        return 'add_hard_link', kw

    def link_dup_new(self, op):
        m = self.m
        f = self.existing('iso', ('file',), op)
        tns = m.enabled()[op.get('to', 0) % len(m.enabled())]
        tgt = self.existing(tns, ('file', 'dir'), dict(op, i=op.get('i', 0) + 1))
        kw = {'iso_old_path': f, {'iso': 'iso_new_path', 'jol': 'joliet_new_path', 'udf': 'udf_new_path'}[tns]: tgt}
        if tns == 'iso' and m.rr:
            kw['rr_name'] = self.m._new_names(op, False)['rr']
        if m.t['iso'][f]['type'] == 'file' and m.blobs.get(m.t['iso'][f].get('blob')) is None:
            raise Skip('dead')
        return 'add_hard_link', kw

    def link_dup_new_in(self, tns):
        def b(op):
            m = self.m
            if not m.has[tns]:
                raise Skip('namespace off')
            f = self.existing('iso', ('file',), op)
            if m.blobs.get(m.t['iso'][f].get('blob')) is None:
                raise Skip('dead')
            tgt = self.existing(tns, ('file', 'dir'), dict(op, i=op.get('i', 0) + 1))
            return 'add_hard_link', {'iso_old_path': f, {'jol': 'joliet_new_path', 'udf': 'udf_new_path'}[tns]: tgt}
        return b

    def link_new_parent_missing(self, op):
        m = self.m
        f = self.existing('iso', ('file',), op)
        tns = m.enabled()[op.get('to', 0) % len(m.enabled())]
        nm, paths = self.fresh(op)
        kw = {'iso_old_path': f, {'iso': 'iso_new_path', 'jol': 'joliet_new_path', 'udf': 'udf_new_path'}[tns]: '/NOSUCHDIR' + paths[tns]}
        if tns == 'iso' and m.rr:
            kw['rr_name'] = nm['rr']
        return 'add_hard_link', kw

    def link_cat_none(self, op):
        if self.m.boot is not None:
            raise Skip('boot present')
        nm, paths = self.fresh(op)
        kw = {'boot_catalog_old': True, 'iso_new_path': paths['iso']}
        if self.m.rr:
            kw['rr_name'] = nm['rr']
        return 'add_hard_link', kw

    def rmlink_two(self, op):
        m = self.m
        f = self.existing('iso', ('file',), op)
        other = 'jol' if m.has['jol'] else ('udf' if m.has['udf'] else None)
        if other is None:
            raise Skip('single namespace')
        return 'rm_hard_link', {'iso_path': f, _k(other): self.existing(other, ('file',), op)}

    def sym_unsupported(self, op):
        if self.m.rr or self.m.has['udf']:
            raise Skip('symlinks supported')
        nm, paths = self.fresh(op)
        return 'add_symlink', {'symlink_path': paths['iso'], 'rr_symlink_name': 'x', 'rr_path': 'y'}

    def sym_half_rr(self, op):
        if not self.m.rr:
            raise Skip('no rr')
        nm, paths = self.fresh(op)
        return 'add_symlink', {'symlink_path': paths['iso'], 'rr_symlink_name': nm['rr']}

    def sym_dup(self, ns):
        def b(op):
            m = self.m
            if not m.has[ns]:
                raise Skip('namespace off')
            nm, paths = self.fresh(op)
            kw = {}
            if m.rr:
                kw.update(symlink_path=paths['iso'], rr_symlink_name=nm['rr'], rr_path='target')
            if ns == 'iso':
                if not m.rr:
                    raise Skip('iso symlink entry needs rr')
                kw['symlink_path'] = self.existing('iso', ('file', 'sym', 'null', 'dir'), op)
            elif ns == 'udf':
                kw.update(udf_symlink_path=self.existing('udf', ('file', 'sym', 'dir'), op), udf_target='target')
            else:
                if not m.rr:
                    raise Skip('joliet stage after rr only')
                kw['joliet_path'] = self.existing('jol', ('file', 'null', 'dir'), op)
            return 'add_symlink', kw
        return b

    def sym_foreign_joliet(self, op):
        m = self.m
        if m.has['jol'] or not (m.rr or m.has['udf']):
            raise Skip('not applicable')
        nm, paths = self.fresh(op)
        kw = {'joliet_path': '/foreign'}
        if m.rr:
            kw.update(symlink_path=paths['iso'], rr_symlink_name=nm['rr'], rr_path='t')
        else:
            kw.update(udf_symlink_path=paths['udf'], udf_target='t')
        return 'add_symlink', kw

    def _bootfile(self, op):
        m = self.m
        c = sorted(p for b in m.blobs.values() if b.length > 0 and not b.catalog for ns, p in b.names if ns == 'iso')
        if not c:
            raise Skip('no iso file')
        return c[op.get('i', 0) % len(c)]

    def boot_missing(self, op):
        return 'add_eltorito', {'bootfile_path': '/NOSUCH%d.;1' % op['n']}

    def boot_bad(self, key, val):
        def b(op):
            m = self.m
            f = self._bootfile(op)
            blob = m.blobs[m.t['iso'][f]['blob']]
            if key == 'media_name' and val == 'floppy' and blob.length in (1228800, 1474560, 2949120):
                raise Skip('valid floppy')
            if key == 'media_name' and val == 'hdemul' and blob.ckind == 2 and blob.length >= 512:
                raise Skip('valid hd image')
            kw = {'bootfile_path': f, key: val}
            if op.get('bit') and blob.length >= 64 and not blob.bit:
                kw['boot_info_table'] = True
            return 'add_eltorito', kw
        return b

    def boot_foreign(self, key):
        def b(op):
            ns = 'jol' if key.startswith('joliet') else 'udf'
            if self.m.has[ns]:
                raise Skip('namespace present')
            return 'add_eltorito', {'bootfile_path': self._bootfile(op), key: '/boot.cat'}
        return b

    def boot_dup_catalog(self, ns):
        def b(op):
            m = self.m
            if m.boot is not None or not m.has[ns]:
                raise Skip('catalog exists / namespace off')
            nm, paths = self.fresh(op)
            kw = {'bootfile_path': self._bootfile(op), 'bootcatfile': paths['iso']}
            if m.rr:
                kw['rr_bootcatname'] = nm['rr']
            if m.has['jol']:
                kw['joliet_bootcatfile'] = paths['jol']
            if m.has['udf']:
                kw['udf_bootcatfile'] = paths['udf']
            key = {'iso': 'bootcatfile', 'jol': 'joliet_bootcatfile', 'udf': 'udf_bootcatfile'}[ns]
            kw[key] = self.existing(ns, ('file', 'dir'), op)
            return 'add_eltorito', kw
        return b

    def boot_bit_then_refused(self, op):
        m = self.m
        f = self._bootfile(op)
        blob = m.blobs[m.t['iso'][f]['blob']]
        if blob.length < 64 or blob.bit:
            raise Skip('no room for a boot info table')
        return 'add_eltorito', {'bootfile_path': f, 'boot_info_table': True, 'media_name': 'bogus'}

    def rm_boot_none(self, op):
        if self.m.boot is not None:
            raise Skip('boot present')
        return 'rm_eltorito', {}

    def hyb_none(self, op):
        if self.m.boot is not None:
            raise Skip('boot present')
        return 'add_isohybrid', {}

    def hyb_bad(self, extra):
        def b(op):
            m = self.m
            if m.boot is None:
                raise Skip('no boot')
            first = m.boot['entries'][0]
            blob = m.blobs.get(first['blob'])
            if first['load'] != 4 or blob is None or blob.ckind != 1 or blob.length < 0x44:
                raise Skip('initial entry not hybrid-capable')
            return 'add_isohybrid', dict(extra)
        return b

    def reloc_twice(self, op):
        if not self.m.rr or self.m.reloc is None:
            raise Skip('not set yet')
        return 'set_relocated_name', {'name': 'OTHER%d' % (op['n'] % 100), 'rr_name': 'other'}

    def reloc_norr(self, op):
        if self.m.rr:
            raise Skip('rr image')
        return 'set_relocated_name', {'name': 'XMOVED', 'rr_name': 'xmoved'}

    def reloc_illegal(self, op):
        if not self.m.rr or self.m.reloc is not None or self.m.level == 4:
            raise Skip('not applicable')
        return 'set_relocated_name', {'name': 'lower case', 'rr_name': 'x'}

    def hide_two(self, op):
        f = self.existing('iso', ('file', 'dir'), op)
        if self.m.has['jol']:
            return 'set_hidden', {'iso_path': f, 'joliet_path': self.existing('jol', ('file', 'dir'), op)}
        if self.m.rr:
            return 'set_hidden', {'iso_path': f, 'rr_path': '/x'}
        raise Skip('single path kind')


def udf_norm(t):
    """A symlink target as ECMA-167 path components can carry it: doubled and trailing slashes are not representable."""
    if t is None:
        return t
    lead = '/' if t.startswith('/') else ''
    return lead + '/'.join(c for c in t.split('/') if c != '')


def _op_bad(self, op):
    cat = BadCatalogue(self)
    rows = cat.rows()
    if op.get('row') is not None:
        # a row named outright (scenario profiles that build the history a particular refusal needs)
        allrows = rows + cat.rows_late() + cat.rows_more()
        name, meth, staged, builder = [r for r in allrows if r[0] == op['row']][0]
    elif op.get('wy') is not None:
        extra = cat.rows_more()
        name, meth, staged, builder = extra[op['wy'] % len(extra)]
    elif op.get('wx') is not None:
        extra = cat.rows_late()
        name, meth, staged, builder = extra[op['wx'] % len(extra)]
    else:
        name, meth, staged, builder = rows[op.get('w', 0) % len(rows)]
    method, kw = builder(op)
    c = Call(method, kw, lambda: None)
    c.note = ('bad', name, staged)
    return c


Model.op_bad = _op_bad
N_BAD_ROWS = len(BadCatalogue(Model({'level': 1})).rows()) + len(BadCatalogue(Model({'level': 1})).rows_late()) + len(BadCatalogue(Model({'level': 1})).rows_more())
