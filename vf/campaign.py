"""Shared helpers for engine-based properties: Hypothesis driver, ddmin over programs,
classification of programs, confirmation of failures on refusal-free programs."""
import copy

from hypothesis import given, settings, seed as hseed, HealthCheck, Phase

from vf.engine import Run


def drive(strategy, n, seed_value, body):
    @hseed(seed_value)
    @settings(max_examples=n, database=None, deadline=None, phases=[Phase.generate],
              suppress_health_check=list(HealthCheck), report_multiple_bugs=False)
    @given(strategy)
    def t(case):
        body(case)
    t()


def without_ops(program, drop):
    p = dict(program)
    p['ops'] = [o for i, o in enumerate(program['ops']) if i not in drop]
    return p


def ddmin_ops(program, still_fails, max_trials=250, budget_s=45.0):
    """Delta-debugging over the op list (symbolic references keep sub-sequences valid).  Bounded by
    a trial count and a wall budget: minimisation only serves the reader of the replay file."""
    import time as _time
    ops = list(program['ops'])
    trials = [0]
    t0 = _time.perf_counter()

    def test(cand):
        if _time.perf_counter() - t0 > budget_s:
            trials[0] = max_trials + 1000
            return False
        trials[0] += 1
        try:
            return still_fails(dict(program, ops=cand))
        except Exception:
            return False

    n = 2
    while len(ops) >= 2 and trials[0] < max_trials:
        chunk = max(1, len(ops) // n)
        reduced = False
        for start in range(0, len(ops), chunk):
            cand = ops[:start] + ops[start + chunk:]
            if cand and test(cand):
                ops = cand
                n = max(n - 1, 2)
                reduced = True
                break
            if trials[0] >= max_trials:
                break
        if not reduced:
            if chunk == 1:
                break
            n = min(n * 2, len(ops))
    # simplify config: turn features off when the failure persists
    cfg = dict(program['cfg'])
    for key, off in (('xa', False), ('ac', False), ('udf', False), ('joliet', None), ('rr', None)):
        if cfg.get(key) not in (off,) and trials[0] < max_trials + 20:
            c2 = dict(cfg)
            c2[key] = off
            trials[0] += 1
            try:
                if still_fails(dict(program, cfg=c2, ops=ops)):
                    cfg = c2
            except Exception:
                pass
    return dict(program, cfg=cfg, ops=ops)


def program_classes(run):
    m = run.model
    cl = set(m.classes)
    cl.add('profile:' + str(run.program.get('profile', '?')))
    cfg = run.cfg
    cl.add('cfg:level%d' % cfg['level'])
    cl.add('cfg:rr=%s' % cfg.get('rr'))
    cl.add('cfg:joliet=%s' % cfg.get('joliet'))
    cl.add('cfg:udf=%s' % bool(cfg.get('udf')))
    if cfg.get('xa'):
        cl.add('cfg:xa')
    if cfg.get('ac'):
        cl.add('cfg:always_consistent')
    if run.refused:
        cl.add('has-over-refusal')
    if run.dead:
        cl.add('engine-dead')
    return cl


def refusal_reasons(run):
    out = {}
    for _, msg in run.refused:
        key = msg[:90]
        out[key] = out.get(key, 0) + 1
    return out


def clean_program(run):
    """The program without the ops the library refused (C14's business) - used to confirm
    that a failure does not depend on a (possibly non-atomic) refusal."""
    drop = {i for i, _ in run.refused}
    return without_ops(run.program, drop)


def attribute_known(program, failures, oracle_fn):
    """`program` ran with no avoidance and produced `failures` [(sig, clause, msg)].
    A failure is attributed to an OPEN known finding iff it disappears when that finding's
    avoidance switch alone is turned on (the switch must actually fire).  Attributed failures
    get the suffix '/known:<id>'; the others are returned unchanged - they are new.
    oracle_fn(program) -> (run, failures)."""
    from vf.avoid import OPEN
    if not failures:
        return failures
    sigs = {f[0] for f in failures}
    run_all, fs_all = oracle_fn(dict(program, avoid=sorted(OPEN)))
    fired = sorted(getattr(run_all.model, 'avoided_counts', {}))
    still = {f[0] for f in fs_all}
    vanished = sigs - still
    if not vanished or not fired:
        return failures
    owner = {}
    for fid in fired:
        run1, fs1 = oracle_fn(dict(program, avoid=[fid]))
        if not getattr(run1.model, 'avoided_counts', {}).get(fid):
            continue
        gone = vanished - {f[0] for f in fs1}
        for sg in gone:
            owner.setdefault(sg, fid)
    out = []
    for sig, clause, msg in failures:
        if sig in vanished:
            fid = owner.get(sig, '+'.join(fired))
            out.append((sig + '/known:' + fid, clause, msg))
        else:
            out.append((sig, clause, msg))
    return out
