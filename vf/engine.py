"""Interpreter: applies a program (config + symbolic ops) to a real PyCdlib object and to
the reference model in lock step; plus the API view (public API only).
"""
import hashlib
import io
import os

from vf import shim, VERIF
from vf.model import Model, Skip, content, NS, parent_of
from vf.runner import exc_signature

import pycdlib
from pycdlib import pycdlibexception as pex

SCRATCH = os.path.join(VERIF, '.scratch')


class RecordingFile(io.BytesIO):
    """Output file that logs every (offset, length) written."""

    def __init__(self):
        super().__init__()
        self.log = []

    def write(self, b):
        self.log.append((self.tell(), len(b)))
        return super().write(b)


class Problem:
    __slots__ = ('sig', 'clause', 'msg', 'step')

    def __init__(self, sig, clause, msg, step):
        self.sig, self.clause, self.msg, self.step = sig, clause, msg, step


def new_kwargs(cfg):
    kw = {'interchange_level': cfg['level']}
    if cfg.get('joliet') is not None:
        kw['joliet'] = cfg['joliet']
    if cfg.get('rr'):
        kw['rock_ridge'] = cfg['rr']
    if cfg.get('udf'):
        kw['udf'] = '2.60'
    if cfg.get('xa'):
        kw['xa'] = True
    for k in ('sys_ident', 'vol_ident', 'app_use', 'vol_set_ident', 'pub_ident_str', 'preparer_ident_str', 'app_ident_str', 'copyright_file', 'abstract_file', 'bibli_file',
              'set_size', 'seqnum', 'vol_expire_date'):
        if cfg.get(k):
            kw[k] = cfg[k]
    return kw


class Run:
    """One execution of a program.  `always_consistent` overrides the config (C06)."""

    def __init__(self, program, always_consistent=None, seed_base=12345):
        self.program = program
        self.cfg = program['cfg']
        self.ops = program['ops']
        self.model = Model(self.cfg, program.get('avoid'))
        self.ac = self.cfg.get('ac', False) if always_consistent is None else always_consistent
        self.seed_base = seed_base
        self.problems = []
        self.refused = []           # (op index, message)
        self.expected_refusals = []     # op indexes of calls that had to be refused and were
        self.skipped = []           # (op index, reason)
        self.applied = []           # op indices applied to both
        self.images = []            # (step, bytes) for every write/reopen op
        self.fps = []
        self.tmpfiles = []
        self.iso = None
        self.dead = False
        self.step_no = 0
        shim.reset(0, seed_base)
        try:
            self.iso = pycdlib.PyCdlib(always_consistent=self.ac)
            self.iso.new(**new_kwargs(self.cfg))
        except Exception as e:  # noqa
            self.problem('new/exception/' + exc_signature(e), 'new', 'new(%r) raised %r' % (new_kwargs(self.cfg), e))
            self.dead = True

    # -------------------------------------------------------------- utilities
    def problem(self, sig, clause, msg):
        self.problems.append(Problem(sig, clause, msg, self.step_no))

    def close(self):
        try:
            if self.iso is not None:
                self.iso.close()
        except Exception:
            pass
        self.iso = None
        for f in self.tmpfiles:
            try:
                os.unlink(f)
            except OSError:
                pass
        self.tmpfiles = []

    def _content_fp(self, blob):
        data = content(blob.cid, blob.length, blob.ckind)
        # one source in five behaves like a raw stream: a read may return less than was asked for (never nothing before the end)
        fp = ShortReads(data) if (blob.id % 5 == 3 and blob.length > 700) else io.BytesIO(data)
        self.fps.append(fp)
        return fp

    # -------------------------------------------------------------- stepping
    def run_all(self, on_step=None):
        for i in range(len(self.ops)):
            if self.dead:
                break
            self.step(i)
            if on_step is not None and not self.dead:
                on_step(self, i)
        return self

    def step(self, i):
        op = self.ops[i]
        self.step_no = i
        k = op['k']
        shim.reset(op.get('n', i + 1), self.seed_base)   # keyed on the op's serial: inserted/removed ops do not shift later draws
        if k == 'write':
            img = self.write()
            if img is not None:
                self.images.append((i, img))
            return 'write'
        if k == 'reopen':
            return self.reopen()
        if k == 'query':
            return self.query(op)
        try:
            call = self.model.resolve(op)
        except Skip as s:
            self.skipped.append((i, str(s)))
            if str(s).startswith('avoid:'):
                self.model.avoided(str(s)[6:])
            return 'skipped'
        kwargs = dict(call.kwargs)
        method = call.method
        if call.note is not None and call.note[0] == 'bad':
            return self.bad_step(i, call, method, kwargs)
        if op.get('nocall'):
            # C14's third run: the model goes through the same motions as for a refused call (names drawn, serials
            # consumed), the library is not called at all
            self.refused.append((i, 'nocall: taken out'))
            return 'refused'
        if method == 'add_fp':
            fp = self._content_fp(call.blob)
            args = (fp, call.blob.length)
        elif method == 'add_file':
            os.makedirs(os.path.join(SCRATCH, 'files'), exist_ok=True)
            path = os.path.join(SCRATCH, 'files', 'f%d_%d_%d' % (os.getpid(), id(self) & 0xffffff, i))
            with open(path, 'wb') as f:
                f.write(content(call.blob.id, call.blob.length, call.blob.ckind))
            os.chmod(path, 0o644)
            self.tmpfiles.append(path)
            args = (path,)
            call_mode = None
        else:
            args = ()
        must_refuse = call.note is not None and call.note[0] == 'must-refuse'
        try:
            getattr(self.iso, method)(*args, **kwargs)
        except pex.PyCdlibInvalidInput as e:
            if must_refuse:
                self.model.classes.add('refused-as-it-must/%s/%s' % (method, call.note[1]))
                self.expected_refusals.append(i)
                return 'refused-as-expected'
            self.refused.append((i, '%s: %s' % (method, e)))
            return 'refused'
        except Exception as e:  # noqa
            self.problem('op/%s/exception/%s' % (method, exc_signature(e)), 'edit-raised',
                         '%s(%s) raised %s: %s' % (method, _short(kwargs), type(e).__name__, e))
            self.dead = True
            return 'dead'
        if must_refuse:
            self.problem('op/%s/accepted-but-must-refuse/%s' % (method, call.note[1]), 'must-refuse',
                         '%s(%s) was accepted although %s' % (method, _short(kwargs), call.note[1]))
            self.dead = True
            return 'dead'
        saved = None
        if call.note is not None and call.note[0] == 'rm_file' and call.blob is not None and call.blob.length == 0:
            saved = {(ns, p): dict(self.model.t[ns][p]) for ns, p in call.blob.names}
        call.effect()
        if saved:
            # documented looseness: zero-byte removal "may need to be called more than once"
            survivors = [(ns, p) for (ns, p) in sorted(saved) if (ns, p) != call.note[1:] and self.exists(ns, p)]
            if survivors:
                b = call.blob
                self.model.blobs[b.id] = b
                for ns, p in survivors:
                    self.model.t[ns][p] = saved[(ns, p)]
                    b.names.add((ns, p))
                self.model.classes.add('zero-length-rm-partial')
            if self.exists(*call.note[1:]):
                self.problem('rm_file/addressed-name-still-present', 'rm-not-removed', '%s(%s) left the addressed name in place' % (method, _short(kwargs)))
        if method == 'add_file' and call_mode is not None:
            self.model.t['iso'][kwargs['iso_path']]['mode'] = call_mode
        self.applied.append(i)
        if call.note is not None and call.note[0] in ('rm_file', 'rm_sym'):
            self.zero_sync(call)
        elif method == 'rm_hard_link' and call.blob is not None and call.blob.length == 0:
            self.zero_sync(call)
        return 'applied'

    def bad_step(self, i, call, method, kwargs):
        """A call from the refusal catalogue (C14): it must raise; the model is left untouched."""
        if not hasattr(self, 'bad_results'):
            self.bad_results = []
        args = ()
        if '__content__' in kwargs:
            bid, ln = kwargs.pop('__content__')
            data = content(100000 + bid, max(ln, 0))
            fp = io.BytesIO(data)
            self.fps.append(fp)
            args = (fp, ln)
        try:
            getattr(self.iso, method)(*args, **kwargs)
        except pex.PyCdlibException as e:
            self.bad_results.append((i, call.note[1], call.note[2], 'refused:' + type(e).__name__, str(e)[:120]))
            return 'bad-refused'
        except Exception as e:  # noqa
            self.bad_results.append((i, call.note[1], call.note[2], 'raised:' + exc_signature(e), str(e)[:120]))
            return 'bad-refused'
        self.bad_results.append((i, call.note[1], call.note[2], 'accepted', ''))
        self.dead = True        # the twin comparison is void: whether it should have been refused is C13's business
        # ... unless the object cannot be mastered any more: then the call was neither refused nor carried out
        try:
            self.iso.write_fp(io.BytesIO())
        except pex.PyCdlibInvalidInput:
            pass
        except Exception as e:  # noqa
            self.bad_unwritable = (call.note[1], exc_signature(e), str(e)[:160])
        return 'bad-accepted'

    # After a reopen the library gives all zero-length files and symlinks one shared inode,
    # and documents that zero-byte removal "may need to be called more than once".  The
    # model therefore accepts, for the addressed blob, any subset of its names going away;
    # anything else going away is reported and the model is resynchronised so that the
    # campaign can continue behind the finding.
    def zero_sync(self, call):
        m = self.model
        addressed = call.blob
        if addressed is not None and addressed.length != 0:
            return
        if m.generation == 0 and addressed is None:
            return
        lost_other = []
        for ns in NS:
            for p, e in list(m.t[ns].items()):
                if e['type'] == 'file':
                    b = m.blobs.get(e['blob'])
                    if b is None or b.length != 0:
                        continue
                elif e['type'] not in ('sym', 'null'):
                    continue
                if not self.exists(ns, p):
                    lost_other.append((ns, p, e['type']))
                    m.remove_name(ns, p) if e['type'] == 'file' else m.t[ns].pop(p)
        if lost_other:
            kinds = sorted(set(t for _, _, t in lost_other))
            self.problem('zero-length/unrelated-entry-removed/%s' % '+'.join(kinds), 'rm-unrelated',
                         '%s(%s) also removed %s' % (call.method, _short(call.kwargs), lost_other[:4]))

    def exists(self, ns, path):
        kw = {{'iso': 'iso_path', 'jol': 'joliet_path', 'udf': 'udf_path'}[ns]: path}
        try:
            self.iso.get_record(**kw)
            return True
        except pex.PyCdlibException:
            return False
        except Exception:
            return False

    def query(self, op):
        """Read-only calls (C06/C16 interleavings); results are ignored here."""
        m = self.model
        q = op.get('q', 0) % 6
        ents = []
        for ns in NS:
            if m.has[ns]:
                ents.extend((ns, p) for p in m.t[ns])
        ents.sort()
        ns, p = ents[op.get('i', 0) % len(ents)]
        key = {'iso': 'iso_path', 'jol': 'joliet_path', 'udf': 'udf_path'}[ns]
        if ns == 'iso' and m.rr and m.t['iso'][p].get('rr') and op.get('i', 0) % 2 == 1 and q in (0, 1, 3) and not m.relocated_dirs():
            # address the entry by its Rock Ridge path in half of the ISO9660 draws (lookups by rr_path have a cache of their own)
            key, p = 'rr_path', m.rr_path(p)
        try:
            if q == 0:
                self.iso.get_record(**{key: p})
            elif q == 1:
                if key == 'rr_path':
                    d = p if m.t['iso'][ents[op.get('i', 0) % len(ents)][1]]['type'] == 'dir' else (p.rsplit('/', 1)[0] or '/')
                else:
                    d = p if m.t[ns][p]['type'] == 'dir' else parent_of(p)
                list(self.iso.list_children(**{key: d}))
            elif q == 2:
                for _ in self.iso.walk(**{key: '/'}):
                    pass
            elif q == 3:
                rec = self.iso.get_record(**{key: p})
                self.iso.full_path_from_dirrecord(rec, rockridge=(key == 'rr_path'))
            elif q == 4 and m.rr and ns == 'iso' and m.t['iso'][p].get('rr'):
                self.iso.file_mode(rr_path=m.rr_path(p))
            else:
                self.iso.has_rock_ridge(), self.iso.has_joliet(), self.iso.has_udf()
        except pex.PyCdlibInvalidInput as e:
            self.refused.append((self.step_no, 'query: %s' % e))
        except Exception as e:  # noqa
            self.problem('query/exception/%s' % exc_signature(e), 'query-raised', 'query %d on %s %r raised %r' % (q, ns, p, e))
        return 'query'

    def write(self, recorder=None, probe=False):
        """`probe`: a mastering that the history itself does not contain (C14's before/after images); where the history's own
        writes would drop a hybridization whose partition offset lies beyond the image, a probe returns None and changes nothing."""
        out = recorder if recorder is not None else io.BytesIO()
        try:
            self.iso.write_fp(out)
        except pex.PyCdlibInvalidInput as e:
            if 'partition offset lies beyond' in str(e) and self.model.hybrid is not None:
                if probe:
                    return None
                if recorder is not None:
                    recorder.seek(0)
                    recorder.truncate()
                    if hasattr(recorder, 'log'):
                        del recorder.log[:]
                # only mastering knows the size of the image: an isohybrid partition offset beyond its end is refused
                # there (documented exception).  The history goes on without the hybridization (counted).
                self.iso.rm_isohybrid()
                self.model.hybrid = None
                self.model.classes.add('hybrid-dropped/offset-beyond-image')
                self.refused.append((self.step_no, 'write_fp: %s' % e))
                return self.write(recorder)
            self.problem('write/exception/%s' % exc_signature(e), 'write-raised', 'write_fp raised %s: %s' % (type(e).__name__, e))
            self.dead = True
            return None
        except Exception as e:  # noqa
            self.problem('write/exception/%s' % exc_signature(e), 'write-raised', 'write_fp raised %s: %s' % (type(e).__name__, e))
            self.dead = True
            return None
        return out.getvalue()

    def reopen(self):
        img = self.write()
        if img is None:
            return 'dead'
        self.images.append((self.step_no, img))
        op = self.ops[self.step_no] if self.step_no < len(self.ops) else {}
        if op.get('relayout') and not self.model.has['udf'] and self.model.boot is None and self.model.hybrid is None:
            # stand-in for a foreign image: same content, different (tolerated) layout traits
            from vf.indep.relayout import relayout
            alt = relayout(img, op['relayout'], bool(op.get('shrinkvs')))
            if alt is not None:
                img = alt
                self.model.classes.add('relayout')
                if op.get('shrinkvs'):
                    self.model.classes.add('relayout-declared-size-too-small')
        if op.get('foreign') and not self.model.has['udf'] and self.model.hybrid is None:
            # stand-in for a foreign image: the same logical content mastered from scratch by vf/indep/remaster.py
            from vf.indep import remaster
            try:
                alt = remaster.remaster(img, op['foreign'])
            except remaster.SelfCheckFailed:
                alt = None
                self.model.classes.add('remaster-selfcheck-failed')
            except Exception:  # noqa  (a defect of the harness module, never a violation)
                alt = None
                self.model.classes.add('remaster-crashed')
            if alt is not None:
                img = alt
                self.foreign_img = alt
                self.model.classes.add('foreign-remaster')
                self.model.classes.add('foreign-remaster/family-%d' % op['foreign'].get('family', 0))
                if self.model.boot is not None:
                    self.model.classes.add('foreign-remaster/eltorito')
                if op['foreign'].get('budget', 255) < 200:
                    self.model.classes.add('foreign-remaster/small-in-record-budget')
            else:
                self.model.classes.add('foreign-remaster-ineligible')
        if op.get('same'):
            # the same object again: close() "makes the object ready for another ISO"
            self.model.classes.add('reopen-same-object')
            try:
                self.iso.close()
                self.iso.open_fp(io.BytesIO(img))
                new = self.iso
            except Exception as e:  # noqa
                new = e
        else:
            new = open_image(img)
        if isinstance(new, Exception):
            self.problem('reopen/exception/%s' % exc_signature(new), 'reopen-raised',
                         'open_fp of the library\'s own output raised %s: %s' % (type(new).__name__, new))
            self.dead = True
            return 'dead'
        if new is not self.iso:
            try:
                self.iso.close()
            except Exception:
                pass
        self.iso = new
        self.model.generation += 1
        self.model.on_reopen()
        self.model.zero_shared = True
        self.model.classes.add('reopen')
        return 'reopen'


class ShortReads(io.BytesIO):
    def read(self, n=-1):
        if n is None or n < 0 or n > 700:
            n = 700 if (n is not None and n >= 0) else n
        return super().read(n)


def open_image(img, always_consistent=False):
    iso = pycdlib.PyCdlib(always_consistent=always_consistent)
    try:
        iso.open_fp(io.BytesIO(img))
    except Exception as e:  # noqa
        return e
    return iso


def _short(kw):
    out = {}
    for k, v in kw.items():
        if isinstance(v, str) and len(v) > 40:
            v = v[:20] + '...(%d)' % len(v)
        out[k] = v
    return out


# ---------------------------------------------------------------------------- API view
def sha(data):
    return hashlib.sha256(data).hexdigest()[:16]


def api_view(iso, has, rr, blocksize=8192, want_content=True, physical_iso=True, logical_iso_paths=None):
    """{ns: {path: (type, length, sha, hidden, target, mode)}} using the public API only.
    Raises whatever the library raises (callers turn that into a finding)."""
    out = {}
    plan = [('iso', 'iso_path')] if physical_iso else []
    if logical_iso_paths is not None:
        # relocation makes the physical ISO9660 listing differ from the logical one by design:
        # the logical tree is checked through iso_path lookups (the library follows CL links)
        d = {}
        for p in logical_iso_paths:
            try:
                rec = iso.get_record(iso_path=p)
            except pex.PyCdlibInvalidInput:
                continue
            hidden = bool(rec.file_flags & 1)
            if rec.is_dir():
                d[p] = ('dir', None, None, hidden, None, None)
            elif rec.rock_ridge is not None and rec.is_symlink():
                d[p] = ('file', 0, None, hidden, None, None)
            else:
                data = _read(iso, 'iso_path', p, blocksize) if want_content else None
                d[p] = ('file', len(data) if data is not None else rec.get_data_length(), sha(data) if data is not None else None, hidden, None, None)
        out['isol'] = d
    if rr:
        plan.append(('rr', 'rr_path'))
    if has['jol']:
        plan.append(('jol', 'joliet_path'))
    if has['udf']:
        plan.append(('udf', 'udf_path'))
    for ns, key in plan:
        d = {}
        for dirname, dirs, files in iso.walk(**{key: '/'}):
            for nm in list(dirs) + list(files):
                p = ('' if dirname == '/' else dirname) + '/' + nm
                if p in d:
                    d[p] = ('DUPLICATE',) + d[p][1:]
                    continue
                rec = iso.get_record(**{key: p})
                if ns == 'udf':
                    if rec is None:
                        d[p] = ('file', 0, None, False, None, None)
                        continue
                    if rec.is_dir():
                        d[p] = ('dir', None, None, False, None, None)
                    elif rec.is_symlink():
                        d[p] = ('sym', None, None, False, None, None)
                    else:
                        data = _read(iso, key, p, blocksize) if want_content else None
                        d[p] = ('file', len(data) if data is not None else rec.get_data_length(), sha(data) if data is not None else None, False, None, None)
                    continue
                hidden = bool(rec.file_flags & 1)
                mode = None
                if ns == 'rr':
                    mode = iso.file_mode(rr_path=p)
                if rec.is_dir():
                    d[p] = ('dir', None, None, hidden, None, mode)
                elif rec.rock_ridge is not None and rec.is_symlink():
                    if ns == 'rr':
                        d[p] = ('sym', None, None, hidden, rec.rock_ridge.symlink_path().decode('utf-8'), mode)
                    else:
                        d[p] = ('file', 0, None, hidden, None, None)
                else:
                    data = _read(iso, key, p, blocksize) if want_content else None
                    d[p] = ('file', len(data) if data is not None else rec.get_data_length(), sha(data) if data is not None else None, hidden, None, mode)
        out[ns] = d
    return out


EMPTY_READ_REFUSED = [0]


def _read(iso, key, path, blocksize):
    o = io.BytesIO()
    try:
        iso.get_file_from_iso_fp(o, blocksize=blocksize, **{key: path})
    except pex.PyCdlibInvalidInput as e:
        # Interpretation: the library refuses to extract an entry "without data" (an empty file
        # after a parse); that is read as empty content, and counted.
        if 'without data' in str(e):
            EMPTY_READ_REFUSED[0] += 1
            return b''
        raise
    return o.getvalue()


def model_view(model):
    """The model's view with blob ids replaced by (length, sha) of the expected content.
    For blobs carrying a boot info table, bytes 8..63 are not predictable by the model: sha is
    replaced by ('bit', sha of the content with bytes 8..63 zeroed)."""
    v = model.view()
    cache = {}
    out = {}
    for ns, d in v.items():
        if d is None:
            out[ns] = None
            continue
        o = {}
        for p, (t, ln, bid, hidden, tgt, mode) in d.items():
            h = None
            if t == 'file' and bid is not None:
                b = model.blobs[bid]
                if b.catalog:
                    h = 'CATALOG'
                else:
                    if bid not in cache:
                        data = content(b.cid, b.length, b.ckind)
                        cache[bid] = ('BIT' + sha(_mask_bit(data))) if b.bit else sha(data)
                    h = cache[bid]
            elif t == 'file':
                h = sha(b'')
            o[p] = (t, ln, h, hidden, tgt, mode)
        out[ns] = o
    return out


def _mask_bit(data):
    return data[:8] + b'\0' * 56 + data[64:]


def diff_views(got, want, ns_list=None, ignore_mode=False):
    """List of (ns, path, got, want) differences.  Content hashes: 'CATALOG' matches any 2048-byte
    file, 'BIT...' hashes are compared by the caller through `bit_ok`."""
    diffs = []
    for ns, w in want.items():
        if w is None or (ns_list is not None and ns not in ns_list):
            continue
        g = got.get(ns)
        if g is None:
            diffs.append((ns, None, 'namespace missing', 'present'))
            continue
        for p in sorted(set(g) | set(w)):
            a, b = g.get(p), w.get(p)
            if a is None or b is None:
                diffs.append((ns, p, a, b))
                continue
            if not entry_equal(a, b, ns, ignore_mode):
                diffs.append((ns, p, a, b))
    return diffs


def entry_equal(a, b, ns, ignore_mode=False):
    (t1, l1, h1, hid1, tg1, m1), (t2, l2, h2, hid2, tg2, m2) = a, b
    if t1 != t2:
        return False
    if ns != 'udf' and hid1 != hid2:
        return False
    if t1 == 'file':
        if l2 is not None and l1 != l2:
            return False
        if h2 == 'CATALOG' or (isinstance(h2, str) and h2.startswith('BIT')) or h1 is None or h2 is None:
            pass
        elif h1 != h2:
            return False
    if t1 == 'sym' and ns == 'rr' and tg1 != tg2:
        return False
    if ns == 'rr' and not ignore_mode and m2 is not None and m1 != m2:
        return False
    return True
