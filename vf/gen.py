"""Hypothesis strategies for programs (config + symbolic ops), organised in profiles that
force the interesting classes by construction (no assume/filter)."""
import os

from hypothesis import strategies as st

I = st.integers(0, 999)
MAGIC = st.one_of(st.just(0), st.just(0), st.just(0), st.just(0), st.just(0), st.just(0), st.just(0), st.integers(1, 40))
REUSE = st.one_of(st.just(0), st.just(0), st.integers(1, 1 << 16))    # non-zero: take a name already used in another directory
NONE = st.none()

LEN = st.one_of(st.sampled_from([0, 0, 1, 2047, 2048, 2049, 4095, 4096, 4097, 10000, 70000]), st.integers(0, 5000))
SMALL_LEN = st.one_of(st.sampled_from([0, 1, 2047, 2048, 2049]), st.integers(0, 3000))
NSMASK = st.sampled_from([7, 7, 7, 7, 7, 1, 2, 4, 3, 5, 6])
RSZ = st.one_of(st.integers(0, 2), st.integers(0, 2), st.integers(3, 7), st.integers(0, 10))
SZ = st.integers(0, 4)
FMODE = st.one_of(NONE, NONE, st.sampled_from([0o100444, 0o100644, 0o100755, 0o100600, 0o104755, 0o100000, 0o101777]))
DMODE = st.one_of(NONE, NONE, st.sampled_from([0o040555, 0o040755, 0o040700, 0o041777]))


# descriptor fields of new() that most images leave at their defaults: volume set size / sequence number (disc M of N),
# identifier strings (some at their field's full width), an expiry date, application-use bytes
VD_EXTRAS = st.one_of(
    st.just({}), st.just({}), st.just({}),
    st.fixed_dictionaries({'set_size': st.sampled_from([2, 3, 5, 1000]), 'seqnum': st.sampled_from([1, 2, 3])}),
    st.fixed_dictionaries({'sys_ident': st.sampled_from(['LINUX', 'S' * 32]), 'vol_ident': st.sampled_from(['CDROM', 'V' * 32, 'MY_VOLUME']),
                           'vol_set_ident': st.sampled_from(['SET', 'T' * 128]), 'pub_ident_str': st.sampled_from(['', 'PUBLISHER', 'P' * 128]),
                           'preparer_ident_str': st.sampled_from(['', 'PREP', 'R' * 128]), 'app_ident_str': st.sampled_from(['', 'APP', 'A' * 128]),
                           'copyright_file': st.sampled_from(['', 'COPY.TXT;1']), 'abstract_file': st.sampled_from(['', 'ABS.TXT;1']),
                           'bibli_file': st.sampled_from(['', 'BIB.TXT;1']), 'vol_expire_date': st.sampled_from([None, 1893456000.0, 4102444799.0]),
                           'app_use': st.sampled_from(['', 'application use', 'u' * 100]),
                           'set_size': st.sampled_from([1, 2]), 'seqnum': st.sampled_from([1, 1, 2])}),
)


def cfg_st(level=None, joliet=None, rr=None, udf=None, xa=None, ac=None):
    def merge(base, extra):
        out = dict(base)
        for k, v in extra.items():
            if v in ('', None) or (k == 'seqnum' and v > extra.get('set_size', 1)):
                continue
            if base.get('joliet') and k in ('vol_set_ident', 'pub_ident_str', 'preparer_ident_str', 'app_ident_str') and isinstance(v, str):
                v = v[:64]          # the Joliet descriptor holds these as UCS-2: half as many characters (new() refuses more)
            out[k] = v
        return out
    return st.builds(merge, _cfg_base(level, joliet, rr, udf, xa, ac), VD_EXTRAS)


def _cfg_base(level=None, joliet=None, rr=None, udf=None, xa=None, ac=None):
    return st.fixed_dictionaries({
        'level': st.sampled_from([1, 2, 3, 4]) if level is None else level,
        'joliet': st.sampled_from([None, 1, 2, 3, 3]) if joliet is None else joliet,
        'rr': st.sampled_from([None, '1.09', '1.10', '1.12', '1.09', '1.12']) if rr is None else rr,
        'udf': st.booleans() if udf is None else udf,
        'xa': st.sampled_from([False, False, False, True]) if xa is None else xa,
        'ac': st.sampled_from([False, False, False, True]) if ac is None else ac,
    })


def op(kind, **fields):
    d = {'k': st.just(kind)}
    d.update(fields)
    return st.fixed_dictionaries(d)


def add_fp(d=I, ns=NSMASK, length=LEN, rsz=RSZ, ck=st.just(0), file=st.sampled_from([False] * 9 + [True])):
    return op('add_fp', d=d, ns=ns, len=length, sz=SZ, rsz=rsz, usz=st.integers(0, 4), lead=I, salt=I, mode=FMODE, ck=ck, file=file, reuse=REUSE, magic=MAGIC,
              vtwin=st.one_of(st.just(0), st.just(0), st.just(0), st.just(0), st.just(0), st.just(0), st.integers(1, 1000)),
              xtwin=st.one_of(st.just(0), st.just(0), st.just(0), st.just(0), st.just(0), st.just(0), st.integers(1, 1000)),
              utwin=st.one_of(st.just(0), st.just(0), st.just(0), st.just(0), st.just(0), st.integers(1, 1000)))


def add_dir(d=I, ns=NSMASK, rsz=RSZ, sz=SZ):
    return op('add_dir', d=d, ns=ns, sz=sz, rsz=rsz, usz=st.integers(0, 4), lead=I, salt=I, mode=DMODE, reuse=REUSE, magic=MAGIC,
              rrm=st.sampled_from([0] * 14 + [1, 2, 3]))


rm_file = op('rm_file', b=I, j=I)
rm_dir = op('rm_dir', d=I, ns=st.sampled_from([7, 7, 7, 7, 1, 2, 4, 3]))
add_link = op('add_link', b=I, j=I, to=I, d=I, sz=SZ, rsz=RSZ, usz=st.integers(0, 4), lead=I, salt=I, reuse=st.one_of(st.just(0), st.integers(1, 1 << 16)),
              symsrc=st.sampled_from([0] * 9 + [1, 2]), within=st.sampled_from([0] * 6 + [1, 2, 3, 3]), dupnew=st.sampled_from([0] * 10 + [1, 2]))
rm_link = op('rm_link', b=I, j=I)
add_sym = op('add_sym', d=I, form=st.integers(0, 3), jol=st.booleans(), tgt=I, sz=SZ, rsz=RSZ, usz=st.integers(0, 4), lead=I, salt=I, reuse=REUSE, magic=MAGIC,
             tu=st.one_of(st.just(0), st.just(0), st.just(0), st.just(0), st.integers(1, 40)))
rm_sym = op('rm_sym', i=I)
hide = op('hide', i=I, via=st.integers(0, 1), on=st.sampled_from([1, 1, 0]))
dup_pvd = op('dup_pvd')
set_reloc = op('set_reloc', sz=st.integers(0, 2), lead=I, salt=I, rsz=st.sampled_from([0, 1, 2, 3, 4, 5, 6, 8]), badrr=st.sampled_from([0] * 8 + [1, 2, 3]))
force = op('force')
query = op('query', q=st.integers(0, 5), i=I)
write = op('write')
reopen = op('reopen')

add_boot = op('add_boot', b=I, j=I, d=I, media=st.integers(0, 4), plat=st.integers(0, 5), load=st.one_of(NONE, NONE, st.sampled_from([1, 4, 8, 100, 0, 65535])),
              seg=st.sampled_from([0, 0, 0x7c0, 0x1000]), bootable=st.sampled_from([1, 1, 1, 0]), efi=st.booleans(), bit=st.booleans(),
              catexplicit=st.booleans(), csz=st.integers(0, 2), sz=SZ, rsz=st.integers(0, 2), usz=st.integers(0, 2), lead=I, salt=I)
rm_boot = op('rm_boot')
link_cat = op('link_cat', to=I, d=I, sz=SZ, rsz=st.integers(0, 2), usz=st.integers(0, 2), lead=I, salt=I, byname=st.sampled_from([0, 0, 1, 2, 3]))
add_hybrid = op('add_hybrid', pe=st.integers(1, 4), mbr_id=st.one_of(NONE, st.integers(0, 0xffffffff)), po=st.sampled_from([0, 0, 0, 1, 16, 63]),
                gs=st.one_of(st.just(32), st.integers(1, 63)), gh=st.one_of(st.just(64), st.integers(1, 256)),
                pt=st.one_of(NONE, st.sampled_from([0, 0x17, 0x83, 0xef])), mac=st.sampled_from([False, False, True]),
                efi=st.sampled_from([None, None, True, False]))
rm_hybrid = op('rm_hybrid')
rm_catlink = op('rm_catlink', j=I)
bad = op('bad', w=st.integers(0, 200), wx=st.one_of(NONE, NONE, NONE, NONE, st.integers(0, 100)), wy=st.one_of(NONE, NONE, NONE, st.integers(0, 100)), i=I, to=I, len=st.sampled_from([0, 5, 2048, 70]), bit=st.booleans(), sz=SZ,
         rsz=st.sampled_from([0, 1, 2, 3, 3, 4, 5, 6]), usz=st.integers(0, 2), lead=I, salt=I)


def weighted(pairs):
    """one_of with weights.  (st.one_of drops repeated strategies, so repeating an alternative does not weight it: the
    profile tables below are in effect uniform.  Here an index is drawn from a list with repeats.)"""
    strategies = [s for s, _ in pairs]
    idx = [i for i, (_, w) in enumerate(pairs) for _ in range(w)]
    return st.sampled_from(idx).flatmap(lambda i: strategies[i])


def finish(cfg, ops, avoid=True, rs=0):
    out = []
    nre = 0
    for i, o in enumerate(ops):
        o = dict(o)
        o['n'] = i + 1
        if o.get('k') == 'reopen':
            # `same`: the written image is opened with the *same* PyCdlib object after close() (documented re-use)
            if (rs >> (nre % 8)) & 1:
                o['same'] = 1
            nre += 1
        out.append(o)
    from vf.avoid import active
    return {'cfg': cfg, 'ops': out, 'avoid': active(avoid)}


AVOID = st.sampled_from([True] * 7 + [False])


RS = st.sampled_from([0, 0, 0xff, 0xff, 1, 2, 5])


def program(cfg, ops_st):
    return st.builds(finish, cfg, ops_st, AVOID, RS)


def mixed_ops(reopen_ok=False, boot=True):
    choices = [add_fp(), add_fp(), add_fp(), add_dir(), add_dir(), rm_file, rm_dir, add_link, add_link, rm_link, add_sym, rm_sym, hide,
               dup_pvd, set_reloc, force, query, write]
    if boot:
        choices += [add_boot, rm_boot, link_cat]
    if reopen_ok:
        choices += [reopen, reopen]
    return st.one_of(*choices)


def mixed(reopen_ok=False, cfg=None, min_ops=5, max_ops=30):
    return program(cfg if cfg is not None else cfg_st(), st.lists(mixed_ops(reopen_ok), min_size=min_ops, max_size=max_ops))


def growshrink(cfg=None, reopen_ok=False):
    """Many entries in one directory (directory extent crosses 1..4 sectors, long RR names so
    that more than one continuation sector is needed), then removals in drawn order."""
    c = cfg if cfg is not None else cfg_st()
    first = st.lists(add_dir(d=st.just(0), rsz=st.integers(0, 2)), min_size=0, max_size=1)
    adds = st.lists(st.one_of(add_fp(d=st.just(1), length=SMALL_LEN, rsz=st.one_of(st.integers(0, 2), st.integers(3, 6), st.integers(4, 8)), file=st.just(False)),
                              add_fp(d=st.just(1), length=SMALL_LEN, rsz=st.integers(3, 6), file=st.just(False)),
                              add_dir(d=st.just(1), rsz=st.integers(0, 6)),
                              add_sym), min_size=20, max_size=90)
    mid = st.lists(st.one_of(write, force, reopen) if reopen_ok else st.one_of(write, force), min_size=0, max_size=1)
    rms = st.lists(st.one_of(rm_file, rm_file, rm_file, rm_dir, rm_link, rm_sym), min_size=5, max_size=90)
    tail = st.lists(st.one_of(add_fp(d=st.just(1), length=SMALL_LEN), rm_file, query), min_size=0, max_size=6)
    return program(c, st.builds(lambda a, b, m, r, t: a + b + m + r + t, first, adds, mid, rms, tail))


def deep(cfg=None, reopen_ok=False):
    """Chains of directories to logical depth 9-17 (RR relocation at depth 8 and 16), files and
    symlinks inside relocated dirs, removal of relocated dirs."""
    c = cfg if cfg is not None else cfg_st(rr=st.sampled_from(['1.09', '1.10', '1.12', '1.09', None]), level=st.sampled_from([1, 2, 3, 3, 4]))
    last = st.just(-1)
    chain = st.lists(add_dir(d=last, ns=st.sampled_from([7, 7, 1, 3]), rsz=st.integers(0, 4), sz=st.integers(0, 2)), min_size=7, max_size=17)
    inside = st.lists(st.one_of(add_fp(d=st.one_of(last, I), length=SMALL_LEN), add_sym, add_dir(d=st.one_of(last, I)), add_link, hide, query),
                      min_size=1, max_size=8)
    mid = st.lists(st.one_of(write, force, reopen) if reopen_ok else st.one_of(write, force), min_size=0, max_size=1)
    rms = st.lists(st.one_of(rm_file, rm_dir, rm_dir, rm_dir, rm_sym, add_dir(d=last), add_dir(d=I)), min_size=0, max_size=14)
    return program(c, st.builds(lambda a, b, m, r: a + b + m + r, chain, inside, mid, rms))


def links(cfg=None, reopen_ok=False):
    """Blobs with 2-6 names across namespaces, zero-length blobs, link/unlink/rm_file
    interleavings, (optionally) reopen in the middle."""
    c = cfg if cfg is not None else cfg_st(joliet=st.sampled_from([3, 3, 1, None]), udf=st.sampled_from([True, True, False]))
    zero_or_small = st.sampled_from([0, 0, 0, 1, 2048, 2049, 70000, 5000])
    seed_ops = st.lists(st.one_of(add_fp(length=zero_or_small, d=st.sampled_from([0, 0, 1])), add_dir(d=st.just(0))), min_size=2, max_size=6)
    body_choices = [add_link, add_link, add_link, rm_link, rm_link, rm_file, add_fp(length=zero_or_small), add_sym, rm_sym, add_boot, rm_boot, link_cat, query, write]
    if reopen_ok:
        body_choices += [reopen, reopen]
    body = st.lists(st.one_of(*body_choices), min_size=4, max_size=25)
    return program(c, st.builds(lambda a, b: a + b, seed_ops, body))


BOOT_LEN = st.sampled_from([1, 63, 64, 2047, 2048, 2048, 2049, 10000, 512, 4096])


def boot(cfg=None, reopen_ok=False, hybrid=True):
    """El Torito (noemul / floppy / hdemul with generated MBRs), platform ids, sections,
    boot-info-table, hidden/unlinked boot files, isohybrid."""
    c = cfg if cfg is not None else cfg_st()
    files = st.lists(st.one_of(add_fp(length=BOOT_LEN, ck=st.sampled_from([1, 1, 2, 0]), ns=st.sampled_from([7, 7, 1, 3, 5]), d=st.sampled_from([0, 0, 1]), file=st.just(False)),
                               add_fp(length=st.sampled_from([1228800, 1474560]), ck=st.just(0), ns=st.just(1), d=st.just(0), file=st.just(False)),
                               add_fp(length=BOOT_LEN, ck=st.sampled_from([1, 1, 2, 0]), ns=st.sampled_from([7, 1]), d=st.just(0), file=st.just(False)),
                               add_dir(d=st.just(0))), min_size=1, max_size=5)
    boots = st.lists(st.one_of(add_boot, add_boot, add_boot, link_cat), min_size=1, max_size=4)
    many = st.lists(add_boot, min_size=28, max_size=34)       # (with the entries before: a catalogue that is full, or one short of it)
    body_choices = [add_fp(length=SMALL_LEN), rm_file, rm_link, rm_link, add_link, hide, query, write, force, add_boot, rm_boot, link_cat, dup_pvd, add_dir(), rm_catlink]
    if hybrid:
        body_choices += [add_hybrid, add_hybrid, rm_hybrid]
    if reopen_ok:
        body_choices += [reopen]
    body = st.lists(st.one_of(*body_choices), min_size=0, max_size=12)
    manyflag = st.sampled_from([0, 0, 0, 0, 0, 1])
    return program(c, st.builds(lambda f, b, mf, m, t: f + b + (m if mf else []) + t, files, boots, manyflag, many, body))


def manydirs(cfg=None):
    """230-400 directories so that a path table exceeds 4 KiB (and shrinks back)."""
    c = cfg if cfg is not None else cfg_st()
    adds = st.lists(add_dir(d=st.one_of(st.just(0), st.just(0), I), sz=st.sampled_from([1, 1, 2]), rsz=st.integers(0, 1)), min_size=230, max_size=400)
    rms = st.lists(st.one_of(rm_dir, rm_dir, add_fp(length=SMALL_LEN)), min_size=0, max_size=200)
    return program(c, st.builds(lambda a, r: a + r, adds, rms))


def ptedge(cfg=None, reopen_ok=False):
    """Path tables at the 4096-byte (two-sector) boundary: directories with identifiers of one exact length, as many
    as it takes to bring the table just below / just above 4096 bytes, then single removals and additions with a
    write after each, so that the table size steps through the window around the boundary one record at a time."""
    c = cfg if cfg is not None else cfg_st()

    def build(length, extra, steps, lead, mids, dup=0):
        rec = 8 + length + (length % 2)
        k0 = (4096 - 10) // rec                # this many records still fit in 4096 bytes together with the root's
        jl = {12: 2, 14: 3, 16: 4}[rec]         # Joliet records (8 + 2 * len) of the same size
        ops = []
        if dup == 1:
            ops.append({'k': 'dup_pvd'})           # a duplicate PVD that exists *before* the table crosses the boundary
        for i in range(k0 - 2 + extra):
            ops.append({'k': 'add_dir', 'd': 0, 'ns': 7, 'sz': 0, 'rsz': 0, 'usz': 0, 'lead': lead, 'salt': i, 'mode': None, 'reuse': 0,
                        'xl': {'iso': length, 'rr': 6, 'jol': jl, 'udf': 6}})
        if dup == 2:
            ops.append({'k': 'dup_pvd'})
        ops.append({'k': 'write'})
        for j, s_ in enumerate(steps):
            if s_ == 0:
                ops.append({'k': 'rm_dir', 'd': 1 + (lead * 7 + j * 13) % 200, 'ns': 7})
            elif s_ == 1:
                ops.append({'k': 'add_dir', 'd': 0, 'ns': 7, 'sz': 0, 'rsz': 0, 'usz': 0, 'lead': lead + 1, 'salt': 500 + j, 'mode': None, 'reuse': 0,
                            'xl': {'iso': length, 'rr': 6, 'jol': jl, 'udf': 6}})
            else:
                ops.append(mids[j % len(mids)] if mids else {'k': 'query', 'q': 0, 'i': 0})
            ops.append({'k': 'write'})
        return ops
    mid_choices = [query, force, add_fp(d=st.just(0), length=SMALL_LEN)]
    if reopen_ok:
        mid_choices.append(reopen)
    return program(c, st.builds(build, st.sampled_from([4, 5, 6, 7, 8, 8]), st.integers(0, 6), st.lists(st.sampled_from([0, 0, 0, 1, 1, 2]), min_size=4, max_size=12),
                                st.integers(0, 30), st.lists(st.one_of(*mid_choices), min_size=0, max_size=3), st.sampled_from([0, 0, 1, 1, 2])))


def any_profile(reopen_ok=False, weights=None, with_manydirs=False):
    w = weights or {'mixed': 5, 'growshrink': 2, 'deep': 2, 'links': 3, 'boot': 2}
    table = {'mixed': mixed(reopen_ok), 'growshrink': growshrink(reopen_ok=reopen_ok), 'deep': deep(reopen_ok=reopen_ok),
             'links': links(reopen_ok=reopen_ok), 'boot': boot(reopen_ok=reopen_ok)}
    if with_manydirs:
        table['manydirs'] = manydirs()
    if 'exactfill' in w:
        table['exactfill'] = exactfill(reopen_ok=reopen_ok)
    if 'cegap' in w:
        table['cegap'] = cegap(reopen_ok=reopen_ok)
    if 'samename' in w:
        table['samename'] = samename(reopen_ok=reopen_ok)
    if 'ptedge' in w:
        table['ptedge'] = ptedge(reopen_ok=reopen_ok)
    if 'bootlinks' in w:
        table['bootlinks'] = bootlinks(reopen_ok=reopen_ok)
    if 'reloctwins' in w:
        table['reloctwins'] = reloctwins(reopen_ok=reopen_ok)
    if 'twoboots' in w:
        table['twoboots'] = twoboots(reopen_ok=reopen_ok)
    if 'linktwins' in w:
        table['linktwins'] = linktwins(reopen_ok=reopen_ok)
    if 'udflinks' in w:
        table['udflinks'] = udflinks(reopen_ok=reopen_ok)
    if 'fullcat' in w:
        table['fullcat'] = fullcat(reopen_ok=reopen_ok)
    if 'readd' in w:
        table['readd'] = readd(reopen_ok=reopen_ok)
    if 'symcomps' in w:
        table['symcomps'] = symcomps(reopen_ok=reopen_ok)
    if 'rrfull' in w:
        table['rrfull'] = rrfull(reopen_ok=reopen_ok)
    alts = []
    for name, n in w.items():
        s = table[name].map(lambda p, name=name: dict(p, profile=name))
        alts += [s] * n
    return st.one_of(*alts)


def with_reopens(base, min_r=1, max_r=3):
    """Insert 1-3 reopen ops at drawn positions (so every program has >= 1 generation)."""
    def ins(p, positions, styles=()):
        ops = list(p['ops'])
        for k, pos in enumerate(sorted(positions)):
            i = min(len(ops), (pos * (len(ops) + 1)) // 1000 + k)
            ro = {'k': 'reopen'}
            if (pos // 3) % 2 == 1:
                ro['same'] = 1
            if pos % 3 == 0:
                # open a re-laid-out ("foreign") version of the image instead (when eligible)
                ro['relayout'] = [pos, pos // 3, pos // 7, 11, 5, pos % 13, 2, 7]
                ro['shrinkvs'] = (pos % 2 == 0)
            elif pos % 3 == 1 and FOREIGN_ON:
                # open an independently re-mastered version (vf/indep/remaster.py) instead (when eligible)
                ro['foreign'] = foreign_style(pos * 7919 + (styles[k % len(styles)] if styles else 0))
            ops.insert(i, ro)
        out = []
        for i, o in enumerate(ops):
            o = dict(o)
            o['n'] = i + 1
            out.append(o)
        return dict(p, ops=out)
    return st.builds(ins, base, st.lists(st.integers(150, 850), min_size=min_r, max_size=max_r), st.lists(st.integers(0, 1 << 30), min_size=1, max_size=3))


FOREIGN_ON = os.environ.get('VF_FOREIGN', '1') == '1'      # VF_FOREIGN=0 turns the re-mastering stand-in off (triage)
BUDGETS = [255, 254, 230, 200, 180, 160, 140, 120, 110, 100, 96, 90, 84, 80, 76, 70, 64, 60, 50, 40]


def foreign_style(x):
    """Style of the independent re-mastering, decoded from one drawn integer (so that it shrinks and replays as data)."""
    x0 = x

    def take(n):
        nonlocal x
        x, r = divmod(x, n)
        return r
    return {'ecma': bool((x0 * 2654435761 >> 9) & 1), 'alien': ((x0 * 40503 >> 5) & 7) if (x0 * 40503 >> 8) & 1 else 0, 'family': take(3), 'su_order': take(5), 'keep_rr': bool(take(2)), 'budget': BUDGETS[take(len(BUDGETS))], 'split_nm': bool(take(2)),
            'split_sl': bool(take(2)), 'greedy': bool(take(2)), 'gap': take(3), 'zero': take(4), 'pad': (0, 0, 150, 3)[take(4)], 'mki': bool(take(2)),
            'dfs': bool(take(2)), 'jfirst': bool(take(2)), 'perm': [take(11) + 1 for _ in range(6)]}



def hybrid(cfg=None, reopen_ok=False):
    """isohybrid images by construction: a 2048-byte boot file carrying the isolinux signature is the
    initial El Torito entry (load size 4), optional further 0xef entries of different sizes, then
    add_isohybrid with drawn geometry/partition parameters, then edits that move the boot files."""
    c = cfg if cfg is not None else cfg_st()
    bootfile = add_fp(length=st.sampled_from([2048, 2048, 1024, 68, 4096]), ck=st.just(1), ns=st.sampled_from([7, 1, 3]), d=st.just(0), file=st.just(False))
    first = st.builds(lambda o, pl: dict(o, b=0, j=0, media=0, plat=pl, load=4, efi=False), add_boot, st.sampled_from([0, 0, 0, 3, 4]))      # (plat is an index: 3 -> platform 1, 4 -> platform 2)
    efifile = add_fp(length=st.sampled_from([5000, 2048, 70000, 1]), ck=st.just(0), ns=st.sampled_from([7, 1]), d=st.just(0), file=st.just(False))
    efiboot = add_boot.map(lambda o: dict(o, b=1, j=0, media=0, efi=True, load=None))

    def flat(l):
        out = []
        for k, (f, b) in enumerate(l):
            out += [f, dict(b, b=k + 1)]       # each EFI/Mac entry boots its own image
        return out
    efi_part = st.lists(st.tuples(efifile, efiboot), min_size=0, max_size=2).map(flat)
    pre = st.lists(st.one_of(add_fp(length=SMALL_LEN), add_dir()), min_size=0, max_size=3)
    body_choices = [add_fp(length=SMALL_LEN), add_fp(length=st.sampled_from([600000, 70000])), rm_file, add_dir(), query, write, force, add_hybrid, rm_hybrid, add_link, hide, rm_boot]
    if reopen_ok:
        body_choices.append(reopen)
    body = st.lists(st.one_of(*body_choices), min_size=0, max_size=8)
    x86file = add_fp(length=st.sampled_from([3000, 2048, 10000]), ck=st.just(0), ns=st.sampled_from([7, 1]), d=st.just(0), file=st.just(False))
    x86boot = add_boot.map(lambda o: dict(o, j=0, media=0, plat=0, efi=False, load=None))
    x86_part = st.one_of(st.just([]), st.just([]), st.tuples(x86file, x86boot).map(list))

    # a partition offset of 256 cylinders and more (the CHS fields split the cylinder number over two bytes): tiny geometry, an
    # image that is larger than the offset
    bigoff = st.one_of(st.none(), st.none(), st.none(), st.tuples(st.integers(1, 2), st.integers(1, 3), st.integers(256, 1100)))

    def assemble(bf, f, e, p, h, b, consistent, x86=(), big=None, lnk=None):
        if e and lnk is not None:
            # another ISO9660 name for the first EFI image (an entry is listed once per name of its boot file)
            p = p + [dict(lnk, b=1, j=0, to=0, d=0)]
        if big is not None:
            p = p + [{'k': 'add_fp', 'd': 0, 'ns': 1, 'len': 600000, 'sz': 1, 'rsz': 1, 'usz': 1, 'lead': 7, 'salt': 7, 'mode': None, 'ck': 0, 'file': False, 'reuse': 0}]
            h = dict(h, gs=big[0], gh=big[1], po=big[2])
        if x86:
            # a further entry for the x86 platform with an image of its own (the hybrid boot sector must keep loading the initial entry's file)
            e = e + [x86[0], dict(x86[1], b=len(e) // 2 + 1)]
        if e and consistent == 'shared':
            # the first EFI entry boots the very file the initial entry boots (one image, two entries)
            e = [e[0], dict(e[1], b=0)] + e[2:]
        if consistent:
            # efi/mac flags that match the number of 0xef entries (the mismatch is the known finding hybrid-efi-count)
            n = len(e) // 2 - (1 if x86 else 0)
            h = dict(h, efi=(True if n >= 1 else None), mac=(n == 2), pt=(None if n else h.get('pt')))
        return [bf, f] + e + p + [h] + b
    return program(c, st.builds(assemble, bootfile, first, efi_part, pre, add_hybrid, body, st.sampled_from([True, True, True, 'shared', False]), x86_part, bigoff, st.one_of(st.none(), st.none(), add_link)))


_old_any_profile = any_profile


def any_profile(reopen_ok=False, weights=None, with_manydirs=False):
    w = dict(weights or {'mixed': 5, 'growshrink': 2, 'deep': 2, 'links': 3, 'boot': 2, 'exactfill': 1})
    nh = w.pop('hybrid', 1)
    base = _old_any_profile(reopen_ok, w, with_manydirs)
    total = sum(w.values())
    hyb = hybrid(reopen_ok=reopen_ok).map(lambda p: dict(p, profile='hybrid'))
    return st.one_of(*([base] * max(1, total // max(nh, 1) // 2) + [hyb])) if nh else base


def samename(cfg=None, reopen_ok=True):
    """The same names in several directories: files that share a name (different content) and hard links that
    keep the name of their target in another directory (the everyday hard link), then unlink / remove / add
    interleavings with optional reopen - anything that identifies an entry by its name or record fields instead
    of its place shows here."""
    c = cfg if cfg is not None else cfg_st(joliet=st.sampled_from([3, 3, 1, None]), udf=st.sampled_from([True, False, False]))
    R = st.integers(1, 1 << 16)
    dirs = st.lists(add_dir(d=st.sampled_from([0, 0, 1])), min_size=2, max_size=4)
    files = st.lists(add_fp(d=I, length=st.sampled_from([1, 300, 2049, 5000, 0]), file=st.just(False)), min_size=1, max_size=3)
    twins = st.lists(st.builds(lambda o, r: dict(o, reuse=r), add_fp(d=I, length=st.sampled_from([2, 301, 2050, 0]), file=st.just(False)), R), min_size=1, max_size=4)
    lnk = st.builds(lambda o, r: dict(o, reuse=r), add_link, R)
    body_choices = [lnk, lnk, lnk, rm_link, rm_link, rm_link, rm_file, add_fp(d=I, length=SMALL_LEN), add_dir(d=st.just(0)), rm_dir, write, query, force]
    if reopen_ok:
        body_choices += [reopen, reopen]
    body = st.lists(st.one_of(*body_choices), min_size=6, max_size=24)
    return program(c, st.builds(lambda a, b, t, l, x: a + b + t + l + x, dirs, files, twins, st.lists(lnk, min_size=2, max_size=5), body))


def linktwins(cfg=None, reopen_ok=True):
    """The everyday hard link, then its removal: a file in one directory, a link to it under the *same* name in another
    directory (same namespace), optionally a reopen, the later name removed again with rm_hard_link, then an edit that moves
    file data (a new directory), a write.  Anything that tells the two records apart by their fields instead of by what they
    are confuses them here."""
    c = cfg if cfg is not None else cfg_st(joliet=st.sampled_from([3, None, None]), udf=st.sampled_from([False, False, True]))

    def build(a, b, files, k, lnk, mid, which, shift, tail):
        ops = [dict(a, d=0, reuse=0), dict(b, d=0, reuse=0)]
        ops += [dict(f, d=1, reuse=0) for f in files]                       # files in the first directory
        ops.append(dict(lnk, b=k % len(files), j=0, to=0, d=2, reuse=7, symsrc=0, dupnew=0, within=(lnk.get('within', 0) if lnk.get('within') in (1, 2) else 0)))      # ... one of them also in the second, same name (ISO9660, or Joliet when drawn)
        ops += mid
        ops.append({'k': 'rm_link', 'b': k % len(files), 'j': which})        # sorted names: the first directory's comes first
        ops += shift
        ops.append({'k': 'write'})
        return ops + tail
    F = add_fp(length=st.sampled_from([300, 2049, 5000, 7000]), file=st.just(False), ns=st.sampled_from([7, 7, 1]))
    mids = [st.just([]), st.just([{'k': 'write'}]), st.just([{'k': 'force'}])]
    if reopen_ok:
        mids += [st.just([{'k': 'reopen'}]), st.just([{'k': 'reopen'}])]
    shift = st.lists(st.one_of(add_dir(d=st.just(0)), add_dir(d=st.just(0)), add_fp(length=SMALL_LEN, d=st.just(0))), min_size=1, max_size=2)
    tail = st.lists(st.one_of(rm_file, add_fp(length=SMALL_LEN), query, add_dir(d=st.just(0))), min_size=0, max_size=3)
    return program(c, st.builds(build, add_dir(), add_dir(), st.lists(F, min_size=1, max_size=3), I, add_link, st.one_of(*mids), st.sampled_from([1, 1, 0]), shift, tail))


def udflinks(cfg=None, reopen_ok=True):
    """Files (some of them empty) with a UDF name, a second UDF name for each (add_hard_link udf -> udf: both names share one
    File Entry), a reopen, then one of the two names goes / something is added, and the image is written again."""
    c = cfg if cfg is not None else cfg_st(udf=st.just(True))

    def build(files, links, mid, edits, tail):
        ops = [dict(f, d=0, reuse=0, ns=(f.get('ns', 7) | 4)) for f in files]
        ops += [dict(l, b=k, j=0, d=0, within=3, symsrc=0, dupnew=0, reuse=0) for k, l in enumerate(links[:len(files)])]
        ops += mid
        ops += edits
        ops.append({'k': 'write'})
        return ops + tail
    F = add_fp(length=st.sampled_from([0, 0, 1, 300, 2049, 5000]), file=st.just(False), ns=st.sampled_from([7, 5, 4]))
    mids = [st.just([{'k': 'write'}])]
    if reopen_ok:
        mids += [st.just([{'k': 'reopen'}]), st.just([{'k': 'reopen'}]), st.just([{'k': 'reopen'}])]
    E = st.lists(st.one_of(rm_link, rm_link, add_fp(length=SMALL_LEN, d=st.just(0)), add_dir(d=st.just(0)), rm_file), min_size=1, max_size=4)
    tail = st.lists(st.one_of(rm_link, rm_file, add_fp(length=SMALL_LEN), write), min_size=0, max_size=3)
    if reopen_ok:
        tail = st.lists(st.one_of(rm_link, rm_file, add_fp(length=SMALL_LEN), write, reopen), min_size=0, max_size=3)
    return program(c, st.builds(build, st.lists(F, min_size=1, max_size=3), st.lists(add_link, min_size=3, max_size=3), st.one_of(*mids), E, tail))


def fullcat(cfg=None, reopen_ok=False):
    """A boot catalogue that is exactly full (initial entry + 31 sections fill its sector to the last byte) or one entry short
    of it, on boot files of arbitrary content (so that what follows the catalogue on the image does not look like padding)."""
    c = cfg if cfg is not None else cfg_st()
    BF = add_fp(length=st.sampled_from([2048, 3000, 5000]), ck=st.just(0), ns=st.sampled_from([7, 1, 3]), d=st.just(0), file=st.just(False))

    def build(bfs, boots, n, tail):
        ops = list(bfs)
        for k in range(n):
            ops.append(dict(boots[k % len(boots)], b=k % len(bfs), j=0, media=0, load=[None, 4, 1][k % 3], salt=(boots[k % len(boots)].get('salt', 0) + k) % 1000))
        return ops + [{'k': 'write'}] + tail
    tail_choices = [add_fp(length=SMALL_LEN), rm_boot, write, query, add_dir(d=st.just(0))]
    if reopen_ok:
        tail_choices += [reopen, reopen]
    return program(c, st.builds(build, st.lists(BF, min_size=1, max_size=3), st.lists(add_boot, min_size=4, max_size=4), st.sampled_from([32, 32, 31, 33]),
                                st.lists(st.one_of(*tail_choices), min_size=0, max_size=4)))


def biglinks(cfg=None, reopen_ok=True):
    """Link/unlink/remove interleavings inside directories that span several sectors, with
    records of different lengths (so that a removal in one sector leaves the later sectors'
    layout unchanged): 45-110 files with mixed name sizes in one or two directories, then
    hard links, rm_hard_link, rm_file, more adds, optional reopen."""
    c = cfg if cfg is not None else cfg_st()
    first = st.lists(add_dir(d=st.just(0), rsz=st.integers(0, 1)), min_size=0, max_size=1)
    fill = st.lists(add_fp(d=st.sampled_from([0, 1, 1]), length=st.sampled_from([0, 1, 1, 300, 2049]), rsz=st.integers(0, 2), file=st.just(False)),
                    min_size=45, max_size=110)
    body_choices = [rm_link, rm_link, rm_file, rm_file, add_link, add_link, add_fp(d=st.sampled_from([0, 1]), length=st.sampled_from([0, 1, 300])), write, query, rm_sym, add_sym]
    if reopen_ok:
        body_choices.append(reopen)
    body = st.lists(st.one_of(*body_choices), min_size=6, max_size=30)
    return program(c, st.builds(lambda a, f, b: a + f + b, first, fill, body))


def bootlinks(cfg=None, reopen_ok=True):
    """A boot file that is also an ordinary multiply-named file: names in two or three namespaces (plus hard
    links), one or two El Torito entries on it (load size shorter than, equal to or unrelated to the file's
    length), then its names go away one at a time - the ISO9660 name first - with reopens, re-links, unrelated
    edits and rm_eltorito in between.  Content referenced by a catalogue entry *and* by names of other
    namespaces is what neither the links nor the boot profile produces by construction."""
    c = cfg if cfg is not None else cfg_st(joliet=st.sampled_from([3, 3, 1, None]), udf=st.sampled_from([True, True, False]))
    bootfile = add_fp(length=st.sampled_from([2748, 10000, 2048, 5000, 70000, 64, 2049]), ck=st.sampled_from([1, 0]), ns=st.sampled_from([7, 7, 3, 5]), d=st.just(0),
                      file=st.just(False))
    other = st.lists(st.one_of(add_fp(length=SMALL_LEN, d=st.just(0)), add_fp(length=st.sampled_from([7000, 10000, 20000]), d=st.just(0), file=st.just(False)), add_dir(d=st.just(0))),
                     min_size=0, max_size=3)
    on0 = lambda o: dict(o, b=0)
    boots = st.integers(0, 3).flatmap(lambda n: st.lists(st.builds(lambda o, ld: dict(o, b=0, media=0, load=ld), add_boot, st.sampled_from([None, None, 4, 4, 1, 8])), min_size=min(n, 1) + 1, max_size=min(n, 1) + 1))
    prelinks = st.lists(add_link.map(on0), min_size=0, max_size=2)
    unlink_iso = st.just([{'k': 'rm_link', 'b': 0, 'j': 0}])
    mid_choices = [st.just([]), st.just([{'k': 'write'}])]
    if reopen_ok:
        mid_choices += [st.just([{'k': 'reopen'}]), st.just([{'k': 'reopen'}])]
    body_choices = [rm_link.map(on0), rm_link.map(on0), add_link.map(on0), add_fp(length=SMALL_LEN), rm_file, rm_boot, add_boot.map(on0), query, write, force, add_dir(d=st.just(0)),
                    link_cat, rm_catlink, rm_catlink]
    if reopen_ok:
        body_choices += [reopen]
    body = st.builds(lambda first, rest: first + rest, st.lists(add_fp(length=st.sampled_from([5000, 3]), d=st.just(0), file=st.just(False)), min_size=0, max_size=1), st.lists(st.one_of(*body_choices), min_size=2, max_size=12))
    # 'hideall': every name of the boot file goes, then (after a reopen) El Torito itself - the content's last reference
    hideall = st.sampled_from([[], [], [{'k': 'rm_link', 'b': 0, 'j': 0}] * 4 + ([{'k': 'reopen'}] if reopen_ok else [{'k': 'write'}]) + [{'k': 'rm_boot'}, {'k': 'write'}]])
    plain = st.builds(lambda f, o, b, p, u, m, h, t: [f] + o + b + p + u + m + h + t, bootfile, other, boots, prelinks, unlink_iso, st.one_of(*mid_choices), hideall, body)
    # a diskette image (floppy emulation: the catalogue entry's sector count is 1, the image is the whole medium) that loses its
    # only name, a reopen, then edits
    floppy = st.builds(lambda f, o, b, m, t: [f] + o + [dict(b, b=0, j=0, media=3, load=None, efi=False, bit=False)] + [{'k': 'rm_link', 'b': 0, 'j': 0, 'bo': 1}] + m + t,
                       add_fp(length=st.sampled_from([1474560, 1228800]), ck=st.just(0), ns=st.just(1), d=st.just(0), file=st.just(False)), other, add_boot,
                       st.one_of(*mid_choices), body)
    return program(c, weighted([(plain, 9), (floppy, 1)]))


def twoboots(cfg=None, reopen_ok=True):
    """Two or three *different* boot files added one right after the other (neighbours in whatever order the library
    keeps content in), one catalogue entry on each (the second and third become sections), then every name of every one
    of them goes (`bo` picks names of boot-referenced content only) so that the catalogue is their last reference, and
    El Torito itself is removed - optionally after a write or a reopen - and the image goes on being edited."""
    c = cfg if cfg is not None else cfg_st(joliet=st.sampled_from([3, None, None]), udf=st.sampled_from([False, False, True]))
    BF = add_fp(length=st.sampled_from([2748, 5000, 7000, 9000, 2048, 64]), ck=st.sampled_from([1, 0]), ns=st.sampled_from([7, 1, 1, 3]), d=st.just(0), file=st.just(False))
    other = st.lists(add_fp(length=st.sampled_from([3, 5000, 7000, 2048]), d=st.just(0), file=st.just(False)), min_size=0, max_size=2)

    def build(before, bfs, after, bootkw, mid, hide_n, mid2, tail, samename=None):
        n0 = len(before)
        if samename is not None:
            # the second boot file has the first one's names, in a directory of its own (anything that orders or finds boot
            # files by name has a tie to break); a recomputation may come between the two add_eltorito calls
            bfs = [bfs[0], dict(samename[0], d=0), dict(bfs[1], d=-1, reuse=2 * n0 + 1)]
            ops = before + bfs + after
            ops.append(dict(bootkw[0], b=n0, j=0, media=0, load=None, efi=0))
            ops += samename[1]
            ops.append(dict(bootkw[1], b=n0 + 1, j=0, media=0, load=None, efi=0))
            return ops + mid + tail
        ops = before + bfs + after
        for k in range(len(bfs)):
            ops.append(dict(bootkw[k], b=n0 + k, j=0, media=0, load=None, efi=(k > 0 and bootkw[k].get('efi', 0))))
        ops += mid
        ops += [{'k': 'rm_link', 'b': 0, 'j': 0, 'bo': 1}] * hide_n
        ops += mid2
        ops += [{'k': 'rm_boot'}, {'k': 'write'}]
        return ops + tail
    mids = [st.just([]), st.just([{'k': 'write'}])]
    if reopen_ok:
        mids += [st.just([{'k': 'reopen'}])]
    tail = st.lists(st.one_of(add_fp(length=SMALL_LEN), rm_file, write, add_dir(d=st.just(0)), add_boot), min_size=0, max_size=4)
    between = st.sampled_from([[], [{'k': 'force'}], [{'k': 'write'}], [{'k': 'query', 'q': 0, 'i': 1}]])
    return program(c, st.builds(build, other, st.lists(BF, min_size=2, max_size=3), other, st.lists(add_boot, min_size=3, max_size=3), st.one_of(*mids),
                                st.sampled_from([12, 12, 12, 3, 1]), st.one_of(*mids), tail,
                                st.one_of(st.none(), st.none(), st.tuples(add_dir(d=st.just(0)), between))))


def relocname(cfg=None, reopen_ok=False):
    """The default names of the relocation directory are taken by a directory of the user's: a chain of seven directories,
    the (refused) attempt to add an eighth, then a relocation directory name of the user's choice and the eighth level
    again - with edits in between and afterwards."""
    c = cfg if cfg is not None else cfg_st(rr=st.sampled_from(['1.09', '1.10', '1.12']), level=st.sampled_from([1, 2, 3, 3]))
    D = add_dir(ns=st.sampled_from([7, 7, 1, 3]), rsz=st.integers(0, 3), sz=st.integers(0, 2))

    def build(mine, rrm, chain, b, sr, deep, between, tail, variant=0):
        # variant 1: nobody has taken the names; the refused call is a directory at the eighth level whose Rock Ridge name is
        # too long for a continuation area (refused on the relocation path, before or after the relocation directory is made?)
        ops = [dict(mine, d=0, reuse=0, rrm=(0 if variant else rrm))]
        ops += [dict(o, d=(0 if k == 0 else -1), reuse=0, rrm=0) for k, o in enumerate(chain)]
        ops.append(dict(b, row=('add_directory/rr-name-longer-than-a-block' if variant else 'add_directory/relocation-name-taken')))
        ops += between
        ops.append(sr)
        ops.append(dict(deep, d=7, reuse=0, rrm=0))        # pool of directories: root, the user's, the seven of the chain -> index 7 + 1 is the end of the chain
        ops.append(dict(deep, d=8, reuse=0, rrm=0, salt=(deep.get('salt', 0) + 1) % 1000))
        return ops + tail
    tail_choices = [rm_dir, add_fp(d=I, length=SMALL_LEN), write, query, add_dir(d=I)]
    if reopen_ok:
        tail_choices += [reopen]
    return program(c, st.builds(build, D, st.sampled_from([1, 1, 2, 3]), st.lists(D, min_size=7, max_size=7), bad, set_reloc, D,
                                st.lists(st.one_of(add_fp(d=st.just(0), length=SMALL_LEN), write, query), min_size=0, max_size=2),
                                st.lists(st.one_of(*tail_choices), min_size=0, max_size=5), st.sampled_from([0, 0, 1])))


def reloctwins(cfg=None, reopen_ok=False):
    """Two (or three) relocated directories that have the *same* names in different parents: a chain of six
    directories, below its end the siblings G and H (depth 7), and in each of them a directory X (depth 8, so it
    is relocated) - the second and third X take the first one's names (`reuse`).  Files inside each, then edits."""
    c = cfg if cfg is not None else cfg_st(rr=st.sampled_from(['1.09', '1.10', '1.12']), level=st.sampled_from([1, 2, 3, 3]))

    def build(chain, g, x, fx, h, x2, fx2, third, tail, custom=None, teardown=0):
        ops = [custom] if custom else []      # optionally a relocation directory with a name of the user's choice
        ops += [dict(o, d=-1, reuse=0) for o in chain]
        ops.append(dict(g, d=-1, reuse=0))          # G, depth 7
        ops.append(dict(x, d=-1, reuse=0))          # G/X, depth 8: relocated
        ops.append(dict(fx, d=-1))
        ops.append(dict(h, d=6, reuse=0))           # H next to G
        ops.append(dict(x2, d=-1, reuse=7, twin=1))         # H/X: pool holds the six of the chain, G, X, H -> index 7 is X
        ops.append(dict(fx2, d=-1))
        if third:
            ops.append(dict(h, d=6, reuse=0, salt=(h.get('salt', 0) + 1) % 1000))
            ops.append(dict(x2, d=-1, reuse=7, twin=1, salt=(x2.get('salt', 0) + 1) % 1000))
        if teardown:
            # everything is given back, bottom-up (the relocation directory goes with its last relocated directory), then a
            # relocated directory is added once more
            tail = tail + [{'k': 'rm_file', 'b': 0, 'j': 0}] * 8 + [{'k': 'rm_sym', 'i': 0}] * 4 + [{'k': 'rm_dir', 'd': 0, 'ns': 7}] * (3 if teardown == 1 else 16) + [{'k': 'write'}]
        return ops + tail
    D = add_dir(ns=st.sampled_from([7, 7, 1, 3]), rsz=st.integers(0, 3), sz=st.integers(0, 2))
    F = add_fp(length=SMALL_LEN, file=st.just(False))
    tail_choices = [rm_file, rm_dir, rm_dir, add_fp(d=I, length=SMALL_LEN), add_sym, query, write, hide, add_dir(d=I)]
    if reopen_ok:
        tail_choices += [reopen, reopen]
    return program(c, st.builds(build, st.lists(D, min_size=6, max_size=6), D, D, F, D, D, F, st.booleans(), st.lists(st.one_of(*tail_choices), min_size=0, max_size=10),
                                st.one_of(st.none(), st.none(), set_reloc), st.sampled_from([0, 0, 1, 2])))


def readd(cfg=None, reopen_ok=False):
    """Take a small tree down and build it again under the *same* names: a chain of two or three directories
    (optionally with files), removed bottom-up with rm_directory (no file removal in between when the chain holds
    no files), then the same directories again (`reuse` picks the names by their position in the model's pool),
    then new files and sub-directories inside.  Anything keyed by a path or a name - lookup caches, name indexes,
    duplicate checks - sees a name that existed, was removed and exists again."""
    c = cfg if cfg is not None else cfg_st()

    def build(depth, dirs, files, with_files, mid, tail, twice, look=(0, 0, 1)):
        ops = []
        for k in range(depth):
            ops.append(dict(dirs[k], d=(0 if k == 0 else -1), reuse=0, ns=7))
        nfiles = 0
        if with_files:
            for f in files[:2]:
                ops.append(dict(f, d=-1, reuse=0))
                nfiles += 1
        if look[0] == 1:
            # address an entry by its Rock Ridge path (where there is one) before it goes away ...
            ops.append({'k': 'hide', 'i': look[1], 'via': 1, 'on': 1})
        elif look[0] == 2:
            # ... or only look it up (a query that a schedule of C06 may or may not have made as well)
            ops.append({'k': 'query', 'q': 0, 'i': 2 * look[1] + 1})
        ops += mid
        ops += [{'k': 'rm_file', 'b': 0, 'j': 0}] * nfiles
        ops += [{'k': 'rm_dir', 'd': 0, 'ns': 7}] * depth
        for rnd in range(2 if twice else 1):
            for k in range(depth):
                # the pool of directory names holds the `depth` fresh draws in creation order: index k is the k-th of the chain
                ops.append(dict(dirs[k], d=(0 if k == 0 else -1), reuse=(k if k else depth), ns=7))
            if with_files:
                for j in range(nfiles):
                    ops.append(dict(files[j], d=-1, reuse=(j if j else nfiles)))       # the files come back under their names as well
            if rnd == 0 and twice:
                ops += [{'k': 'rm_file', 'b': 0, 'j': 0}] * nfiles
                ops += [{'k': 'rm_dir', 'd': 0, 'ns': 7}] * depth
        if look[0] != 3:
            # ... and again once it is back (look[0] == 0: without any earlier lookup of the program's own)
            ops.append({'k': 'hide', 'i': look[1], 'via': 1, 'on': look[2]})
        return ops + tail
    D = add_dir(rsz=st.integers(0, 2), sz=st.integers(0, 2))
    F = add_fp(length=SMALL_LEN, file=st.just(False))
    mid_choices = [query, force, write]
    tail_choices = [add_fp(d=st.just(-1), length=SMALL_LEN), add_fp(d=I, length=SMALL_LEN), add_dir(d=st.just(-1)), add_sym, query, write, rm_file, rm_dir, add_link]
    if reopen_ok:
        mid_choices.append(reopen)
        tail_choices.append(reopen)
    return program(c, st.builds(build, st.sampled_from([2, 2, 3]), st.lists(D, min_size=3, max_size=3), st.lists(F, min_size=2, max_size=2), st.booleans(),
                                st.lists(st.one_of(*mid_choices), min_size=0, max_size=2), st.lists(st.one_of(*tail_choices), min_size=1, max_size=8), st.booleans(),
                                st.tuples(st.integers(0, 3), st.integers(0, 4), st.integers(0, 1))))


def symcomps(cfg=None, reopen_ok=False):
    """Symbolic links whose targets consist of many short components: a run of links with consecutive component
    counts (so that every count in a window of 10-25 occurs), component length 1-3, link names of several sizes
    (the room the directory record has left for the first SL entry varies with them)."""
    c = cfg if cfg is not None else cfg_st(rr=st.sampled_from(['1.09', '1.10', '1.12']))

    def build(base, count, clen, head, rsz, lead, salt, form, post):
        ops = []
        for i in range(count):
            ops.append({'k': 'add_sym', 'd': 0, 'form': form, 'jol': False, 'tgt': 0, 'sz': 0, 'rsz': rsz, 'usz': 0, 'lead': lead, 'salt': salt, 'reuse': 0,
                        'tc': [clen, base + i, head]})
        return ops + post
    post_choices = [write, query, rm_sym, add_fp(d=st.just(0), length=SMALL_LEN)]
    if reopen_ok:
        post_choices += [reopen]
    return program(c, st.builds(build, st.integers(1, 110), st.integers(10, 25), st.integers(1, 3), st.integers(0, 5), st.integers(0, 4), I, I,
                                st.sampled_from([0, 0, 1]), st.lists(st.one_of(*post_choices), min_size=0, max_size=3)))


def rrfull(cfg=None, reopen_ok=False):
    """Directory records that Rock Ridge fills to the last byte: interchange level 4, ISO9660 identifiers of
    consecutive lengths around the longest one Rock Ridge still leaves room for (165..200 bytes, 150..190 with XA),
    Rock Ridge names of 1-6 bytes (so that the alternate name has to be split with only a few bytes, or none, left
    in the record), files and directories."""
    c = cfg if cfg is not None else cfg_st(level=st.just(4), rr=st.sampled_from(['1.09', '1.10', '1.12']))

    def build(base, count, rrk, lead, dirs, post):
        ops = []
        for i in range(count):
            k = 1 + (rrk + i) % 6
            xl = {'iso': base + i, 'rr': k, 'jol': 5, 'udf': 7}
            if dirs and i % 3 == 2:
                ops.append({'k': 'add_dir', 'd': 0, 'ns': 1, 'sz': 0, 'rsz': 0, 'usz': 0, 'lead': lead, 'salt': i, 'mode': None, 'reuse': 0, 'xl': xl})
            else:
                ops.append({'k': 'add_fp', 'd': 0, 'ns': 1, 'len': [0, 1, 2049][i % 3], 'sz': 0, 'rsz': 0, 'usz': 0, 'lead': lead, 'salt': i, 'mode': None, 'ck': 0,
                            'file': False, 'reuse': 0, 'xl': xl})
        return ops + post
    post_choices = [write, query, rm_file, add_fp(d=st.just(0), length=SMALL_LEN)]
    if reopen_ok:
        post_choices += [reopen]
    return program(c, st.builds(build, st.integers(150, 192), st.integers(6, 14), st.integers(0, 5), I, st.booleans(), st.lists(st.one_of(*post_choices), min_size=0, max_size=3)))


def _recipe(target, sizes, picks):
    """Multiset of record sizes (from `sizes`) summing exactly to `target`, steered by drawn integers."""
    reach = [False] * (target + 1)
    reach[0] = True
    for t in range(1, target + 1):
        reach[t] = any(t >= z and reach[t - z] for z in sizes)
    if not reach[target]:
        return None
    out, t, k = [], target, 0
    while t > 0:
        opts = [z for z in sizes if t >= z and reach[t - z]]
        z = opts[picks[k % len(picks)] % len(opts)]
        k += 1
        out.append(z)
        t -= z
    return out


def exactfill(cfg=None, reopen_ok=False):
    """Directories whose records (ISO9660 or Joliet records, or UDF file identifiers) add up to
    *exactly* one or two sectors at some record boundary, then one or more further entries - the
    boundary case of every 'does the next record still fit' comparison."""
    c = cfg if cfg is not None else cfg_st(rr=st.just(None), xa=st.just(False))

    def build(target_ns, nsect, picks, order, extra, tail, subdir):
        ops = []
        d = 0
        if subdir:
            ops.append({'k': 'add_dir', 'd': 0, 'ns': 7, 'sz': 0, 'rsz': 0, 'usz': 0, 'lead': 1, 'salt': 0, 'mode': None})
            d = 1
        if target_ns == 'iso':
            # record = 33 + L (+1 if L even); "." and ".." take 68 bytes
            sizes = {7: 40, 8: 42, 9: 42, 10: 44, 11: 44}
            rec = _recipe(2048 * nsect - 68, sorted(set(sizes.values())), picks)
            inv = {}
            for L, z in sizes.items():
                inv.setdefault(z, []).append(L)
            lens = [{'iso': inv[z][picks[(i + 3) % len(picks)] % len(inv[z])]} for i, z in enumerate(rec or [])]
        elif target_ns == 'jol':
            # Joliet record = 34 + 2n
            sizes = {n: 34 + 2 * n for n in range(4, 12)}
            rec = _recipe(2048 * nsect - 68, sorted(set(sizes.values())), picks)
            inv = {z: n for n, z in sizes.items()}
            lens = [{'jol': inv[z]} for z in (rec or [])]
        else:
            # UDF FID = 38 + (1 + n) padded to 4; the parent FID takes 40 bytes
            sizes = {n: ((38 + 1 + n + 3) // 4) * 4 for n in range(4, 20)}
            rec = _recipe(2048 * nsect - 40, sorted(set(sizes.values())), picks)
            inv = {}
            for n, z in sizes.items():
                inv.setdefault(z, []).append(n)
            lens = [{'udf': inv[z][picks[(i + 5) % len(picks)] % len(inv[z])]} for i, z in enumerate(rec or [])]
        adds = []
        for i, xl in enumerate(lens):
            as_dir = (picks[(i + 2) % len(picks)] + i) % 4 == 0
            if as_dir and target_ns == 'iso':
                # a directory identifier has no ';1': 3 characters shorter for the same record size (L=7 -> 4 .. L=11 -> 8)
                L = xl['iso']
                dl = {7: 7, 8: 8, 9: 8, 10: 8, 11: 8}[L] if (33 + L + (1 - L % 2)) == (33 + {7: 7, 8: 8, 9: 8, 10: 8, 11: 8}[L] + (1 - {7: 7, 8: 8, 9: 8, 10: 8, 11: 8}[L] % 2)) else None
                if dl is None:
                    as_dir = False
                else:
                    xl = {'iso': dl}
            if as_dir:
                adds.append({'k': 'add_dir', 'd': d, 'ns': 7, 'sz': 0, 'rsz': 0, 'usz': 0, 'lead': picks[(i + 1) % len(picks)] % 3, 'salt': i, 'mode': None, 'xl': xl})
            else:
                adds.append({'k': 'add_fp', 'd': d, 'ns': 7, 'len': [0, 1, 1, 2049][picks[i % len(picks)] % 4], 'sz': 0, 'rsz': 0, 'usz': 0,
                             'lead': picks[(i + 1) % len(picks)] % 3, 'salt': i, 'mode': None, 'ck': 0, 'file': False, 'xl': xl})
        # the further entries sort after the recipe (lead 'Z' / 'z'), so the boundary stays exact
        extra = [dict(o, lead=25) for o in extra]
        # drawn insertion order (sorted order on disc is by name anyway)
        adds = [adds[i] for i in sorted(range(len(adds)), key=lambda i: (order[i % len(order)], i))]
        return ops + adds + extra + tail
    extra = st.lists(add_fp(d=st.sampled_from([0, 1]), length=SMALL_LEN, rsz=st.integers(0, 1), file=st.just(False)), min_size=0, max_size=4)
    tail_choices = [rm_file, rm_file, write, query, add_dir(d=st.sampled_from([0, 1]))]
    if reopen_ok:
        tail_choices.append(reopen)
    tail = st.lists(st.one_of(*tail_choices), min_size=0, max_size=5)
    return program(c, st.builds(build, st.sampled_from(['iso', 'iso', 'jol', 'udf']), st.sampled_from([1, 1, 2]), st.lists(I, min_size=8, max_size=8),
                                st.lists(I, min_size=6, max_size=6), extra, tail, st.booleans()))


def symsplit(cfg=None, reopen_ok=False):
    """Symbolic links whose long target component has to be split between SL entries: a run of links with
    consecutive component lengths (so that every split position occurs), tails and heads that make a piece
    come out as '.' or '..'."""
    c = cfg if cfg is not None else cfg_st(rr=st.sampled_from(['1.09', '1.10', '1.12']))

    def build(base, count, tail, head, mid, rsz, lead, salt, form, post, dots=0):
        ops = []
        if dots:
            # a long run of targets 'ddd...d/.profile' (and the like) with consecutive filler lengths: at some length the leading
            # dot(s) of the second component are all that still fits
            for i in range(count * 3):
                ops.append({'k': 'add_sym', 'd': 0, 'form': form, 'jol': False, 'tgt': 0, 'sz': 0, 'rsz': min(rsz, 1), 'usz': 0, 'lead': lead, 'salt': salt, 'reuse': 0,
                            'td': [base % 400 + 40 + i, dots - 1]})
            return ops + post
        for i in range(count):
            ops.append({'k': 'add_sym', 'd': 0, 'form': form, 'jol': False, 'tgt': 0, 'sz': 0, 'rsz': rsz, 'usz': 0, 'lead': lead, 'salt': salt, 'reuse': 0,
                        'tx': [base + i, tail, head, mid]})
        return ops + post
    post_choices = [write, query, rm_sym, add_fp(d=st.just(0), length=SMALL_LEN)]
    if reopen_ok:
        post_choices += [reopen]
    return program(c, st.builds(build, st.integers(60, 760), st.integers(8, 20), st.integers(0, 5), st.integers(0, 6), st.integers(0, 5), st.integers(0, 3), I, I,
                                st.sampled_from([0, 0, 1]), st.lists(st.one_of(*post_choices), min_size=0, max_size=3), st.sampled_from([0, 0, 1, 2, 3, 5])))


def cegap(cfg=None, reopen_ok=False):
    """Rock Ridge continuation blocks with holes: several entries whose names spill into one
    continuation block, removal of one in the middle, then an add whose continuation area is the
    hole's size -1/+0/+1/+2 (and, at the block end, entries that fill the block to the byte)."""
    c = cfg if cfg is not None else cfg_st(rr=st.sampled_from(['1.09', '1.10', '1.12']))

    def build(lens, victim, deltas, mids, tail, lead):
        ops = []
        for i, n in enumerate(lens):
            ops.append({'k': 'add_fp', 'd': 0, 'ns': 1, 'len': [0, 1, 2049][i % 3], 'sz': 0, 'rsz': 0, 'usz': 0, 'lead': lead + i, 'salt': i,
                        'mode': None, 'ck': 0, 'file': False, 'xl': {'iso': 10, 'rr': n}})
        j = victim % len(lens)
        ops += mids[:1]
        ops.append({'k': 'rm_file', 'b': j, 'j': 0})
        ops += mids[1:]
        for k, dl in enumerate(deltas):
            ops.append({'k': 'add_fp', 'd': 0, 'ns': 1, 'len': 1, 'sz': 0, 'rsz': 0, 'usz': 0, 'lead': lead + 40 + k, 'salt': k,
                        'mode': None, 'ck': 0, 'file': False, 'xl': {'iso': 10, 'rr': max(4, lens[j] + dl)}})
        return ops + tail
    mid_choices = [write, force, query]
    if reopen_ok:
        mid_choices += [reopen, reopen]
    mids = st.lists(st.one_of(*mid_choices), min_size=0, max_size=2)
    tail = st.lists(st.one_of(rm_file, add_fp(d=st.just(0), rsz=st.integers(3, 6), file=st.just(False)), query), min_size=0, max_size=4)
    return program(c, st.builds(build, st.lists(st.integers(115, 240), min_size=3, max_size=16), I, st.lists(st.sampled_from([-1, 0, 1, 1, 2]), min_size=1, max_size=3),
                                mids, tail, st.integers(0, 20)))
