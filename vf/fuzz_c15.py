"""Coverage-guided driver for C15 (atheris / libFuzzer), thorough tier.

Run as a subprocess:  python -m vf.fuzz_c15 --worker <outfile> <libFuzzer args...>
The fuzz target decodes the fuzzer's bytes into (base image, patch list) with the same
decoder as the Hypothesis driver (vf.props.c15.apply_patches) - plus a raw mode in which the
bytes are spliced into the metadata area of a base - and applies the same oracle.  Violations do
not crash the process: they are bucketed by signature and appended to <outfile> (JSON lines) so
that one campaign enumerates all root causes.
"""
import json
import os
import subprocess
import sys
import time

HERE = os.path.dirname(os.path.dirname(os.path.abspath(__file__)))


def worker(outfile, fuzz_args):
    sys.path.insert(0, HERE)
    import vf  # noqa  (puts /repo and .deps on sys.path)
    import atheris
    with atheris.instrument_imports(include=['pycdlib']):
        import pycdlib  # noqa
    from vf import shim
    from vf.props import c15
    import resource
    shim.install('UTC')
    try:
        resource.setrlimit(resource.RLIMIT_AS, (6 << 30, 6 << 30))
    except Exception:
        pass
    bl = c15.bases()
    seen = {}
    stats = {'execs': 0, 'violations': 0, 'raw': 0, 'structured': 0}
    repl = ['zero', 'one', 'ff', 'plus1', 'minus1', 'other', 'beyond', 'swap', 'random', 'half', 'double']

    def decode(data):
        fdp = atheris.FuzzedDataProvider(data)
        bi = fdp.ConsumeIntInRange(0, len(bl) - 1)
        mode = fdp.ConsumeIntInRange(0, 3)
        if mode == 0:
            # raw splice: the remaining bytes overwrite a window of the metadata area
            base = bl[bi]
            img = bytearray(base['img'])
            off = 32768 + fdp.ConsumeIntInRange(0, max(0, min(len(img), 2048 * 120) - 32768 - 1))
            blob = fdp.ConsumeBytes(fdp.remaining_bytes())
            img[off:off + len(blob)] = blob[:max(0, len(img) - off)]
            return bi, None, bytes(img)
        patches = []
        for _ in range(fdp.ConsumeIntInRange(1, 4)):
            k = fdp.ConsumeIntInRange(0, 5)
            if k <= 1:
                patches.append(('kfield', fdp.ConsumeIntInRange(0, 9999), fdp.ConsumeIntInRange(0, 99999), repl[fdp.ConsumeIntInRange(0, len(repl) - 1)], fdp.ConsumeIntInRange(0, 0xffffffff)))
            elif k <= 3:
                patches.append(('field', fdp.ConsumeIntInRange(0, 99999), repl[fdp.ConsumeIntInRange(0, len(repl) - 1)], fdp.ConsumeIntInRange(0, 0xffffffff)))
            elif k == 4:
                patches.append(('trunc', fdp.ConsumeIntInRange(0, 99999), ['sector', 'interior', 'inside-metadata'][fdp.ConsumeIntInRange(0, 2)]))
            else:
                patches.append(('flip', fdp.ConsumeIntInRange(0, 99999), fdp.ConsumeIntInRange(1, 255)))
        data2, _, _ = c15.apply_patches(bl[bi], patches)
        return bi, patches, data2

    def dump():
        with open(outfile + '.stats.tmp', 'w') as f:
            json.dump(dict(stats, signatures=seen), f)
        os.replace(outfile + '.stats.tmp', outfile + '.stats')

    def one(data):
        stats['execs'] += 1
        if stats['execs'] % 500 == 0:
            dump()          # libFuzzer leaves through _exit(): no atexit/finally
        try:
            bi, patches, img = decode(data)
        except Exception:
            return
        stats['raw' if patches is None else 'structured'] += 1
        res = c15.open_one(img)
        if res is not None:
            stats['violations'] += 1
            sig = res[0]
            if sig not in seen:
                seen[sig] = 0
                with open(outfile, 'a') as f:
                    f.write(json.dumps({'sig': sig, 'msg': res[1], 'case': [bi, [list(p) for p in patches]] if patches is not None else None,
                                        'raw_hex': img[32768:32768 + 2048 * 8].hex() if patches is None else None, 'base': bi}) + '\n')
            seen[sig] += 1

    atheris.Setup([sys.argv[0]] + fuzz_args, one)
    try:
        atheris.Fuzz()
    finally:
        dump()


def campaign(col, seed, nproc=15, runs=200000, max_total_time=600):
    """Launch the worker processes, wait, merge their findings into the collector."""
    scratch = os.path.join(HERE, '.scratch', 'C15')
    os.makedirs(scratch, exist_ok=True)
    procs = []
    t0 = time.perf_counter()
    for i in range(nproc):
        corpus = os.path.join(scratch, 'corpus-%d' % i)
        subprocess.run(['rm', '-rf', corpus])
        os.makedirs(corpus)
        if i % 2 == 0:
            # half of the processes start from small structured seeds, the others from an empty corpus
            for k in range(8):
                with open(os.path.join(corpus, 'seed%d' % k), 'wb') as f:
                    f.write(bytes([(i * 8 + k) % 56, 1 + k % 3, 2, k, 0, 0, 0, 5, 0, 0, 0, 0]))
        out = os.path.join(scratch, 'findings-%d.jsonl' % i)
        for pth in (out, out + '.stats'):
            if os.path.exists(pth):
                os.unlink(pth)
        env = dict(os.environ, PYTHONPATH=HERE, PYTHONHASHSEED='0')
        cmd = ['/venv/bin/python', '-m', 'vf.fuzz_c15', '--worker', out, corpus, '-runs=%d' % runs, '-seed=%d' % (seed * 100 + i + 1),
               '-max_len=4096', '-max_total_time=%d' % max_total_time, '-timeout=60', '-rss_limit_mb=6000', '-print_final_stats=0', '-verbosity=0']
        procs.append((subprocess.Popen(cmd, cwd=HERE, env=env, stdout=subprocess.DEVNULL, stderr=subprocess.DEVNULL), out))
    execs = 0
    sigs = {}
    rcs = []
    for p, out in procs:
        rc = p.wait()
        rcs.append(rc)
        if os.path.exists(out + '.stats'):
            st = json.load(open(out + '.stats'))
            execs += st.get('execs', 0)
            for sgn, n in st.get('signatures', {}).items():
                sigs[sgn] = sigs.get(sgn, 0) + n
        if os.path.exists(out):
            for line in open(out):
                d = json.loads(line)
                case = d['case'] if d['case'] is not None else [d['base'], [['raw', d['raw_hex']]]]
                col.fail(d['sig'], 'atheris', d['msg'], case)
    col.extra['atheris'] = {'processes': nproc, 'executions': execs, 'signatures': sigs, 'exit_codes': rcs, 'wall_s': round(time.perf_counter() - t0, 1)}
    col.evaluations += execs


if __name__ == '__main__':
    if len(sys.argv) >= 3 and sys.argv[1] == '--worker':
        worker(sys.argv[2], sys.argv[3:])
