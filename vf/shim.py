"""Determinism shim: pins time.time, uuid.uuid4 and the random module from the harness.

Nothing in /repo is touched.  pycdlib calls `time.time()`, `random.getrandbits` /
`random.randint` and `uuid.uuid4()` through the module objects, so replacing the
attributes on the stdlib modules is enough.
"""
import os
import random
import time
import uuid

_real_time = time.time
_real_uuid4 = uuid.uuid4

DEFAULT_NOW = 1500000000.0


class _State:
    now = DEFAULT_NOW
    uuid_counter = 0
    installed = False
    tick = False


def _fake_time():
    if _State.tick:
        # a clock that moves: every reading is 0.37 s later than the one before (two readings taken
        # "at the same time" by the library differ, and every third pair straddles a second)
        _State.now += 0.37
    return _State.now


def _fake_uuid4():
    _State.uuid_counter += 1
    return uuid.UUID(int=(0x5eed << 112) | (4 << 76) | (0x8 << 60) | _State.uuid_counter)


def install(tz='UTC'):
    """Install the fake clock / uuid; set the process time zone."""
    if tz is not None:
        os.environ['TZ'] = tz
        time.tzset()
    time.time = _fake_time
    uuid.uuid4 = _fake_uuid4
    _State.installed = True
    _State.tick = False
    _State.now = DEFAULT_NOW
    reset(0)


def uninstall():
    time.time = _real_time
    uuid.uuid4 = _real_uuid4
    _State.installed = False


def set_now(t):
    _State.now = float(t)


def set_tick(on, now=None):
    """Moving clock on/off (checks that compare bytes across runs keep it off)."""
    _State.tick = bool(on)
    _State.now = DEFAULT_NOW if now is None else float(now)


def reset(op_index=0, base=12345):
    """Called before every image build and before every op: a refused or inserted call
    that consumed a random draw cannot shift what later ops see."""
    random.seed(base * 1000003 + op_index)
    _State.uuid_counter = 1000 * op_index


def set_tz(tz):
    os.environ['TZ'] = tz
    time.tzset()


def real_time():
    return _real_time()
