"""C11 El Torito boot structures point at the right bytes.

G: boot profile: boot files of sizes {1, 63, 64, 2047..2049, 10000, floppy images, hard-disk
   images with generated MBRs}, platform ids, 1..32 entries, efi flag, bootable flag, load
   size/segment, boot-info-table, explicit catalog names in each namespace, catalog hard links,
   edits before and after add_eltorito, rm_hard_link of the boot file, rm_eltorito.
O: vf.indep.iso9660 decodes the boot record at sector 17 and the catalog on its own: validation
   entry checksum/key bytes, platform, per entry media type, load size, segment, bootable flag,
   section headers 0x90..0x91 with counts; each entry's RBA is the first sector of the chosen boot
   file's bytes (compared by content); the catalog read as a file through every given name ==
   the catalog sector; boot-info-table bytes 8..63 of the stored boot file and of the file as
   read back == (PVD sector, file sector, length, checksum).  After rm_eltorito: no boot record, no
   catalog names (the rest is compared by the model view).
"""
import io
import struct

from hypothesis import strategies as st

from vf import shim, gen
from vf.engine import Run, open_image, api_view, model_view, diff_views
from vf.indep import iso9660
from vf.model import content
from vf.propbase import EngineProperty
from vf.runner import exc_signature

ID = 'C11'
LEVEL = 'exploration'
RULE = ('images = final write of generated programs from the boot and hybrid profiles (all namespace configurations; with and without a reopen generation). '
        'Non-trivial = the image has >= 2 El Torito entries, or a boot info table, or a floppy/hard-disk emulation entry, or a boot file whose name was unlinked, '
        'or El Torito was removed again. Distinct = distinct canonical program JSON.')
ASSUMPTIONS = [
    'El Torito 1.0 layout as decoded by vf/indep/iso9660.py',
    'Interpretation: whether the boot-info-table patch survives rm_eltorito is not asserted either way',
    'Interpretation: for section entries the platform id of the section header is what add_eltorito documents (0xef with efi=True, otherwise the validation entry\'s platform)',
]
SHARDS = {'quick': 16, 'thorough': 16}
CASES = {'quick': 150, 'thorough': 5000}
MEDIA = {'noemul': 0, 'floppy': None, 'hdemul': 4}
FLOPPY = {1228800: 1, 1474560: 2, 2949120: 3}


def strategy(tier):
    progs = st.one_of(gen.boot(reopen_ok=True), gen.boot(reopen_ok=False), gen.boot(reopen_ok=False), gen.hybrid(reopen_ok=False), gen.bootlinks(reopen_ok=True), gen.twoboots(reopen_ok=True), gen.fullcat(reopen_ok=True))
    return st.tuples(progs.map(lambda p: dict(p, profile='boot')), st.sampled_from([1, 512, 8192]))


def bit_expected(data, pvd_sector, file_sector):
    csum = 0
    for i in range(64, len(data), 4):
        chunk = data[i:i + 4]
        if len(chunk) < 4:
            chunk = chunk + b'\0' * (4 - len(chunk))
        csum = (csum + struct.unpack('<L', chunk)[0]) & 0xffffffff
    return struct.pack('<LLLL', pvd_sector, file_sector, len(data), csum) + b'\0' * 40


def live_boot_reads(run, failures):
    """Before mastering: every name of a boot file, and the stream interface, must read the same bytes on the live object
    (a boot info table is part of what the file reads as).  Returns {blob id: bytes} for the comparison with the written image."""
    m = run.model
    out = {}
    if m.boot is None:
        return out
    seen = set()
    for ent in m.boot['entries']:
        b = m.blobs.get(ent['blob'])
        if b is None or b.id in seen or not b.names or b.length > (1 << 20):
            continue
        seen.add(b.id)
        reads = {}
        for ns, p in sorted(b.names):
            key = {'iso': 'iso_path', 'jol': 'joliet_path', 'udf': 'udf_path'}[ns]
            try:
                o = io.BytesIO()
                run.iso.get_file_from_iso_fp(o, **{key: p})
                reads['%s' % ns] = o.getvalue()
                with run.iso.open_file_from_iso(**{key: p}) as f:
                    reads['%s-stream' % ns] = f.read()
            except Exception as e:  # noqa
                failures.append(('C11/live-read/%s' % exc_signature(e), 'boot-info-table', 'reading boot file %r on the live object (%s) raised %r' % (p[:50], ns, e)))
                return out
        vals = sorted(set(reads.values()), key=len)
        if len(vals) > 1:
            ks = sorted(reads)
            first = ks[0]
            other = next(k for k in ks if reads[k] != reads[first])
            failures.append(('C11/live-read/names-disagree/%s-vs-%s%s' % (first, other, '/boot-info-table' if b.bit else ''), 'boot-info-table',
                             'before mastering, boot file blob %d reads %d bytes through %s and %d different bytes through %s (bytes 8..24: %s vs %s)'
                             % (b.id, len(reads[first]), first, len(reads[other]), other, reads[first][8:24].hex(), reads[other][8:24].hex())))
        out[b.id] = reads[sorted(reads)[0]]
    run.stats['live_boot_reads'] = run.stats.get('live_boot_reads', 0) + len(out)
    # the catalog as a file, on the live object (compared with the catalog sector of the image mastered right afterwards)
    cat = m.blobs.get(-1)
    run.live_catalog = {}
    for ns, p in sorted(cat.names) if cat else []:
        key = {'iso': 'iso_path', 'jol': 'joliet_path', 'udf': 'udf_path'}[ns]
        try:
            o = io.BytesIO()
            run.iso.get_file_from_iso_fp(o, **{key: p})
            run.live_catalog[(ns, p)] = o.getvalue()
        except Exception as e:  # noqa
            failures.append(('C11/live-read/catalog/%s' % exc_signature(e), 'catalog-file', 'reading the boot catalog %r on the live object (%s) raised %r' % (p[:50], ns, e)))
    return out


def oracle(program, blocksize):
    shim.install('UTC')
    blocksize = blocksize or 8192
    failures = []
    shim.set_tick(len(program['ops']) % 2 == 1)      # a moving clock in half of the cases (nothing here compares bytes across runs)
    run = Run(program)
    run.run_all()
    run.stats = {'c01_domain': 0}
    live = live_boot_reads(run, failures) if not (run.dead or run.problems) else {}
    img = None if (run.dead or run.problems) else run.write()
    if img is None:
        run.stats['c01_domain'] += 1
        run.close()
        return run, failures
    m = run.model
    info = iso9660.read_iso(img)
    run.info = info
    el = info.get('eltorito')
    for clause, msg in info['findings']:
        if clause.startswith('eltorito'):
            failures.append(('C11/%s' % clause, clause, msg[:400]))
    if m.boot is None:
        if el is not None:
            failures.append(('C11/boot-record-without-eltorito', 'rm_eltorito', 'the image has an El Torito boot record although none was added / it was removed'))
        if 'rm_eltorito' in m.classes and m.hybrid is None:
            # ... and everything that only El Torito referred to went with it: no sector is left without an owner, the
            # volume ends where its last object ends, what remains does not overlap (the allocation clauses of C04)
            from vf.props.c04 import allocation_failures
            fs, loc, uinfo, ivs, vol, hyb = allocation_failures(m, img, info, prefix='C11/after-rm-eltorito')
            seen = set()
            for sig, clause, msg in fs:
                if sig not in seen:
                    seen.add(sig)
                    failures.append((sig, 'rm_eltorito', msg))
            if vol:
                last = max([first + n for first, n, k, o in ivs if k != 'system-area'] + [0])
                if last < vol:
                    failures.append(('C11/after-rm-eltorito/space-not-released', 'rm_eltorito',
                                     'El Torito was removed; the volume declares %d sectors, the last object ends at %d (a boot file only the catalogue referred to is still there?)' % (vol, last)))
            run.stats['after_rm_checked'] = 1
        run.close()
        return run, failures
    if el is None or 'initial' not in el:
        failures.append(('C11/no-boot-record', 'boot-record', 'El Torito was added but the image has no (readable) El Torito boot record / catalog'))
        run.close()
        return run, failures
    ents = m.boot['entries']
    got = [('initial', None, el['initial'])]
    for s in el.get('sections', []):
        for e in s['entries']:
            got.append(('section', s, e))
    if m.generation == 0 and el['validation']['platform'] != m.boot['platform']:
        failures.append(('C11/validation-platform', 'platform', 'validation entry platform %d, requested %d' % (el['validation']['platform'], m.boot['platform'])))
    if len(got) != len(ents):
        failures.append(('C11/entry-count', 'entries', 'catalog holds %d entries, %d were added' % (len(got), len(ents))))
    else:
        nsec = len(el.get('sections', []))
        for i, s in enumerate(el.get('sections', [])):
            want_ind = 0x91 if i == nsec - 1 else 0x90
            if s['indicator'] != want_ind:
                failures.append(('C11/section-header-indicator', 'sections', 'section header %d of %d has indicator %#x' % (i + 1, nsec, s['indicator'])))
        for (kind, sec, g), w in zip(got, ents):
            b = m.blobs.get(w['blob'])
            tag = kind
            if g['bootable'] != bool(w['bootable']):
                failures.append(('C11/%s/bootable-flag' % tag, 'entry', 'entry bootable=%r, requested %r' % (g['bootable'], w['bootable'])))
            wm = 0 if w['media'] == 'noemul' else (4 if w['media'] == 'hdemul' else FLOPPY.get(b.length if b else 0))
            if wm is not None and g['media'] != wm:
                failures.append(('C11/%s/media-type' % tag, 'entry', 'entry media type %d, requested %s (%r)' % (g['media'], w['media'], wm)))
            if g['sector_count'] != w['load']:
                failures.append(('C11/%s/load-size' % tag, 'entry', 'entry sector count %d, requested/derived %d (media %s)' % (g['sector_count'], w['load'], w['media'])))
            if g['load_segment'] != w['seg']:
                failures.append(('C11/%s/load-segment' % tag, 'entry', 'entry load segment %#x, requested %#x' % (g['load_segment'], w['seg'])))
            if sec is not None:
                wp = 0xef if w['efi'] else m.boot['platform']
                if sec['platform'] != wp:
                    failures.append(('C11/section/platform', 'platform', 'section header platform %#x, expected %#x (efi=%r)' % (sec['platform'], wp, w['efi'])))
                if sec['count'] != len(sec['entries']):
                    failures.append(('C11/section/count', 'sections', 'section header count %d, %d entries follow' % (sec['count'], len(sec['entries']))))
            if b is not None and b.length <= (4 << 20):
                data = content(b.id, b.length, b.ckind)
                stored = img[g['rba'] * 2048:g['rba'] * 2048 + b.length]
                cmp_stored, cmp_data = stored, data
                if b.bit and b.length >= 64:
                    cmp_stored, cmp_data = stored[:8] + stored[64:], data[:8] + data[64:]
                if cmp_stored != cmp_data:
                    shared = sum(1 for x in ents if x['blob'] == w['blob'])
                    failures.append(('C11/%s/rba-not-boot-file/%s' % (tag, 'shared-boot-file' if shared > 1 else ('unlinked' if not b.names else 'plain')), 'rba',
                                     'entry RBA %d does not hold the bytes of the chosen boot file (%d bytes)' % (g['rba'], b.length)))
                elif b.bit is True and b.length >= 64:
                    want_bit = bit_expected(data, info['pvds'][0]['sector'], g['rba'])
                    if stored[8:64] != want_bit:
                        failures.append(('C11/boot-info-table/stored', 'boot-info-table',
                                         'bytes 8..63 of the stored boot file are %s, expected %s (pvd sector, file sector, length, checksum)' % (stored[8:24].hex(), want_bit[:16].hex())))
    # catalog through its names, boot info table through the API
    new = open_image(img)
    if isinstance(new, Exception):
        run.stats['c01_domain'] += 1
    else:
        cat = m.blobs.get(-1)
        catbytes = el.get('catalog_bytes', b'')
        for (ns, p), data in sorted(getattr(run, 'live_catalog', {}).items()):
            if data != catbytes:
                d0 = next((i for i in range(min(len(data), len(catbytes))) if data[i] != catbytes[i]), min(len(data), len(catbytes)))
                failures.append(('C11/catalog-as-file/%s/live-differs' % ns, 'catalog-file',
                                 'boot catalog read through %s name %r on the live object right before mastering gives %d bytes that differ from the catalog sector of the image (first difference at byte %d)' % (ns, p[:50], len(data), d0)))
                break
        for ns, p in sorted(cat.names) if cat else []:
            key = {'iso': 'iso_path', 'jol': 'joliet_path', 'udf': 'udf_path'}[ns]
            o = io.BytesIO()
            try:
                new.get_file_from_iso_fp(o, blocksize=blocksize, **{key: p})
                if o.getvalue() != catbytes:
                    failures.append(('C11/catalog-as-file/%s/differs' % ns, 'catalog-file', 'boot catalog read through %s=%r gives %d bytes that differ from the catalog sector' % (key, p[:50], len(o.getvalue()))))
            except Exception as e:  # noqa
                failures.append(('C11/catalog-as-file/%s/%s' % (ns, exc_signature(e)), 'catalog-file', 'reading the boot catalog through %s=%r raised %s: %s' % (key, p[:50], type(e).__name__, e)))
        for w in ents:
            b = m.blobs.get(w['blob'])
            if b is None or b.bit is not True or b.length < 64 or b.length > (4 << 20):
                continue
            data = content(b.id, b.length, b.ckind)
            for ns, p in sorted(b.names):
                key = {'iso': 'iso_path', 'jol': 'joliet_path', 'udf': 'udf_path'}[ns]
                o = io.BytesIO()
                try:
                    new.get_file_from_iso_fp(o, blocksize=blocksize, **{key: p})
                except Exception as e:  # noqa
                    failures.append(('C11/boot-info-table/read/%s' % exc_signature(e), 'boot-info-table', 'reading the boot file raised %r' % (e,)))
                    continue
                rd = o.getvalue()
                rba = [g for (k, s, g), ww in zip(got, ents) if ww is w]
                if rba and len(rd) == len(data):
                    want_bit = bit_expected(data, info['pvds'][0]['sector'], rba[0]['rba'])
                    if rd[8:64] != want_bit or rd[:8] != data[:8] or rd[64:] != data[64:]:
                        failures.append(('C11/boot-info-table/read-back/%s' % ns, 'boot-info-table', 'boot file read back through %s has bytes 8..63 = %s, expected %s' % (key, rd[8:24].hex(), want_bit[:16].hex())))
                elif len(rd) != len(data):
                    failures.append(('C11/boot-file-length/%s' % ns, 'boot-info-table', 'boot file read back through %s has %d bytes, %d were supplied' % (key, len(rd), len(data))))
        try:
            new.close()
        except Exception:
            pass
    run.close()
    return run, failures


def extra_classes(run):
    cl = set()
    m = run.model
    if m.boot:
        ents = m.boot['entries']
        if len(ents) >= 2:
            cl.add('>=2-entries')
        if len(ents) >= 10:
            cl.add('>=10-entries')
        for e in ents:
            if e['bit']:
                cl.add('boot-info-table')
            if e['media'] != 'noemul':
                cl.add('emulation-' + e['media'])
            b = m.blobs.get(e['blob'])
            if b is not None and not b.names:
                cl.add('unlinked-boot-file')
            if not e['bootable']:
                cl.add('non-bootable-entry')
    return cl


def nontrivial(run, cl):
    return bool(cl & {'>=2-entries', 'boot-info-table', 'emulation-floppy', 'emulation-hdemul', 'unlinked-boot-file', 'rm_eltorito'}) and not run.stats.get('c01_domain')


PROP = EngineProperty(ID, oracle, nontrivial, extra_classes)
shard = PROP.shard_fn(strategy, CASES)
replay = PROP.replay
shrink = PROP.shrink
