"""C16 Reading files: exact bytes, stream semantics, no interference.

Statement (fixed): "Reading a file from an image - whole, with any positive block size, or
through the file-like object with any sequence of read, readinto, readall, seek and tell
calls - returns exactly the bytes of that file at the requested positions and never bytes
beyond its end, behaving like an in-memory binary stream of the file's content.  This holds
regardless of other reads, opened files or queries on the same image in between, for files
on the original image and for files added but not yet written."

G: model-based.  Every history is reified as DATA, a JSON "program"
       {'recipe': {'flavour', 'rr', 'joliet', 'udf', 'base': [file..], 'added': [file..]},
        'ops':    [[opname, symbolic args..], ..]}
   drawn from a Hypothesis strategy and interpreted (class Interp) against the real
   library and a shadow model (one io.BytesIO(content) per open stream).  References are
   symbolic (file = i mod nfiles, path kind = k mod nkinds, stream = s mod nlive), seek
   offsets are clamped by the interpreter so the resulting position is >= 0; therefore
   every sub-sequence of a program is again a valid program (used by shrink()).
   A hypothesis.stateful.RuleBasedStateMachine variant drives the same interpreter step
   by step (a smaller share of the budget); it never raises either.
O: every return value (bytes, readinto count + buffer content, seek/tell position) equals
   the shadow's; extraction output == content; after every op tell() of every live stream
   == shadow position; for files on the original image a CountingFile wrapper shows that a
   stream read / extraction of F only reads image bytes inside F's extent (F is located
   independently by scanning the written image for F's unique content).
   The interpreter never raises on an oracle failure: it records
   col.fail(signature, ...), resynchronises (seek) or drops the stream and goes on.
"""
import array
import hashlib
import io
import struct

from hypothesis import given, settings, seed as hseed, strategies as st, HealthCheck, Phase
from hypothesis.stateful import RuleBasedStateMachine, initialize, rule, precondition, run_state_machine_as_test

from vf import shim
from vf.runner import Collector, exc_signature
from pycdlib import pycdlibexception as pex

ID = 'C16'
LEVEL = 'exploration'
RULE = ('cases = programs {recipe, ops} drawn by Hypothesis: recipe = PyCdlib object with 4-8 files (sizes from '
        '{0,1,2047,2048,2049,5000,70000, 2..300}, content = shake_128(id)), flavour "parsed" (base files mastered with '
        'write_fp, reopened with open_fp so they share the image file object, then 1-3 files added with add_fp and not '
        'written) or "fresh" (new() + add_fp only), Rock Ridge/Joliet/UDF on or off, files optionally in a directory, '
        'added files optionally sharing one backing BytesIO; ops = 1-45 of open(file, path kind) (<= 3 live streams), '
        'read(n), readinto(bytearray(k)), readall, seek(off, whence) clamped to a position >= 0, tell, close, '
        'extract(file, path kind, blocksize 1..70000), query(list_children|walk|get_record), interpreted against the '
        'library and an io.BytesIO shadow per stream. A share of the cases is driven by a RuleBasedStateMachine over the '
        'same interpreter. Non-trivial = the executed history contains (a) a read-type op on a stream while the previous '
        'read-type op was on another live stream, or (b) a readinto followed by another op on the same stream, or (c) an '
        'extraction or query between two read-type ops of one stream. Distinct = distinct canonical JSON of the program.')
ASSUMPTIONS = [
    'io.BytesIO is the reference for "an in-memory binary stream" (read past EOF -> b"", seek past EOF allowed, readinto returns the count)',
    'a resulting stream position < 0 is an invalid input (PyCdlibIO.seek documents PyCdlibInvalidInput for it, io.BytesIO raises ValueError): excluded by construction (offsets are clamped)',
    'operations on a closed stream, float offsets and whence outside {0,1,2} are not generated (outside the statement)',
    'add_fp(fp, length) reads the first `length` bytes of fp (inode.fp_offset is 0 for files < 4 GiB); two added files may name the same fp - the API does not forbid it; such cases are counted in class backing:shared',
    'the extent clause only applies to base files of parsed images whose content (>= 16 bytes) occurs exactly once, sector aligned, in the written image; others are counted as extent-unlocatable',
    'exceptions raised by the interleaved queries themselves (list_children/walk/get_record) and image set-up refusals are counted (coverage.query_exceptions / setup_failures), not failed: they belong to other properties',
    'one optional file of 0xfffff800 + {1, 2048, 5000} bytes (> 4 GiB, two extents) is added with add_fp over a virtual pattern file and never written; streams over it start with seek(0, 2) (must equal the size) and then work in the last 70000 bytes before the extent boundary and beyond; its extraction is only checked for a 64 KiB..3 MiB prefix and for not ending early (the verifying sink stops the copy by raising from write())',
    'operations after write_fp are not generated (one mastering at the very end of a case verifies the extent a boot info table was expected for)',
    'a boot file with a boot info table reads, under every name and through every reader, as its bytes with the 56-byte table over bytes 8..64 (cut to the file length): that is what the image holds',
    'streams are opened with open_file_from_iso(...).__enter__() and closed with __exit__ (the documented context-manager use)',
]
SHARDS = {'quick': 16, 'thorough': 16}
CASES = {'quick': 1300, 'thorough': 22000}          # data-program cases per shard
SM_CASES = {'quick': 90, 'thorough': 1500}         # state-machine runs per shard
MIN_NONTRIVIAL = {'quick': 200, 'thorough': 200}

SIZES = [0, 1, 2047, 2048, 2049, 5000, 70000]
KINDS = ['iso_path', 'rr_path', 'joliet_path', 'udf_path']
MAX_LIVE = 3
READ_OPS = ('read', 'readinto', 'readall')


# ----------------------------------------------------------------------------- content

def content(cid, n):
    return hashlib.shake_128(str(cid).encode()).digest(n)


class CountingFile:
    """Read-only seekable binary file over bytes; logs (offset, length) of every read."""
    mode = 'rb'

    def __init__(self, data):
        self._f = io.BytesIO(data)
        self.log = []
        self.seeks = 0

    def read(self, n=-1):
        pos = self._f.tell()
        d = self._f.read(n)
        if d:
            self.log.append((pos, len(d)))
        return d

    def seek(self, off, whence=0):
        self.seeks += 1
        return self._f.seek(off, whence)

    def tell(self):
        return self._f.tell()

    def readable(self):
        return True

    def seekable(self):
        return True

    def writable(self):
        return False

    def close(self):
        pass


class HugeReadRefused(Exception):
    """The pattern file was asked for far more data than any generated operation can need."""


class PatternFile:
    """Virtual read-only binary file of `size` bytes with io.BytesIO semantics; the byte at
    offset o is BLOCK[o % 65521].  Serves both as the backing fp of a > 4 GiB file (add_fp)
    and, as a second instance, as the shadow model of a stream over that file."""
    mode = 'rb'
    L = 65521
    BLOCK = hashlib.shake_128(b'c16-pattern').digest(65521)
    LIMIT = 1 << 24

    def __init__(self, size):
        self.size = size
        self.pos = 0

    def read(self, n=-1):
        rem = max(0, self.size - self.pos)
        n = rem if n is None or n < 0 else min(n, rem)
        if n > self.LIMIT:
            raise HugeReadRefused('read of %d bytes at %d' % (n, self.pos))
        start = self.pos % self.L
        d = (self.BLOCK * ((start + n) // self.L + 1))[start:start + n]
        self.pos += n
        return d

    def readinto(self, b):
        m = memoryview(b).cast('B')
        d = self.read(len(m))
        m[:len(d)] = d
        return len(d)

    def seek(self, off, whence=0):
        new = off if whence == 0 else self.pos + off if whence == 1 else self.size + off
        if new < 0:
            raise ValueError('negative seek value %d' % new)
        self.pos = new
        return new

    def tell(self):
        return self.pos

    def close(self):
        pass



def bit_expected(data, extent):
    """What readers of a boot file with a boot info table must get: bytes 8..64 replaced by the table (PVD at 16, the
    file's own extent, its length, the 32-bit sum of its little-endian words from byte 64 on), cut to the file's length."""
    tail = data[64:]
    tail += b'\x00' * (-len(tail) % 4)
    csum = sum(struct.unpack('<%dL' % (len(tail) // 4), tail)) & 0xffffffff
    table = struct.pack('<LLLL', 16, extent, len(data), csum) + b'\x00' * 40
    return (data[:8] + table + data[64:])[:len(data)] if len(data) > 8 else data


EXTENT_MAX = 0xfffff800                 # pycdlib's per-directory-record maximum (one "extent" of a big file)
HUGE_BASE = EXTENT_MAX - 70000          # streams over the > 4 GiB file work in [HUGE_BASE, size + a little]

# ----------------------------------------------------------------------------- strategy

size_st = st.one_of(st.sampled_from(SIZES), st.sampled_from(SIZES), st.integers(2, 300))
dir_st = st.sampled_from([False, False, True])
base_file_st = st.fixed_dictionaries({'size': size_st, 'dir': dir_st})
added_file_st = st.fixed_dictionaries({'size': size_st, 'dir': dir_st, 'share': st.booleans()})


@st.composite
def recipe_st(draw):
    flavour = draw(st.sampled_from(['parsed', 'fresh']))
    nadded = draw(st.integers(1, 3))
    ntotal = draw(st.integers(4, 8))
    base = draw(st.lists(base_file_st, min_size=ntotal - nadded, max_size=ntotal - nadded))
    added = draw(st.lists(added_file_st, min_size=nadded, max_size=nadded))
    return {
        'flavour': flavour,
        'rr': draw(st.sampled_from([None, '1.09', '1.09', '1.10', '1.12'])),
        'joliet': draw(st.booleans()),
        'udf': draw(st.booleans()),
        'base': base,
        'added': added,
        # optional extra file of EXTENT_MAX + huge bytes (> 4 GiB, multi-extent), added with add_fp and never written
        'huge': draw(st.sampled_from([None, None, None, 1, 2048, 5000])),
        # parsed images without UDF: open an independently re-mastered ("foreign") version (vf/indep/remaster.py) instead
        'foreign': draw(st.one_of(st.none(), st.integers(0, 1 << 30))),
        # optionally one of the files is made an El Torito boot file with a boot info table (bytes 8..64 of what every
        # reader gets are the table, not the bytes that were added)
        'boot': draw(st.one_of(st.none(), st.none(), st.integers(0, 7))),
    }


ref_st = st.integers(0, 7)
sref_st = st.integers(0, 5)
read_n_st = st.one_of(st.sampled_from([None, -1, -2, 0, 1, 2, 2047, 2048, 2049, 100000]), st.integers(2, 300))
buf_k_st = st.one_of(st.sampled_from([0, 1, 2, 2048, 5000, 100000]), st.integers(2, 300))
blocksize_st = st.one_of(st.sampled_from([1, 2, 7, 2047, 2048, 2049, 4096, 8192, 69999, 70000]), st.integers(1, 70000))
seek_st = st.one_of(
    st.tuples(st.just(0), st.one_of(st.sampled_from([0, 1, 2047, 2048, 2049, 4999, 5000, 5001, 69999, 70000, 70001]),
                                    st.integers(0, 400), st.integers(0, 80000))),
    st.tuples(st.just(1), st.one_of(st.integers(-300, 300), st.sampled_from([0, -1, 1, -2048, 2048, -70000, 70000]))),
    st.tuples(st.just(2), st.one_of(st.integers(-300, 10), st.sampled_from([0, -1, 1, -2047, -2048, -2049, -5000, -70000, 2048]))),
)

open_op = st.tuples(st.just('open'), ref_st, ref_st).map(list)
read_op = st.tuples(st.just('read'), sref_st, read_n_st).map(list)
readinto_op = st.tuples(st.just('readinto'), sref_st, buf_k_st, st.sampled_from([0, 0, 0, 1, 2])).map(list)
readall_op = st.tuples(st.just('readall'), sref_st).map(list)
seek_op = st.tuples(st.just('seek'), sref_st, seek_st).map(lambda t: ['seek', t[1], t[2][1], t[2][0]])
tell_op = st.tuples(st.just('tell'), sref_st).map(list)
close_op = st.tuples(st.just('close'), sref_st).map(list)
extract_op = st.tuples(st.just('extract'), ref_st, ref_st, blocksize_st).map(list)
query_op = st.tuples(st.just('query'), st.sampled_from(['list_children', 'walk', 'get_record']), ref_st, ref_st).map(list)

_op_st = st.one_of(open_op, open_op, read_op, read_op, read_op, read_op, readinto_op, readinto_op, readall_op,
                   seek_op, seek_op, seek_op, tell_op, close_op, extract_op, extract_op, query_op)
# a file is removed and another one added under the same names (what was read before must not come back under them)
replace_op = st.tuples(st.just('replace'), ref_st, st.integers(0, 1 << 20)).map(list)
from vf.gen import weighted as _weighted
op_st = _weighted([(_op_st, 16), (replace_op, 1)])



@st.composite
def case_st(draw):
    recipe = draw(recipe_st())
    pre = draw(st.lists(open_op, min_size=1, max_size=3))
    n = draw(st.integers(1, 42))        # explicit length: Hypothesis' own list lengths are strongly biased to short
    ops = draw(st.lists(op_st, min_size=n, max_size=n))
    return {'recipe': recipe, 'ops': pre + ops}


# ----------------------------------------------------------------------------- interpreter

class _Stream:
    __slots__ = ('real', 'shadow', 'fidx', 'kind', 'name', 'backing', 'disturbed', 'nreads', 'between', 'after_readinto')

    def __init__(self, real, shadow, fidx, kind, name, backing):
        self.real = real
        self.shadow = shadow
        self.fidx = fidx
        self.kind = kind
        self.name = name
        self.backing = backing
        self.disturbed = []        # fp-moving activity by others on the same backing since this stream last positioned itself
        self.nreads = 0
        self.between = False       # extraction/query seen since this stream's last read-type op
        self.after_readinto = False


class Interp:
    """Interprets a program step by step against pycdlib and the shadow model."""

    def __init__(self, recipe, col):
        self.recipe = recipe
        self.col = col
        self.ops_done = []         # the program executed so far (a failure records exactly this prefix)
        self.live = []
        self.trace = []
        self.sigs = set()
        self.nt = set()
        self.classes = set()
        self.iso = None
        self.cf = None
        self.files = []
        self.kinds = []
        self.ok = False
        self.nstream = 0
        self.last_read_stream = None
        self.bootfile = None

    # -- recording

    def _case(self):
        return {'recipe': self.recipe, 'ops': [list(o) for o in self.ops_done]}

    def fail(self, sig, clause, msg):
        if sig in self.sigs:
            return
        self.sigs.add(sig)
        r = self.recipe
        head = '%s image rr=%s joliet=%s udf=%s; files %s' % (
            r['flavour'], r['rr'], r['joliet'], r['udf'],
            ', '.join('%s[%d,%s]' % (f['iso'], f['size'], f['backing']) for f in self.files))
        self.col.fail(sig, clause, '%s\n%s\ntrace (last steps):\n  %s' % (msg, head, '\n  '.join(self.trace[-14:])), self._case())

    def log(self, s):
        self.trace.append(s)

    # -- set-up

    def _paths(self, i, in_dir):
        d_iso, d_lc = ('/D', '/d') if in_dir else ('', '')
        return {'iso_path': '%s/F%d.;1' % (d_iso, i), 'rr_path': '%s/f%d' % (d_lc, i),
                'joliet_path': '%s/f%d' % (d_lc, i), 'udf_path': '%s/f%d' % (d_lc, i)}

    def setup(self):
        import pycdlib
        r = self.recipe
        col = self.col
        self.kinds = ['iso_path'] + (['rr_path'] if r['rr'] else []) + (['joliet_path'] if r['joliet'] else []) + (['udf_path'] if r['udf'] else [])
        files = []
        for i, f in enumerate(r['base']):
            files.append({'idx': i, 'size': f['size'], 'cid': 'b%d' % i, 'dir': bool(f['dir']), 'where': 'base'})
        nb = len(files)
        shared_max = max([f['size'] for f in r['added'] if f.get('share')] or [0])
        nshared = sum(1 for f in r['added'] if f.get('share'))
        for j, f in enumerate(r['added']):
            sh = bool(f.get('share')) and nshared >= 2
            files.append({'idx': nb + j, 'size': f['size'], 'cid': 'shared' if sh else 'a%d' % j, 'dir': bool(f['dir']),
                          'where': 'added', 'shared': sh})
        if r.get('huge'):
            files.append({'idx': len(files), 'size': EXTENT_MAX + r['huge'], 'cid': 'huge', 'dir': False, 'where': 'added',
                          'huge': True})
        for f in files:
            f.update(self._paths(f['idx'], f['dir']))
            f['iso'] = f['iso_path']
            f['data'] = None if f.get('huge') else content(f['cid'], f['size'])
        parsed = r['flavour'] == 'parsed'
        for f in files:
            if f['where'] == 'base' and parsed:
                f['backing'] = 'image'
            elif f.get('shared'):
                f['backing'] = 'shared-fp'
            elif f.get('huge'):
                f['backing'] = 'pattern-fp'
            else:
                f['backing'] = 'own-fp-%d' % f['idx']
        self.files = files
        bf = None
        if r.get('boot') is not None:
            cands = [f for f in files if not f.get('huge')]
            bf = cands[r['boot'] % len(cands)]
            bf['boot'] = True
            bf['raw'] = bf['data']
            bf['data'] = None           # known once the file's extent is (first use, or the written image for base files)
        self.bootfile = bf

        def make_boot(iso):
            kw = {'boot_info_table': True}
            if r['rr']:
                kw['rr_bootcatname'] = 'boot.cat'
            if r['joliet']:
                kw['joliet_bootcatfile'] = '/boot.cat'
            if r['udf']:
                kw['udf_bootcatfile'] = '/boot.cat'
            iso.add_eltorito(bf['iso_path'], '/BOOT.CAT;1', **kw)
        any_dir = any(f['dir'] for f in files)
        shared_fp = io.BytesIO(content('shared', shared_max))
        self._keep = [shared_fp]

        def add(iso, f):
            if f.get('shared'):
                fp = shared_fp
            elif f.get('huge'):
                fp = PatternFile(f['size'])
                self._keep.append(fp)
            else:
                from vf.engine import ShortReads
                # (one source in four returns at most 700 bytes per read, as a raw stream may)
                fp = (ShortReads if f['idx'] % 4 == 1 else io.BytesIO)(f.get('raw') or f['data'])
                self._keep.append(fp)
            kw = {}
            if r['rr']:
                kw['rr_name'] = f['rr_path'].rsplit('/', 1)[1]
            if r['joliet']:
                kw['joliet_path'] = f['joliet_path']
            if r['udf']:
                kw['udf_path'] = f['udf_path']
            iso.add_fp(fp, f['size'], f['iso_path'], **kw)

        try:
            shim.reset(0)
            iso = pycdlib.PyCdlib()
            iso.new(interchange_level=3, rock_ridge=r['rr'], joliet=3 if r['joliet'] else None, udf='2.60' if r['udf'] else None)
            if any_dir:
                kw = {}
                if r['rr']:
                    kw['rr_name'] = 'd'
                if r['joliet']:
                    kw['joliet_path'] = '/d'
                if r['udf']:
                    kw['udf_path'] = '/d'
                iso.add_directory('/D', **kw)
            for f in files:
                if f['where'] == 'base':
                    add(iso, f)
            if bf is not None and bf['where'] == 'base':
                make_boot(iso)
            if parsed:
                out = io.BytesIO()
                iso.write_fp(out)
                iso.close()
                img = out.getvalue()
                if r.get('foreign') is not None and not r['udf']:
                    from vf import gen
                    from vf.indep import remaster
                    try:
                        alt = remaster.remaster(img, gen.foreign_style(r['foreign']))
                    except Exception:  # noqa  (harness module; counted)
                        alt = None
                        col.bump('remaster-failed')
                    if alt is not None:
                        img = alt
                        self.classes.add('image:re-mastered')
                self.cf = CountingFile(img)
                iso = pycdlib.PyCdlib()
                iso.open_fp(self.cf)
                for f in files:
                    if f['where'] == 'base' and f.get('boot'):
                        # on the image the file carries the table already; found by what follows the table
                        f['loc'] = None
                        if f['size'] >= 80:
                            p = img.find(f['raw'][64:])
                            if p >= 64 and (p - 64) % 2048 == 0 and img.find(f['raw'][64:], p + 1) < 0:
                                f['loc'] = p - 64
                        if f['loc'] is None:
                            col.bump('boot-file-unlocatable')
                        # (what readers get is the table for the extent the file has *now*: files added after the open may
                        # have moved it; the expectation is made at first use like for any other boot file)
                    elif f['where'] == 'base':
                        f['loc'] = None
                        if f['size'] >= 16:
                            p = img.find(f['data'])
                            if p >= 0 and p % 2048 == 0 and img.find(f['data'], p + 1) < 0:
                                f['loc'] = p
                        if f['loc'] is None:
                            col.bump('extent-unlocatable')
            for f in files:
                if f['where'] == 'added':
                    add(iso, f)
            if bf is not None and (bf['where'] != 'base'):
                make_boot(iso)
            self.iso = iso
        except Exception as e:  # set-up refusals/crashes are other properties' business; counted
            d = col.extra.setdefault('setup_failures', {})
            k = exc_signature(e)
            d[k] = d.get(k, 0) + 1
            col.inconclusive += 1
            return False
        self.ok = True
        self.classes.add('flavour:' + r['flavour'])
        self.classes.add('ns:rr=%s' % r['rr'])
        for k in ('joliet', 'udf'):
            if r[k]:
                self.classes.add('ns:' + k)
        if any_dir:
            self.classes.add('layout:subdirectory')
        if any(f.get('shared') for f in files):
            self.classes.add('backing:shared')
        for f in files:
            self.classes.add('size:%s' % (f['size'] if f['size'] in SIZES else '>4GiB' if f.get('huge') else 'small'))
        return True

    # -- helpers

    def _boot_expect(self, f):
        """The expected bytes of a boot file that is not on the opened image: its extent is only known once the library
        has laid the image out, which it must have done by the time it hands out bytes of this file; the extent is taken
        from the record now and verified against the written image at the end of the case (finish)."""
        if not f.get('boot') or f['data'] is not None:
            return True
        try:
            ext = self.iso.get_record(iso_path=f['iso_path']).extent_location()
        except Exception as e:   # noqa
            self._exc(e, 'get_record(iso_path=%r)' % f['iso_path'])
            return False
        f['data'] = bit_expected(f['raw'], ext)
        f['claimed-extent'] = ext
        self.classes.add('boot-info-table:%s' % f['backing'].split('-')[0])
        return True

    def _disturb(self, backing, what, but=None):
        for s in self.live:
            if s is not but and s.backing == backing:
                s.disturbed.append(what)

    def _mark_between(self, kind):
        for s in self.live:
            if s.nreads:
                s.between = True

    def _drop(self, s):
        if s in self.live:
            self.live.remove(s)
        try:
            s.real.__exit__(None, None, None)
        except Exception:
            pass
        self.log('%s dropped' % s.name)

    def _resync(self, s):
        """After a recorded failure: put implementation and shadow at the same position again
        (an explicit absolute seek repositions everything), or drop the stream."""
        try:
            want = s.shadow.tell()
            s.real.seek(want, 0)
            if s.real.tell() != want:
                raise ValueError('resync failed')
            s.disturbed = []
            self.log('%s resynchronised at %d' % (s.name, want))
        except Exception:
            self._drop(s)

    def _exc(self, e, what, s=None):
        self.fail('C16/exception/' + exc_signature(e), 'no-exception', '%s raised %r' % (what, e))
        if s is not None:
            self._drop(s)

    def _check_extent(self, f, before, what, disturbed=None):
        """CountingFile clause: reading base file f only touches image bytes inside its extent."""
        if self.cf is None or f['where'] != 'base' or f.get('loc') is None:
            return
        lo, hi = f['loc'], f['loc'] + f['size']
        bad = [(o, n) for (o, n) in self.cf.log[before:] if o < lo or o + n > hi]
        self.col.bump('extent-checks')
        if bad and disturbed:
            # returned data matched by coincidence (short reads of random bytes), but it was taken from another
            # place of the shared backing file: same family as interleave/read-wrong-bytes
            self.fail('C16/interleave/read-outside-file', 'extent',
                      '%s read image bytes %s outside the extent [%d, %d) of %s (the returned data equals the model by '
                      'coincidence); the backing file was used by: %s' % (what, bad[:4], lo, hi, f['iso'], '; '.join(disturbed[-4:])))
        elif bad:
            self.fail('C16/extent/read-outside-file', 'extent',
                      '%s read image bytes %s outside the extent [%d, %d) of %s' % (what, bad[:4], lo, hi, f['iso']))

    def _check_others(self, but=None):
        for s in list(self.live):
            if s is but:
                continue
            try:
                t = s.real.tell()
            except Exception as e:
                self._exc(e, '%s.tell() [invariant]' % s.name, s)
                continue
            if t != s.shadow.tell():
                self.fail('C16/interference/tell-changed', 'tell-invariant',
                          '%s.tell() == %d, model %d, after an operation that did not involve this stream' % (s.name, t, s.shadow.tell()))
                self._resync(s)

    def _check_pos(self, s, opname, before):
        """Invariant for the stream just operated on.  Returns True when positions agree."""
        try:
            t = s.real.tell()
        except Exception as e:
            self._exc(e, '%s.tell() [invariant after %s]' % (s.name, opname), s)
            return False
        want = s.shadow.tell()
        if t == want:
            return True
        if t == before and want != before:
            self.fail('C16/%s/position-not-advanced' % opname, 'tell-invariant',
                      'after %s on %s tell() is still %d, model %d' % (opname, s.name, t, want))
        else:
            self.fail('C16/%s/wrong-position' % opname, 'tell-invariant',
                      'after %s on %s tell() == %d, model %d (before: %d)' % (opname, s.name, t, want, before))
        self._resync(s)
        return False

    # -- one step

    def step(self, op):
        if not self.ok:
            return
        self.ops_done.append(op)
        name = op[0]
        getattr(self, 'op_' + name)(*op[1:])

    def _stream(self, sref, opname):
        if not self.live:
            self.col.bump('op-skipped:no-live-stream')
            return None
        s = self.live[sref % len(self.live)]
        self.col.bump('op:' + opname)
        self.classes.add('has:' + opname)
        if s.after_readinto:
            self.nt.add('readinto-then-op')
            s.after_readinto = False
        return s

    def op_open(self, fref, kref):
        if len(self.live) >= MAX_LIVE:
            self.col.bump('op-skipped:max-live')
            return
        f = self.files[fref % len(self.files)]
        kind = self.kinds[kref % len(self.kinds)]
        self.col.bump('op:open')
        self.classes.add('open:' + kind)
        self.classes.add('open:' + ('on-image' if f['backing'] == 'image' else 'added-unwritten'))
        name = 's%d' % self.nstream
        self.nstream += 1
        what = '%s = open_file_from_iso(%s=%r).__enter__()' % (name, kind, f[kind])
        try:
            real = self.iso.open_file_from_iso(**{kind: f[kind]})
            real.__enter__()
        except Exception as e:
            self.log(what + ' -> raised')
            self._exc(e, what)
            return
        if not self._boot_expect(f):
            try:
                real.__exit__(None, None, None)
            except Exception:  # noqa
                pass
            return
        if f.get('boot'):
            self.classes.add('open:boot-info-table-file')
        shadow = PatternFile(f['size']) if f.get('huge') else io.BytesIO(f['data'])
        s = _Stream(real, shadow, f['idx'], kind, name, f['backing'])
        self.live.append(s)
        self.log('%s  # size %d, %s' % (what, f['size'], f['backing']))
        self._disturb(f['backing'], 'open of ' + name, but=s)
        if len(set(x.backing for x in self.live)) < len(self.live):
            self.classes.add('live:streams-sharing-a-backing-file')
        ok = self._check_pos(s, 'open', 0)
        if ok and f.get('huge'):
            self._open_huge(s, f)
        self._check_others(but=s)

    def _open_huge(self, s, f):
        """Part of opening a stream over the multi-extent file: (1) canary - the stream must span the
        whole file (seek(0, 2) == size), otherwise ONE signature is recorded and the stream dropped, so
        the same root cause does not reappear under every later read/seek signature; (2) move to
        HUGE_BASE so that all generated reads stay small."""
        self.classes.add('open:multi-extent-file')
        try:
            end = s.real.seek(0, 2)
            s.shadow.seek(0, 2)
            self.log('%s.seek(0, 2) -> %r   [multi-extent file of %d bytes]' % (s.name, end, f['size']))
            if end != f['size']:
                which = ('first-extent-only' if end == EXTENT_MAX else 'last-extent-only' if end == f['size'] - EXTENT_MAX
                         else 'other-length')
                self.fail('C16/multi-extent/%s/stream-covers-%s' % (s.kind, which), 'position',
                          '%s over a %d-byte file (two extents: %d + %d): seek(0, 2) returned %r'
                          % (s.name, f['size'], EXTENT_MAX, f['size'] - EXTENT_MAX, end))
                self._drop(s)
                return
            got = s.real.seek(HUGE_BASE, 0)
            s.shadow.seek(HUGE_BASE, 0)
            self.log('%s.seek(%d, 0) -> %r' % (s.name, HUGE_BASE, got))
            if got != HUGE_BASE:
                self.fail('C16/seek/whence0-wrong-result', 'position', '%s.seek(%d, 0) returned %r' % (s.name, HUGE_BASE, got))
                self._drop(s)
        except Exception as e:
            self._exc(e, '%s.seek() while opening the multi-extent file' % s.name, s)

    def _read_like(self, s, opname, call_desc, do_real, do_shadow):
        f = self.files[s.fidx]
        size = f['size']
        before = s.shadow.tell()
        # non-triviality bookkeeping
        lrs = self.last_read_stream
        if lrs is not None and lrs is not s and lrs in self.live and len(self.live) >= 2:
            self.nt.add('interleaved-reads')
        if s.between and s.nreads:
            self.nt.add('extract-or-query-between-reads')
        s.between = False
        s.nreads += 1
        self.last_read_stream = s
        cf_before = len(self.cf.log) if self.cf is not None else 0
        want = do_shadow()
        try:
            got = do_real()
        except Exception as e:
            self.log('%s -> raised %r' % (call_desc, e))
            self._exc(e, call_desc, s)
            self._disturb(s.backing, opname + ' on ' + s.name, but=s)
            return
        self.log('%s -> %s   [pos %d of %d]' % (call_desc, _short(got), before, size))
        disturbed = s.disturbed
        if got == want and _payload(got):
            # non-empty correct data: the backing file was where this stream needed it, and is again
            s.disturbed = []
        self._disturb(s.backing, opname + ' on ' + s.name, but=s)
        if got != want:
            gb, wb = _payload(got), _payload(want)
            if len(gb) > len(wb) and before + len(gb) > size:
                self.fail('C16/%s/beyond-eof' % opname, 'never-beyond-end',
                          '%s at position %d of a %d-byte file returned %d bytes (model %d)' % (call_desc, before, size, len(gb), len(wb)))
            elif disturbed:
                self.fail('C16/interleave/read-wrong-bytes', 'exact-bytes',
                          '%s at position %d returned %s, model %s; since this stream last moved, the same backing file (%s) '
                          'was used by: %s' % (call_desc, before, _short(got), _short(want), s.backing, '; '.join(disturbed[-4:])))
            elif wb.startswith(gb) and type(got) is type(want) and not isinstance(got, tuple):
                self.fail('C16/%s/short' % opname, 'exact-bytes',
                          '%s at position %d returned %d bytes, model %d' % (call_desc, before, len(gb), len(wb)))
            else:
                self.fail('C16/%s/wrong-bytes' % opname, 'exact-bytes',
                          '%s at position %d returned %s, model %s' % (call_desc, before, _short(got), _short(want)))
            self._resync(s)
        else:
            self._check_extent(f, cf_before, call_desc, disturbed)
            self._check_pos(s, opname, before)
        self._check_others(but=s)

    def op_read(self, sref, n):
        s = self._stream(sref, 'read')
        if s is None:
            return
        self.classes.add('read-arg:' + ('None' if n is None else 'negative' if n < 0 else '0' if n == 0 else 'positive'))
        rem = self.files[s.fidx]['size'] - s.shadow.tell()
        if n is not None and n > rem >= 0:
            self.classes.add('read-arg:more-than-remaining')
        if rem < 0:
            self.classes.add('read-at:past-eof')
        self._read_like(s, 'read', '%s.read(%r)' % (s.name, n), lambda: s.real.read(n), lambda: s.shadow.read(n))

    def op_readall(self, sref):
        s = self._stream(sref, 'readall')
        if s is None:
            return
        self._read_like(s, 'readall', '%s.readall()' % s.name, lambda: s.real.readall(), lambda: s.shadow.read())

    def op_readinto(self, sref, k, bt=0):
        s = self._stream(sref, 'readinto')
        if s is None:
            return
        # buffer kinds: 0 bytearray(k), 1 memoryview(bytearray(k)), 2 array('H') of k bytes rounded down to even
        if bt == 2:
            k -= k % 2

        def mk():
            raw = bytearray(b'\xaa' * k)
            if bt == 1:
                return memoryview(raw)
            if bt == 2:
                return array.array('H', bytes(raw))
            return raw

        def real():
            b = mk()
            n = s.real.readinto(b)
            return (n, bytes(b))

        def shadow():
            b = mk()
            n = s.shadow.readinto(b)
            return (n, bytes(b))

        self.classes.add('readinto-buffer:' + ('bytearray', 'memoryview', 'array-H')[bt])
        desc = '%s.readinto(%s)' % (s.name, ('bytearray(%d)', 'memoryview(bytearray(%d))', "array('H', bytes(%d))")[bt] % k)
        self._read_like(s, 'readinto', desc, real, shadow)
        if s in self.live:
            s.after_readinto = True

    def op_seek(self, sref, off, whence):
        s = self._stream(sref, 'seek')
        if s is None:
            return
        size = self.files[s.fidx]['size']
        before = s.shadow.tell()
        lowest = HUGE_BASE if self.files[s.fidx].get('huge') else 0    # positions below `lowest` are not generated
        target = off if whence == 0 else (before + off if whence == 1 else size + off)
        if target < 0 and lowest == 0 and abs(off) % 3 == 0:
            # a seek to before the start of the file: the library documents that it refuses it (where io.BytesIO clamps or raises
            # ValueError); a refused seek must leave the stream where it was
            self.classes.add('seek:negative-target')
            desc = '%s.seek(%d, %d)' % (s.name, off, whence)
            try:
                got = s.real.seek(off, whence)
            except pex.PyCdlibInvalidInput:
                self.log(desc + ' -> refused   [from %d of %d]' % (before, size))
                self._check_pos(s, 'refused-negative-seek', before)
                self._check_others(but=s)
                return
            except Exception as e:
                self.log(desc + ' -> raised %r' % (e,))
                self._exc(e, desc + ' from position %d of %d' % (before, size), s)
                return
            self.log('%s -> %r   [negative target, from %d of %d]' % (desc, got, before, size))
            s.shadow.seek(0)
            if got != 0:
                self.fail('C16/seek/negative-target-accepted-wrong-result', 'position', '%s from position %d of a %d-byte file returned %r (a binary stream clamps to 0)' % (desc, before, size, got))
                self._resync(s)
            else:
                self._check_pos(s, 'clamped-negative-seek', before)
            return
        if whence == 0:
            off = lowest + max(off, 0)
        elif whence == 1:
            off = max(off, lowest - before)
        else:
            off = max(off, lowest - size)
        self.classes.add('seek:whence%d' % whence)
        want = s.shadow.seek(off, whence)
        if want > size:
            self.classes.add('seek:past-eof')
        desc = '%s.seek(%d, %d)' % (s.name, off, whence)
        try:
            got = s.real.seek(off, whence)
        except Exception as e:
            self.log(desc + ' -> raised %r' % (e,))
            self._exc(e, desc + ' from position %d of %d' % (before, size), s)
            return
        self.log('%s -> %r   [from %d of %d]' % (desc, got, before, size))
        s.disturbed = []
        self._disturb(s.backing, 'seek on ' + s.name, but=s)
        if got != want:
            self.fail('C16/seek/whence%d-wrong-result' % whence, 'position',
                      '%s from position %d of a %d-byte file returned %r, model %d' % (desc, before, size, got, want))
            self._resync(s)
        else:
            self._check_pos(s, 'seek-whence%d' % whence, before)
        self._check_others(but=s)

    def op_tell(self, sref):
        s = self._stream(sref, 'tell')
        if s is None:
            return
        self.log('%s.tell()' % s.name)
        self._check_pos(s, 'tell', -1)

    def op_close(self, sref):
        s = self._stream(sref, 'close')
        if s is None:
            return
        self.live.remove(s)
        try:
            s.real.__exit__(None, None, None)
        except Exception as e:
            self._exc(e, '%s.__exit__()' % s.name)
        self.log('%s.__exit__()' % s.name)
        if self.last_read_stream is s:
            self.last_read_stream = None
        self._check_others()

    def op_extract(self, fref, kref, blocksize):
        f = self.files[fref % len(self.files)]
        kind = self.kinds[kref % len(self.kinds)]
        if f.get('huge'):
            self._extract_huge(f, kind, blocksize)
            return
        self.col.bump('op:extract')
        self.classes.add('has:extract')
        self.classes.add('extract:' + kind)
        self.classes.add('extract:blocksize-%s' % ('1' if blocksize == 1 else '<2048' if blocksize < 2048 else '>=size' if blocksize >= f['size'] else 'mid'))
        self._mark_between('extract')
        desc = 'get_file_from_iso_fp(out, blocksize=%d, %s=%r)' % (blocksize, kind, f[kind])
        out = io.BytesIO()
        cf_before = len(self.cf.log) if self.cf is not None else 0
        try:
            self.iso.get_file_from_iso_fp(out, blocksize=blocksize, **{kind: f[kind]})
        except Exception as e:
            self.log(desc + ' -> raised %r' % (e,))
            self._exc(e, desc)
            self._disturb(f['backing'], 'extraction of ' + f['iso'])
            self._check_others()
            return
        got = out.getvalue()
        self.log('%s -> %s   [size %d, %s]' % (desc, _short(got), f['size'], f['backing']))
        self._disturb(f['backing'], 'extraction of ' + f['iso'])
        if not self._boot_expect(f):
            return
        if f.get('boot'):
            self.classes.add('extract:boot-info-table-file')
        want = f['data']
        if got != want:
            if len(got) > len(want):
                sig = 'C16/extract/beyond-eof'
            elif want.startswith(got):
                sig = 'C16/extract/short'
            else:
                sig = 'C16/extract/wrong-bytes'
            self.fail(sig, 'extract', '%s wrote %d bytes %s, expected %d bytes %s (first difference at %d)'
                      % (desc, len(got), _short(got), len(want), _short(want), _first_diff(got, want)))
        else:
            self._check_extent(f, cf_before, desc)
        self._check_others()

    def _extract_huge(self, f, kind, blocksize):
        """Extraction of the > 4 GiB file into a verifying sink that stops the copy (by raising from
        write) once a prefix has been checked: a complete copy would cost seconds per case.  So the oracle
        is partial: prefix bytes + 'did not stop early'."""
        self.col.bump('op:extract->4GiB')
        self.classes.add('has:extract->4GiB')
        self._mark_between('extract')
        limit = max(1 << 16, min(3 << 20, 2000 * blocksize))
        sink = _PrefixSink(f['size'], limit)
        desc = 'get_file_from_iso_fp(sink, blocksize=%d, %s=%r)' % (blocksize, kind, f[kind])
        try:
            self.iso.get_file_from_iso_fp(sink, blocksize=blocksize, **{kind: f[kind]})
            finished = True
        except _Enough:
            finished = False
        except Exception as e:
            self.log(desc + ' -> raised %r' % (e,))
            self._exc(e, desc)
            self._disturb(f['backing'], 'extraction of ' + f['iso'])
            self._check_others()
            return
        self.log('%s -> %d bytes%s   [size %d]' % (desc, sink.n, '' if finished else ' then stopped by the sink', f['size']))
        self._disturb(f['backing'], 'extraction of ' + f['iso'])
        if finished:
            which = ('last-extent-only' if sink.n == f['size'] - EXTENT_MAX else 'first-extent-only' if sink.n == EXTENT_MAX
                     else 'wrong-length')
            self.fail('C16/multi-extent/%s/extract-%s' % (kind, which), 'extract',
                      '%s wrote %d bytes in total, the file has %d (extents %d + %d)'
                      % (desc, sink.n, f['size'], EXTENT_MAX, f['size'] - EXTENT_MAX))
        elif sink.bad_at is not None:
            self.fail('C16/multi-extent/%s/extract-wrong-bytes' % kind, 'extract',
                      '%s: output differs from the file content at offset %d (%d bytes seen)' % (desc, sink.bad_at, sink.n))
        else:
            self.col.bump('extract->4GiB:prefix-verified-then-stopped')
        self._check_others()

    def op_replace(self, fref, salt):
        f = self.files[fref % len(self.files)]
        if f.get('huge') or f.get('boot') or f.get('shared') or any(s.fidx == f['idx'] for s in self.live):
            self.col.bump('op-skipped:replace')
            return
        r = self.recipe
        kw = {}
        if r['rr']:
            kw['rr_name'] = f['rr_path'].rsplit('/', 1)[1]
        if r['joliet']:
            kw['joliet_path'] = f['joliet_path']
        if r['udf']:
            kw['udf_path'] = f['udf_path']
        newsize = [1, 37, 2048, 2049, 300, f['size'] + 1, max(1, f['size'] - 1), 5000][salt % 8]
        new = content('r%d-%d' % (f['idx'], salt), newsize)
        what = 'rm_file(%r) + add_fp(%d bytes) under the same names' % (f['iso_path'], newsize)
        try:
            self.iso.rm_file(f['iso_path'], **kw)
            fp = io.BytesIO(new)
            self._keep.append(fp)
            self.iso.add_fp(fp, newsize, f['iso_path'], **kw)
        except Exception as e:   # noqa  (edits are other properties' business; the case ends here, counted)
            d = self.col.extra.setdefault('replace_failures', {})
            k = exc_signature(e)
            d[k] = d.get(k, 0) + 1
            self.log(what + ' -> raised %r' % (e,))
            self.ok = False
            return
        self.log(what)
        self.col.bump('op:replace')
        self.classes.add('has:replace')
        f.update(size=newsize, data=new, backing='own-fp-%d-r%d' % (f['idx'], salt), where='added', loc=None)
        self._mark_between('replace')

    def op_query(self, which, fref, kref):
        f = self.files[fref % len(self.files)]
        kind = self.kinds[kref % len(self.kinds)]
        self.col.bump('op:query-' + which)
        self.classes.add('has:query')
        self._mark_between('query')
        try:
            if which == 'list_children':
                path = f[kind].rsplit('/', 1)[0] or '/'
                desc = 'list(list_children(%s=%r))' % (kind, path)
                list(self.iso.list_children(**{kind: path}))
            elif which == 'walk':
                desc = 'list(walk(%s="/"))' % kind
                list(self.iso.walk(**{kind: '/'}))
            else:
                desc = 'get_record(%s=%r)' % (kind, f[kind])
                self.iso.get_record(**{kind: f[kind]})
            self.log(desc)
        except Exception as e:
            d = self.col.extra.setdefault('query_exceptions', {})
            k = which + ':' + exc_signature(e)
            d[k] = d.get(k, 0) + 1
            self.log('query %s raised %r (counted, not part of C16)' % (which, e))
        if self.cf is not None:
            self._disturb('image', 'query ' + which)
        self._check_others()

    def finish(self):
        if not self.ok:
            return
        for s in list(self.live):
            try:
                s.real.__exit__(None, None, None)
            except Exception:
                pass
        self.live = []
        bf = self.bootfile
        if bf is not None and bf.get('claimed-extent') is not None and not self.recipe.get('huge') and not self.sigs:
            # the extent the expectation was built from is the one the file really gets
            try:
                out = io.BytesIO()
                self.iso.write_fp(out)
                img = out.getvalue()
            except Exception as e:   # noqa  (mastering failures are C01's)
                self.col.bump('boot-verify-write-raised:' + exc_signature(e))
                img = None
            if img is not None:
                self.col.bump('boot-extent-verified')
                lo = bf['claimed-extent'] * 2048
                if img[lo:lo + bf['size']] != bf['data']:
                    p = img.find(bf['raw'][64:]) if bf['size'] >= 80 else -1
                    self.fail('C16/boot-info-table/bytes-handed-out-differ-from-the-written-image', 'stream',
                              'the readers of %s were given a boot info table for extent %d; the written image has the file at %s and %s there'
                              % (bf['iso'], bf['claimed-extent'], ('extent %d' % ((p - 64) // 2048)) if p >= 64 else '?', _short(img[lo:lo + 64])))
        try:
            self.iso.close()
        except Exception:
            pass
        for n in self.nt:
            self.classes.add('nontrivial:' + n)
        if self.sigs:
            self.classes.add('case-with-failure')
        self.col.case(self._case(), bool(self.nt), sorted(self.classes))


class _Enough(Exception):
    pass


class _PrefixSink:
    def __init__(self, size, limit):
        self.ref = PatternFile(size)
        self.limit = limit
        self.n = 0
        self.bad_at = None

    def write(self, d):
        if self.bad_at is None:
            want = self.ref.read(len(d))
            if want != d:
                self.bad_at = self.n + _first_diff(d, want)
        self.n += len(d)
        if self.n >= self.limit:
            raise _Enough()
        return len(d)

    def tell(self):
        return self.n


def _payload(v):
    """bytes carried by a return value (readinto returns (count, buffer))."""
    if isinstance(v, tuple):
        n = v[0] if isinstance(v[0], int) and v[0] >= 0 else 0
        return v[1][:n]
    return v if isinstance(v, (bytes, bytearray)) else b''


def _short(v):
    if isinstance(v, tuple):
        return '(%r, %s)' % (v[0], _short(v[1][:v[0]] if isinstance(v[0], int) and v[0] >= 0 else v[1]))
    if isinstance(v, (bytes, bytearray)):
        if len(v) <= 8:
            return '%r' % bytes(v)
        return '<%d bytes %s..>' % (len(v), bytes(v[:6]).hex())
    return repr(v)


def _first_diff(a, b):
    for i in range(min(len(a), len(b))):
        if a[i] != b[i]:
            return i
    return min(len(a), len(b))


def run_case(case, col, driver='data-program'):
    it = Interp(case['recipe'], col)
    if not it.setup():
        return it
    it.classes.add('driver:' + driver)
    for op in case['ops']:
        it.step(list(op))
    it.finish()
    return it


# ----------------------------------------------------------------------------- state machine variant

def make_machine(col):
    class C16Machine(RuleBasedStateMachine):
        def __init__(self):
            super().__init__()
            self.it = None

        @initialize(recipe=recipe_st())
        def build(self, recipe):
            self.it = Interp(recipe, col)
            if self.it.setup():
                self.it.classes.add('driver:state-machine')

        def _ok(self):
            return self.it is not None and self.it.ok

        @precondition(lambda self: not self._ok())
        @rule()
        def nothing_to_do(self):     # the set-up was refused (counted): the machine has no other rule to offer
            pass

        @precondition(lambda self: self._ok() and len(self.it.live) < MAX_LIVE)
        @rule(op=open_op)
        def open(self, op):
            self.it.step(op)

        @precondition(lambda self: self._ok() and self.it.live)
        @rule(op=st.one_of(read_op, read_op, readinto_op, readall_op))
        def read(self, op):
            self.it.step(op)

        @precondition(lambda self: self._ok() and self.it.live)
        @rule(op=st.one_of(seek_op, seek_op, tell_op))
        def seek_tell(self, op):
            self.it.step(op)

        @precondition(lambda self: self._ok() and len(self.it.live) > 1)
        @rule(op=close_op)
        def close(self, op):
            self.it.step(op)

        @precondition(lambda self: self._ok())
        @rule(op=st.one_of(extract_op, query_op, replace_op))
        def other(self, op):
            self.it.step(op)

        def teardown(self):
            if self.it is not None:
                self.it.finish()

    return C16Machine


# ----------------------------------------------------------------------------- runner interface

def _settings(n, **kw):
    return settings(max_examples=n, database=None, deadline=None, phases=[Phase.generate],
                    suppress_health_check=list(HealthCheck), report_multiple_bugs=False, **kw)


def shard(seed, tier, shard_no, nshards):
    shim.install('UTC')
    col = Collector()

    @hseed(seed * 64 + shard_no)
    @_settings(CASES[tier])
    @given(case_st())
    def t(case):
        run_case(case, col)

    t()
    if SM_CASES[tier]:
        machine = hseed(seed * 64 + shard_no)(make_machine(col))
        run_state_machine_as_test(machine, settings=_settings(SM_CASES[tier], stateful_step_count=30))
    return col.result()


class _Shim:
    """Install the determinism shim for the duration of a parent-process call (replay/shrink)
    and restore the real clock afterwards: the runner measures its wall time with time.time."""

    def __enter__(self):
        self.was = shim._State.installed
        shim.install('UTC')

    def __exit__(self, *a):
        if not self.was:
            shim.uninstall()


def replay(case, col):
    with _Shim():
        run_case(case, col, driver='replay')


def _fires(case, sig):
    col = Collector()
    run_case(case, col, driver='shrink')
    return sig in col.failures


def shrink(case, sig, max_trials=300):
    """ddmin over the op list, then a few recipe simplifications; keeps 'same signature fires'."""
    with _Shim():
        return _shrink(case, sig, max_trials)


def _shrink(case, sig, max_trials):
    budget = [max_trials]

    def fires(c):
        if budget[0] <= 0:
            return False
        budget[0] -= 1
        return _fires(c, sig)

    if not fires(case):
        return None
    recipe = case['recipe']
    ops = [list(o) for o in case['ops']]
    n = 2
    while len(ops) >= 2 and budget[0] > 0:
        chunk = max(1, len(ops) // n)
        reduced = False
        for i in range(0, len(ops), chunk):
            cand = ops[:i] + ops[i + chunk:]
            if cand and fires({'recipe': recipe, 'ops': cand}):
                ops = cand
                n = max(n - 1, 2)
                reduced = True
                break
        if not reduced:
            if chunk == 1:
                break
            n = min(n * 2, len(ops))
    # recipe simplifications (each kept only if the signature still fires)
    def try_recipe(r2):
        nonlocal recipe
        if fires({'recipe': r2, 'ops': ops}):
            recipe = r2
            return True
        return False

    for key in ('udf', 'joliet'):
        if recipe[key]:
            try_recipe(dict(recipe, **{key: False}))
    if recipe['rr']:
        try_recipe(dict(recipe, rr=None))
    if recipe.get('huge'):
        try_recipe(dict(recipe, huge=None))
    for lst in ('added', 'base'):
        i = 0
        while i < len(recipe[lst]) and budget[0] > 0:
            if len(recipe['base']) + len(recipe['added']) <= 1:
                break
            r2 = dict(recipe, **{lst: recipe[lst][:i] + recipe[lst][i + 1:]})
            if not try_recipe(r2):
                i += 1
    for lst in ('added', 'base'):
        for i, f in enumerate(recipe[lst]):
            for simpler in ({'dir': False}, {'share': False}):
                k = next(iter(simpler))
                if f.get(k) and budget[0] > 0:
                    nl = list(recipe[lst])
                    nl[i] = dict(f, **simpler)
                    try_recipe(dict(recipe, **{lst: nl}))
    # simplify numeric arguments of the remaining ops
    for i, op in enumerate(ops):
        for j in range(1, len(op)):
            if isinstance(op[j], int) and not isinstance(op[j], bool) and op[j] not in (0, 1) and budget[0] > 0:
                for v in (0, 1):
                    if op[0] == 'extract' and j == 3 and v == 0:
                        continue
                    cand = [list(o) for o in ops]
                    cand[i][j] = v
                    if fires({'recipe': recipe, 'ops': cand}):
                        ops = cand
                        op = ops[i]
                        break
    return {'recipe': recipe, 'ops': ops}
