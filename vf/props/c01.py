"""C01 Mastering fidelity: new -> edits -> write -> open shows exactly what the edits imply.

G: programs (config + symbolic edit ops) from all profiles on a fresh new() in every
   configuration; no reopen ops (that is C02).
O: write_fp must not raise; open_fp of the bytes by a fresh object must not raise; the API
   view of the reopened image equals the reference model's view in every namespace (paths,
   types, lengths, content hashes read with a drawn block size, RR symlink targets, hidden
   bits, RR modes).
"""
from hypothesis import strategies as st

from vf import shim, gen
from vf.campaign import drive, ddmin_ops, program_classes, refusal_reasons, clean_program, attribute_known
from vf.engine import Run, open_image, api_view, model_view, diff_views
from vf.runner import Collector, exc_signature

ID = 'C01'
LEVEL = 'exploration'
RULE = ('programs = config (level 1-4 x Joliet none/1/2/3 x RR none/1.09/1.10/1.12 x UDF x XA x consistency mode) + 5..200 symbolic '
        'edit ops (add_fp/add_file/add_directory/rm_file/rm_directory/add_hard_link/rm_hard_link/add_symlink/set_hidden/El Torito/isohybrid/'
        'duplicate_pvd/set_relocated_name/force_consistency/queries/extra writes) drawn by Hypothesis from the profiles mixed, growshrink, deep, '
        'links, boot (thorough: + manydirs). Non-trivial = the history contains a removal after an add, or a cross-namespace link, or a hard link, '
        'or a directory with > 35 entries, or an RR name > 150 bytes, or relocation, or El Torito - and the final image is not empty. '
        'Distinct = distinct canonical program JSON.')
ASSUMPTIONS = [
    'the reference model (vf/model.py) encodes the documented meaning of each edit; every model rule cites a docstring',
    'an edit the model considers valid but the library refuses with PyCdlibInvalidInput is an over-refusal: skipped, counted, and any failure of that program is re-confirmed on the refusal-free program',
    'bytes 8..63 of files carrying a boot info table are compared by C11, not here',
    'files > 4 GiB: one case per quick run, eight per thorough run (pattern source, sparse image file, streaming compare through every path kind)',
]
SHARDS = {'quick': 16, 'thorough': 16}
CASES = {'quick': 200, 'thorough': 6000}
NONTRIV = {'removal', 'cross-namespace-link', 'hard-link', 'relocation', 'eltorito', 'big-directory', 'long-rr-name'}


def strategy(tier):
    w = {'mixed': 5, 'growshrink': 2, 'deep': 2, 'links': 3, 'boot': 3, 'exactfill': 2, 'cegap': 2, 'samename': 2, 'ptedge': 1, 'bootlinks': 1, 'reloctwins': 1, 'readd': 2, 'symcomps': 1, 'rrfull': 1, 'twoboots': 1, 'linktwins': 1, 'fullcat': 1}
    if tier == 'thorough':
        w['manydirs'] = 1
    return st.tuples(gen.any_profile(reopen_ok=False, weights=w, with_manydirs=(tier == 'thorough')), st.sampled_from([1, 7, 512, 2048, 8192, 70000]))


def extra_classes(run):
    m = run.model
    cl = set()
    for ns in ('iso', 'jol', 'udf'):
        counts = {}
        for p in m.t[ns]:
            if p != '/':
                par = p.rsplit('/', 1)[0] or '/'
                counts[par] = counts.get(par, 0) + 1
        if counts and max(counts.values()) > 35:
            cl.add('big-directory')
    if m.rr and any(e.get('rr') and len(e['rr'].encode()) > 150 for e in m.t['iso'].values()):
        cl.add('long-rr-name')
    return cl


def oracle(program, blocksize=8192):
    """Returns (run, failures) where failures = [(sig, clause, msg)]."""
    shim.install('UTC')
    failures = []
    # a moving clock in half of the cases (views are compared, not bytes): whatever the library stamps twice must still agree
    shim.set_tick(len(program['ops']) % 2 == 1)
    run = Run(program)
    run.run_all()
    for pr in run.problems:
        failures.append(('C01/' + pr.sig, pr.clause, 'step %d: %s' % (pr.step, pr.msg)))
    if run.dead:
        run.close()
        return run, failures
    img = run.write()
    if img is None:
        pr = run.problems[-1]
        failures.append(('C01/' + pr.sig, pr.clause, 'final write: ' + pr.msg))
        run.close()
        return run, failures
    new = open_image(img)
    if isinstance(new, Exception):
        failures.append(('C01/reopen/' + exc_signature(new), 'reopen-raised',
                         'open_fp of the written image raised %s: %s' % (type(new).__name__, new)))
        run.close()
        return run, failures
    try:
        relocs = bool(run.model.relocated_dirs())
        got = api_view(new, run.model.has, bool(run.model.rr), blocksize, physical_iso=not relocs,
                       logical_iso_paths=[p for p in run.model.t['iso'] if p != '/'] if relocs else None)
    except Exception as e:  # noqa
        failures.append(('C01/api-view/' + exc_signature(e), 'view-raised', 'walking/reading the reopened image raised %s: %s' % (type(e).__name__, e)))
        got = None
    if got is not None:
        want = model_view(run.model)
        for ns, path, a, b in diff_views(got, want):
            failures.append((diff_sig(ns, a, b) + '/' + run.model.role(ns, path), 'view-mismatch', 'namespace %s path %r: image shows %r, edits imply %r' % (ns, _s(path), a, b)))
    try:
        new.close()
    except Exception:
        pass
    run.close()
    return run, failures


def _s(p):
    return p if p is None or len(p) < 80 else p[:40] + '...' + p[-20:]


def diff_sig(ns, a, b):
    if a is None:
        return 'C01/view/%s/missing-%s' % (ns, b[0])
    if b is None:
        return 'C01/view/%s/extra-%s' % (ns, a[0] if isinstance(a, tuple) else 'ns')
    if a[0] != b[0]:
        return 'C01/view/%s/type-%s-vs-%s' % (ns, a[0], b[0])
    if a[3] != b[3]:
        return 'C01/view/%s/hidden' % ns
    if a[0] == 'file' and (a[1] != b[1]):
        return 'C01/view/%s/length' % ns
    if a[0] == 'file' and a[2] != b[2]:
        return 'C01/view/%s/content' % ns
    if a[4] != b[4]:
        return 'C01/view/%s/symlink-target' % ns
    return 'C01/view/%s/mode' % ns


def run_case(case, col):
    program, blocksize = case
    run, failures = oracle(program, blocksize)
    cl = program_classes(run) | extra_classes(run)
    nonempty = any(len(t) > 1 for t in run.model.t.values())
    nontriv = bool(cl & NONTRIV) and nonempty
    col.case([program, blocksize], nontriv, sorted(cl))
    for k, v in refusal_reasons(run).items():
        col.extra.setdefault('over_refusals', {})
        col.extra['over_refusals'][k] = col.extra['over_refusals'].get(k, 0) + v
    col.extra['skipped_ops'] = col.extra.get('skipped_ops', 0) + len(run.skipped)
    col.extra['applied_ops'] = col.extra.get('applied_ops', 0) + len(run.applied)
    for k, v in getattr(run.model, 'avoided_counts', {}).items():
        col.extra.setdefault('avoided', {})
        col.extra['avoided'][k] = col.extra['avoided'].get(k, 0) + v
    rounds = 0
    while failures and run.refused and rounds < 6:
        # confirm on the refusal-free program (a non-atomic refusal is C14's business)
        rounds += 1
        clean = clean_program(run)
        run, failures2 = oracle(clean, blocksize)
        sigs2 = {f[0] for f in failures2}
        kept = [f for f in failures if f[0] in sigs2]
        col.extra['failures_not_confirmed_without_refusals'] = col.extra.get('failures_not_confirmed_without_refusals', 0) + (len(failures) - len(kept))
        failures = [f for f in failures2 if f[0] in {k[0] for k in kept}]
        program = clean
    if failures and run.refused:
        col.extra['failures_dropped_still_refusing'] = col.extra.get('failures_dropped_still_refusing', 0) + len(failures)
        failures = []
    if failures and not program.get('avoid'):
        failures = attribute_known(program, failures, lambda p: oracle(p, blocksize))
    seen = set()
    for sig, clause, msg in failures:
        if sig in seen:
            continue
        seen.add(sig)
        col.fail(sig, clause, msg, [program, blocksize])


HUGE_DELTAS = [5000, 1, 2048, 0xfffff800 + 1, 2049, 4096, 70000, 0xfffff800]


def huge_case(k, col):
    """One > 4 GiB (multi-extent) file between two small ones, in all four namespaces, written to a
    sparse file object, reopened from it and read back through every path kind (streaming compare)."""
    import io
    import pycdlib
    from vf.huge import PatternSource, SparseFile, VerifySink
    shim.install('UTC')
    size = 0xfffff800 + HUGE_DELTAS[k % len(HUGE_DELTAS)]
    case = {'huge': k, 'size': size}
    col.case(case, True, ['huge-file', 'huge-extents-%d' % ((size + 0xfffff7ff) // 0xfffff800)])
    try:
        iso = pycdlib.PyCdlib()
        iso.new(interchange_level=3, joliet=3, rock_ridge=['1.09', '1.12'][k % 2], udf='2.60')
        iso.add_fp(io.BytesIO(b'a' * 10), 10, '/A.;1', rr_name='a', joliet_path='/a', udf_path='/a')
        iso.add_fp(PatternSource(7 + k, size), size, '/BIG.;1', rr_name='big', joliet_path='/big', udf_path='/big')
        iso.add_fp(io.BytesIO(b'z' * 3000), 3000, '/Z.;1', rr_name='z', joliet_path='/z', udf_path='/z')
        if k % 3 == 1:
            iso.rm_file(iso_path='/A.;1')
        out = SparseFile()
        iso.write_fp(out, blocksize=1 << 20)
        iso.close()
    except Exception as e:  # noqa
        col.fail('C01/huge/build/' + exc_signature(e), 'huge', 'building / mastering an image with a %d-byte file raised %s: %s' % (size, type(e).__name__, e), case)
        return
    try:
        new = pycdlib.PyCdlib()
        new.open_fp(out)
    except Exception as e:  # noqa
        col.fail('C01/huge/reopen/' + exc_signature(e), 'huge', 'open_fp of the mastered image raised %s: %s' % (type(e).__name__, e), case)
        return
    for key, p in (('iso_path', '/BIG.;1'), ('rr_path', '/big'), ('joliet_path', '/big'), ('udf_path', '/big')):
        v = VerifySink(7 + k, size)
        try:
            new.get_file_from_iso_fp(v, blocksize=1 << 20, **{key: p})
        except Exception as e:  # noqa
            col.fail('C01/huge/%s/read/%s' % (key, exc_signature(e)), 'huge', 'reading the %d-byte file through %s raised %s: %s' % (size, key, type(e).__name__, e), case)
            continue
        if v.pos != size:
            col.fail('C01/huge/%s/length' % key, 'huge', 'the %d-byte file read back through %s has %d bytes' % (size, key, v.pos), case)
        elif v.first_bad is not None:
            col.fail('C01/huge/%s/content' % key, 'huge', 'the %d-byte file read back through %s differs from what was supplied at offset %d' % (size, key, v.first_bad), case)
    for key, p, want in (('iso_path', '/Z.;1', b'z' * 3000), ('udf_path', '/z', b'z' * 3000), ('joliet_path', '/z', b'z' * 3000)):
        o = io.BytesIO()
        try:
            new.get_file_from_iso_fp(o, **{key: p})
            if o.getvalue() != want:
                col.fail('C01/huge/neighbour-file/%s/content' % key, 'huge', 'the small file after the huge one reads back wrongly through %s' % key, case)
        except Exception as e:  # noqa
            col.fail('C01/huge/neighbour-file/%s/%s' % (key, exc_signature(e)), 'huge', 'reading the small file after the huge one raised %r' % (e,), case)
    try:
        new.close()
    except Exception:
        pass


def shard(seed, tier, shard_no, nshards):
    col = Collector()
    drive(strategy(tier), CASES[tier], seed * 64 + shard_no, lambda case: run_case(case, col))
    if (tier == 'quick' and shard_no == 0) or (tier == 'thorough' and shard_no < 8):
        huge_case(seed + shard_no, col)
    return col.result()


def replay(case, col):
    if isinstance(case, dict) and 'huge' in case:
        return huge_case(case['huge'], col)
    run_case((case[0], case[1]), col)


def shrink(case, sig):
    if isinstance(case, dict):
        return case
    program, blocksize = case

    base = sig.split('/known:')[0]

    def still(p):
        _, fs = oracle(p, blocksize)
        return any(f[0] == base for f in fs)
    return [ddmin_ops(program, still), blocksize]
