"""C17 In-place modification touches only what it must and stays a valid image.

G: an image produced by a generated program (files at depth 0-6, in directories of 1-4 sectors,
   hard-linked across ISO9660/Joliet/UDF, Rock Ridge with continuation areas, XA, level 4),
   written to a read/write file object and reopened; then 1-3 modify_file_in_place calls with
   new lengths {0, 1, same, up to the sector boundary, boundary + 1, one sector less} on targets
   {file, directory, missing path}.
O: refusal (PyCdlibInvalidInput): backing bytes identical.  Success: bytes that changed are confined
   to (the file's data sectors; the directory records of its ISO9660/Joliet names; the UDF file
   entry of the content; the volume-space-size and modification-date fields of the PVD/SVD/enhanced
   descriptors) as located by the independent readers on the pre-image; the backing file reopened
   by a fresh object and by the independent reader is a valid image in which every name of the
   content has the new bytes and length, and every other path is unchanged.
"""
import io

from hypothesis import strategies as st

from vf import shim, gen
from vf.engine import Run, open_image, api_view, model_view, diff_views
from vf.indep import iso9660, udf as iudf
from vf.indep.image import Image
from vf.model import content
from vf.propbase import EngineProperty
from vf.runner import exc_signature
from vf.props.c03 import CLAUSES
from vf.props.c01 import diff_sig

import pycdlib
from pycdlib import pycdlibexception as pex

ID = 'C17'
LEVEL = 'exploration'
RULE = ('cases = (program, 1-3 modifications): the program\'s final image is written to a BytesIO, opened from it, and each modification picks a target '
        '(file by ISO9660 path / directory / missing path) and a new length class. Non-trivial = an accepted modification whose target record is not in the '
        'first sector of its directory, or whose content has >= 2 names, or that is the second modification of the same file. Distinct = distinct canonical case JSON.')
ASSUMPTIONS = [
    'the image file object is an io.BytesIO (has no mode attribute, which the library accepts as writable)',
    'allowed changes are located on the pre-image by the independent readers; the library rewrites whole descriptors but only changed bytes count',
    'Interpretation: the 17-byte volume modification date field may change as well as the size fields (the statement lists "the size fields of the volume descriptors"; the date is re-stamped by every record() call and masked in C05 for the same reason)',
]
SHARDS = {'quick': 16, 'thorough': 16}
CASES = {'quick': 150, 'thorough': 5000}

MOD = st.fixed_dictionaries({'target': st.sampled_from(['file', 'file', 'file', 'file', 'file', 'dir', 'missing', 'after-edit']), 'i': st.integers(0, 999),
                             'len': st.sampled_from(['zero', 'one', 'same', 'same', 'boundary', 'boundary+1', 'minus-sector', 'minus-one', 'plus-one'])})


def strategy(tier):
    w = {'mixed': 4, 'growshrink': 4, 'deep': 1, 'links': 5, 'boot': 2, 'hybrid': 0, 'exactfill': 4, 'bootlinks': 1, 'linktwins': 2, 'samename': 1}
    mods = st.lists(MOD, min_size=1, max_size=3)
    # a third of the cases modify an independently re-mastered ("foreign") version of the image (vf/indep/remaster.py)
    foreign = st.integers(0, 1 << 30).map(lambda x: [{'foreign': gen.foreign_style(x)}])
    return st.tuples(gen.any_profile(reopen_ok=False, weights=w), st.one_of(mods, mods, st.builds(lambda f, m: f + m, foreign, mods)))


def new_length(kind, old):
    nsec = (old + 2047) // 2048
    return {'zero': 0, 'one': 1, 'same': old, 'boundary': max(nsec, 1) * 2048, 'boundary+1': max(nsec, 1) * 2048 + 1,
            'minus-sector': max(0, old - 2048), 'minus-one': max(0, old - 1), 'plus-one': old + 1}[kind]


def allowed_regions(img, info, uinfo, blob, model):
    """Byte intervals that a modification of `blob` may change, located on the pre-image."""
    out = []
    for d in info.get('pvds', []) + info.get('svds', []):
        base = d['sector'] * 2048
        out.append((base + 80, 8))
        out.append((base + 830, 17))
    trees = info.get('trees', {})
    for ns, p in blob.names:
        t = trees.get({'iso': 'iso', 'jol': 'joliet'}.get(ns, ''))
        e = t.get(p) if t is not None else None
        if e is None and ns == 'iso' and model.rr and info.get('rr'):
            # below a relocated directory the physical path differs from the logical one
            le = info['rr']['tree'].get(model.rr_path(p).encode('utf-8'))
            e = le.get('entry') if le else None
        if e is not None:
            for r in e['records']:
                out.append((r['offset'], r['len']))
            for ext, ln in e.get('extents', []):
                out.append((ext * 2048, ((max(ln, 1) + 2047) // 2048) * 2048))
        if ns == 'udf' and uinfo and p in uinfo.get('tree', {}):
            ue = uinfo['tree'][p]
            out.append((ue['fe_sector'] * 2048, 2048))
            for ext, ln in ue.get('extents', []):
                if ext is not None:
                    out.append((ext * 2048, ((max(ln, 1) + 2047) // 2048) * 2048))
    return out


def oracle(program, mods):
    shim.install('UTC')
    failures = []
    # a moving clock in half of the cases (views are compared, not bytes): whatever the library stamps twice must still agree
    shim.set_tick(len(program['ops']) % 2 == 1)
    run = Run(program)
    run.run_all()
    run.stats = {'c01_domain': 0, 'mods_accepted': 0, 'mods_refused': 0}
    run.c17 = set()
    img0 = None if (run.dead or run.problems) else run.write()
    run.close()
    if img0 is None:
        run.stats['c01_domain'] += 1
        return run, failures
    m = run.model
    mods = list(mods or [])
    if mods and 'foreign' in mods[0]:
        style = mods.pop(0)['foreign']
        if not m.has['udf'] and m.boot is None and m.hybrid is None:
            from vf.indep import remaster
            try:
                alt = remaster.remaster(img0, style)
            except Exception:  # noqa  (harness module; counted, never a violation)
                alt = None
                run.c17.add('remaster-failed')
            if alt is not None:
                img0 = alt
                run.c17.add('foreign-image')
    backing = io.BytesIO(img0)
    # whether the image as mastered is valid is C03's question; here only what a modification adds counts
    pre_clauses = set(c for c, _ in iso9660.read_iso(img0)['findings'])
    iso = pycdlib.PyCdlib()
    try:
        iso.open_fp(backing)
    except Exception:
        run.stats['c01_domain'] += 1
        return run, failures
    modified = {}
    for k, mod in enumerate(mods or []):
        pre = backing.getvalue()
        files = sorted(p for p, e in m.t['iso'].items() if e['type'] == 'file' and e['blob'] in m.blobs and not m.blobs[e['blob']].catalog)
        dirs = sorted(p for p, e in m.t['iso'].items() if e['type'] == 'dir' and p != '/')
        tgt = mod['target']
        blob = None
        pending = False
        if tgt == 'after-edit':
            # an edit between open() and the modification: the locations the object plans are then no longer those of the image
            # file, so the modification has to be refused (and leave the file alone)
            try:
                kw = {'rr_name': 'zz9pending'} if m.rr else {}
                iso.add_fp(io.BytesIO(b'p' * 5000), 5000, '/ZZ9P%d.;1' % k, **kw)
                if mod['i'] % 2:
                    iso.force_consistency()
                if mod['i'] % 3 == 0:
                    # ... also when the edited state has meanwhile been mastered into *another* file: the opened one keeps its layout
                    iso.write_fp(io.BytesIO())
                    run.c17.add('after-edit-and-write-elsewhere')
                pending = True
            except Exception:  # noqa
                pass
            tgt = 'file'
        if tgt == 'file' and files:
            path = files[mod['i'] % len(files)]
            blob = m.blobs[m.t['iso'][path]['blob']]
            old = blob.length
        elif tgt == 'dir' and dirs:
            path = dirs[mod['i'] % len(dirs)]
            old = 2048
        else:
            path = '/NOSUCH%d.;1' % k
            old = 10
            tgt = 'missing'
        if blob is not None and blob.length > (1 << 20):
            continue
        if blob is not None and blob.bit and not blob.boot_refs:
            continue        # a former boot file whose boot info table the library keeps patching: bytes 8..63 are not predictable
        if pending and tgt == 'file':
            tgt = 'file-after-edit'
        if blob is not None and blob.boot_refs:
            # a file that El Torito boots from is described by the boot catalog (and a boot info table) as well: the library
            # documents no support for rewriting those in place, so the call has to be refused like one on a directory
            tgt = 'bootfile'
        nl = new_length(mod['len'], old)
        cid = 700000 + 1000 * k + (blob.id if blob is not None else 0)
        data = content(cid, nl)
        info = iso9660.read_iso(pre)
        uinfo = iudf.read_udf(Image(pre)) if m.has['udf'] else None
        try:
            iso.modify_file_in_place(io.BytesIO(data), nl, path)
            accepted = True
        except pex.PyCdlibInvalidInput as e:
            accepted = False
        except Exception as e:  # noqa
            failures.append(('C17/exception/%s/%s' % (tgt, exc_signature(e)), 'raised', 'modify_file_in_place(%s, len %d -> %d) raised %s: %s' % (tgt, old, nl, type(e).__name__, e)))
            break
        post = backing.getvalue()
        same_sectors = ((old + 2047) // 2048) == ((nl + 2047) // 2048)
        if not accepted:
            run.stats['mods_refused'] += 1
            if post != pre:
                failures.append(('C17/refused-but-changed/%s/%s' % (tgt, mod['len']), 'refusal', 'a refused modify_file_in_place (%s, %d -> %d bytes) changed the image file' % (tgt, old, nl)))
            if pending:
                run.c17.add('refused-after-edit')
                break               # the object stays edited: nothing further can be modified in place
            if tgt == 'file' and same_sectors:
                run.stats['legal_modification_refused'] = run.stats.get('legal_modification_refused', 0) + 1
            continue
        run.stats['mods_accepted'] += 1
        if pending:
            failures.append(('C17/accepted-but-must-refuse/after-edit/%s' % ('forced' if mod['i'] % 2 else 'lazy'), 'refusal',
                             'modify_file_in_place was accepted although the object had been edited since it was opened (%d -> %d bytes)' % (old, nl)))
            break
        if tgt != 'file' or not same_sectors:
            failures.append(('C17/accepted-but-must-refuse/%s/%s' % (tgt, 'sector-count-changes' if tgt == 'file' else tgt), 'refusal',
                             'modify_file_in_place on a %s with %d -> %d bytes was accepted' % (tgt, old, nl)))
            break
        # classes
        t = info['trees']['iso']
        if path in t and t[path]['parent'] in t and (t[path]['records'][0]['offset'] // 2048) != t[t[path]['parent']]['extent']:
            run.c17.add('record-not-in-first-sector')
        if len(blob.names) >= 2:
            run.c17.add('content-with->=2-names')
        if blob.id in modified:
            run.c17.add('second-modification-of-same-file')
        modified[blob.id] = True
        # confinement
        if len(post) != len(pre):
            failures.append(('C17/image-length-changed', 'confinement', 'image file length %d -> %d' % (len(pre), len(post))))
        regions = allowed_regions(pre, info, uinfo, blob, m)
        mask = bytearray(len(pre))
        for off, ln in regions:
            mask[off:off + ln] = b'\x01' * max(0, min(ln, len(pre) - off))
        bad = None
        if post != pre:
            n = min(len(pre), len(post))
            i = 0
            # compare sector by sector for speed
            for sec in range(0, n, 2048):
                if pre[sec:sec + 2048] != post[sec:sec + 2048]:
                    for j in range(sec, min(sec + 2048, n)):
                        if pre[j] != post[j] and not mask[j]:
                            bad = j
                            break
                if bad is not None:
                    break
        if bad is not None:
            kind = iso9660.kind_of_sector(pre, bad // 2048) or 'unknown'
            failures.append(('C17/changed-outside-allowed/%s' % kind, 'confinement',
                             'byte %d (sector %d offset %d, %s) changed; it is neither the file\'s data, its records/file entry nor a size/date field' % (bad, bad // 2048, bad % 2048, kind)))
        # model update
        blob.length = nl
        blob.cid = cid
        blob.ckind = 0
    try:
        iso.close()
    except Exception:
        pass
    if run.stats['mods_accepted'] and not failures:
        final = backing.getvalue()
        info = iso9660.read_iso(final)
        for clause, msg in info['findings']:
            if clause in CLAUSES and clause not in pre_clauses:
                failures.append(('C17/invalid-after-modify/%s' % clause, 'valid-image', msg[:300]))
        # what an independent reader sees under every ISO9660 / Joliet name (the library's own API reads lengths from the shared
        # inode, so a record that was not rewritten does not show there)
        try:
            from vf.indep.views import iso_views
            iv = iso_views(final, info)
            want_v = model_view(m)
            relocs = bool(m.relocated_dirs())
            for ns in ('jol',) if relocs else ('iso', 'jol'):
                if iv.get(ns) is None or want_v.get(ns) is None:
                    continue
                for ns2, path, a, b in diff_views({ns: iv[ns]}, {ns: want_v[ns]}, ignore_mode=True):
                    if a is None or b is None or a[0] != 'file' or b[0] != 'file':
                        continue
                    failures.append(('C17/after-modify/independent-reader/%s/%s' % (ns, 'length' if a[1] != b[1] else 'content'), 'content',
                                     'after modify_file_in_place an independent reader finds %s path %r as %r, expected %r' % (ns, (path or '')[:70], a[:3], b[:3])))
        except Exception as e:  # noqa  (harness)
            run.c17.add('independent-view-failed')
        new = open_image(final)
        if isinstance(new, Exception):
            failures.append(('C17/reopen/' + exc_signature(new), 'valid-image', 'the modified image file cannot be opened: %s: %s' % (type(new).__name__, new)))
        else:
            try:
                relocs = bool(m.relocated_dirs())
                got = api_view(new, m.has, bool(m.rr), 8192, physical_iso=not relocs,
                               logical_iso_paths=[p for p in m.t['iso'] if p != '/'] if relocs else None)
                for ns, path, a, b in diff_views(got, model_view(m)):
                    failures.append((diff_sig(ns, a, b).replace('C01/', 'C17/after-modify/') + '/' + m.role(ns, path), 'content',
                                     'after modify_file_in_place: namespace %s path %r: image shows %r, expected %r' % (ns, (path or '')[:70], a, b)))
            except Exception as e:  # noqa
                failures.append(('C17/api-view/' + exc_signature(e), 'valid-image', 'listing the modified image raised %r' % (e,)))
            try:
                new.close()
            except Exception:
                pass
        if m.has['udf']:
            # (as for pre_clauses above: only what the modification adds; on a hybrid image the cylinder padding follows the last
            # anchor, so the anchor is looked for at the end of the volume)
            vol_ = iso9660.read_iso(img0).get('volume_size')
            last_ = (vol_ - 1) if (m.hybrid is not None and vol_) else None
            pre_u = set(c for c, _ in (iudf.read_udf(Image(img0), last_sector=last_) or {}).get('findings', []))
            u = iudf.read_udf(Image(final), last_sector=last_)
            for clause, msg in (u or {}).get('findings', []):
                if clause not in ('lvid-counts',) and clause not in pre_u:
                    failures.append(('C17/invalid-after-modify/udf/%s' % clause, 'valid-image', msg[:300]))
    return run, failures


def extra_classes(run):
    return set(getattr(run, 'c17', ()))


def nontrivial(run, cl):
    return bool(cl & {'record-not-in-first-sector', 'content-with->=2-names', 'second-modification-of-same-file'})


PROP = EngineProperty(ID, oracle, nontrivial, extra_classes)
shard = PROP.shard_fn(strategy, CASES)
replay = PROP.replay
shrink = PROP.shrink
