"""C09 Joliet fidelity: an independent tree of UCS-2 names over shared data.

G: Joliet levels 1-3; trees that diverge between Joliet and ISO9660 (Joliet-only / ISO-only
   entries), names from BMP + astral characters, 1..64 UTF-16 units, removals, many entries per
   directory; plus single-edit probes with names of 60..70 units for the refusal clause.
O: vf.indep.iso9660 decodes the supplementary descriptor on its own: the Joliet tree == the
   model's Joliet tree (names equal after UTF-16BE decoding, types, contents); every Joliet
   file shares its data sectors with an ISO9660 link of the same content when one exists;
   the Joliet descriptor's sizes, path tables, '.'/'..' and ordering are valid; the escape
   sequence matches the level.  A name longer than 64 UTF-16 units must be refused with
   PyCdlibInvalidInput; whatever is accepted must come back exactly.
"""
import io

from hypothesis import strategies as st

from vf import shim, gen
from vf.engine import Run, model_view, diff_views
from vf.indep import iso9660
from vf.indep.views import iso_views
from vf.model import content
from vf.propbase import EngineProperty
from vf.runner import exc_signature
from vf.props.c03 import CLAUSES

import pycdlib
from pycdlib import pycdlibexception as pex

ID = 'C09'
LEVEL = 'exploration'
RULE = ('two kinds of cases: (1) final write of generated programs on Joliet configurations (profiles mixed/growshrink/links/deep/boot with namespace masks that make the '
        'trees diverge); (2) single-edit probes adding one Joliet name of 60..70 UTF-16 units (ASCII, BMP, astral) to a fresh image. Non-trivial = divergent trees, or a '
        'non-ASCII name, or a name of >= 63 units, or a removal. Distinct = distinct canonical case JSON.')
ASSUMPTIONS = [
    'the independent reader decodes names as UTF-16BE (Joliet specifies UCS-2; astral characters appear as surrogate pairs and are counted as 2 units)',
    'Joliet symlink placeholders are zero-length files (the library documents that Joliet cannot hold symlinks)',
]
SHARDS = {'quick': 16, 'thorough': 16}
CASES = {'quick': 150, 'thorough': 5000}
ESC = {1: b'%/@', 2: b'%/C', 3: b'%/E'}

PROBE = st.fixed_dictionaries({'probe': st.just(True), 'joliet': st.sampled_from([1, 2, 3]), 'units': st.sampled_from([58, 62, 63, 63, 64, 64, 64, 65, 65, 66, 70]), 'alpha': st.sampled_from([0, 1, 2, 2, 2, 3]),
                               'dir': st.booleans(), 'level': st.sampled_from([1, 3, 4])})


def strategy(tier):
    cfg = gen.cfg_st(joliet=st.sampled_from([1, 2, 3, 3]))
    w = {'mixed': 4, 'growshrink': 3, 'deep': 1, 'links': 3, 'boot': 1, 'hybrid': 0}
    progs = st.one_of(gen.mixed(True, cfg), gen.growshrink(cfg, True), gen.links(cfg, True), gen.mixed(False, cfg, 8, 40), gen.boot(cfg), gen.deep(cfg), gen.samename(cfg, True), gen.samename(cfg, True), gen.readd(cfg, True), gen.exactfill(gen.cfg_st(joliet=st.sampled_from([1, 2, 3, 3]), rr=st.just(None), xa=st.just(False)), True), gen.exactfill(gen.cfg_st(joliet=st.sampled_from([1, 2, 3, 3]), rr=st.just(None), xa=st.just(False)), False))
    MODAUX = st.one_of(st.none(), st.none(), st.fixed_dictionaries({'mod': st.fixed_dictionaries({'i': st.integers(0, 999), 'len': st.sampled_from(['same', 'one-less', 'full', 'first'])})}))
    return st.tuples(st.one_of(progs, progs, PROBE), MODAUX)


def probe_name(units, alpha):
    if alpha == 0:
        return ('n' + 'abcdefghij' * 8)[:units]
    if alpha == 1:
        return ('é' + 'Ωж中文あא€ü' * 9)[:units]
    if alpha == 2:
        # astral characters: 2 units each
        s = 'a' if units % 2 else ''
        return s + '\U0001f600' * (units // 2)
    return ('x.' + 'y' * 80)[:units - 4] + '.tar'


class FakeRun:
    """Minimal stand-in so that the shared case bookkeeping works for probe cases."""

    def __init__(self, program):
        from vf.model import Model
        self.program = {'cfg': {'level': program['level'], 'joliet': program['joliet'], 'rr': None, 'udf': False}, 'ops': [], 'profile': 'probe'}
        self.cfg = self.program['cfg']
        self.model = Model(self.cfg)
        self.refused, self.skipped, self.applied, self.dead, self.problems = [], [], [], False, []
        self.stats = {}


def probe(program):
    shim.install('UTC')
    failures = []
    run = FakeRun(program)
    name = probe_name(program['units'], program['alpha'])
    units = len(name.encode('utf-16_be')) // 2
    run.model.classes.add('probe')
    run.model.classes.add('probe-units-%s' % ('>64' if units > 64 else ('63-64' if units >= 63 else '<63')))
    if any(ord(c) > 127 for c in name):
        run.model.classes.add('non-ascii-name')
    iso = pycdlib.PyCdlib()
    iso.new(interchange_level=program['level'], joliet=program['joliet'])
    kind = 'dir' if program['dir'] else 'file'
    try:
        if program['dir']:
            iso.add_directory(joliet_path='/' + name)
        else:
            iso.add_fp(io.BytesIO(b'joliet'), 6, joliet_path='/' + name)
        accepted = True
    except pex.PyCdlibInvalidInput as e:
        accepted = False
        msg = str(e)
    except Exception as e:  # noqa
        failures.append(('C09/probe/exception/' + exc_signature(e), 'refusal', 'adding a Joliet %s name of %d units raised %s: %s' % (kind, units, type(e).__name__, e)))
        return run, failures
    if units > 64 and accepted:
        failures.append(('C09/probe/too-long-accepted/%s' % kind, 'refusal', 'a Joliet %s name of %d UTF-16 units was accepted' % (kind, units)))
    if units <= 64 and not accepted:
        run.stats['legal_joliet_name_refused'] = 1      # over-refusal: counted, not a violation of this statement
    if accepted:
        out = io.BytesIO()
        try:
            iso.write_fp(out)
        except Exception as e:  # noqa
            failures.append(('C09/probe/write/' + exc_signature(e), 'refusal', 'write_fp after accepting a Joliet name of %d units raised %s: %s' % (units, type(e).__name__, e)))
            return run, failures
        info = iso9660.read_iso(out.getvalue())
        jt = info['trees'].get('joliet') or {}
        got = sorted(e['name'] for p, e in jt.items() if p != '/')
        if got != [name]:
            failures.append(('C09/probe/name-altered/%s/%s' % (kind, 'over-64' if units > 64 else 'within-limit'), 'refusal',
                             'Joliet name of %d units was accepted but the image holds %r' % (units, [g[:70] for g in got])))
    iso.close()
    return run, failures


def oracle(program, aux):
    if program.get('probe'):
        return probe(program)
    shim.install('UTC')
    failures = []
    shim.set_tick(len(program['ops']) % 2 == 1)      # a moving clock in half of the cases (nothing here compares bytes across runs)
    run = Run(program)
    run.run_all()
    run.stats = {'c01_domain': 0}
    img = None if (run.dead or run.problems) else run.write()
    if img is None:
        run.stats['c01_domain'] += 1
        run.close()
        return run, failures
    m = run.model
    if not check_image(run, img, failures, ''):
        run.close()
        return run, failures
    mod = (aux or {}).get('mod') if isinstance(aux, dict) else None
    if mod and not failures:
        # a last edit of another kind: replace one file's content in place in the written image file (same number of
        # sectors) and read the Joliet tree of *that file* again
        cands = sorted(p for p, e in m.t['iso'].items() if e['type'] == 'file' and e.get('blob') in m.blobs and not m.blobs[e['blob']].catalog
                       and not m.blobs[e['blob']].bit and not m.blobs[e['blob']].boot_refs and 0 < m.blobs[e['blob']].length <= (1 << 20)
                       and any(ns == 'jol' for ns, _ in m.blobs[e['blob']].names))
        if cands:
            path = cands[mod['i'] % len(cands)]
            blob = m.blobs[m.t['iso'][path]['blob']]
            nsec = (blob.length + 2047) // 2048
            nl = {'same': blob.length, 'one-less': max((nsec - 1) * 2048 + 1, blob.length - 1), 'full': nsec * 2048, 'first': (nsec - 1) * 2048 + 1}[mod['len']]
            backing = io.BytesIO(img)
            iso = pycdlib.PyCdlib()
            try:
                iso.open_fp(backing)
                cid = 800000 + blob.id
                iso.modify_file_in_place(io.BytesIO(content(cid, nl)), nl, path)
                iso.close()
            except Exception as e:  # noqa
                failures.append(('C09/modify-in-place/' + exc_signature(e), 'joliet-tree', 'modify_file_in_place(%r, %d -> %d bytes) raised %s: %s' % (path[:60], blob.length, nl, type(e).__name__, e)))
                run.close()
                return run, failures
            blob.length, blob.cid, blob.ckind = nl, cid, 0
            m.classes.add('modified-in-place')
            check_image(run, backing.getvalue(), failures, 'after-modify-in-place/')
    run.close()
    return run, failures


def check_image(run, img, failures, tag):
    m = run.model
    info = iso9660.read_iso(img)
    run.info = info
    jsvd = [s for s in info.get('svds', []) if s.get('kind') == 'joliet']
    if not jsvd:
        failures.append(('C09/%sno-joliet-descriptor' % tag, 'svd', 'no supplementary descriptor with a Joliet escape sequence'))
        return False
    if m.generation == 0 and jsvd[0]['escape'][:3] != ESC[run.cfg['joliet']]:
        failures.append(('C09/%sescape-sequence' % tag, 'svd', 'Joliet level %d asked for, escape sequence is %r' % (run.cfg['joliet'], jsvd[0]['escape'][:3])))
    for clause, msg in info['findings']:
        if clause in CLAUSES and msg.startswith('joliet:'):
            failures.append(('C09/%s%s' % (tag, clause), clause, msg[:500]))
    got = iso_views(img, info)
    want = model_view(m)
    for ns, path, a, b in diff_views({'jol': got.get('jol')}, {'jol': want.get('jol')}):
        kind = 'missing' if a is None else ('extra' if b is None else ('type' if a[0] != b[0] else ('hidden' if a[3] != b[3] else 'content')))
        failures.append(('C09/%stree/%s/%s' % (tag, kind, m.role('jol', path)), 'joliet-tree',
                         'Joliet path %r: independent reader finds %r, the edits imply %r' % ((path or '')[:90], a, b)))
    # shared data sectors with the ISO9660 link of the same content
    it = info['trees'].get('iso') or {}
    jt = info['trees'].get('joliet') or {}
    for b in m.blobs.values():
        if b.length == 0 or b.catalog:
            continue
        ext = set()
        for ns, p in b.names:
            t = it if ns == 'iso' else (jt if ns == 'jol' else None)
            if t is not None and p in t:
                ext.add(t[p]['extent'])
        if len(ext) > 1:
            failures.append(('C09/%sjoliet-file-not-sharing-iso-extent' % tag, 'shared-data', 'names %r of one content point at sectors %r' % (sorted(b.names)[:3], sorted(ext))))
    return True


def extra_classes(run):
    cl = set()
    m = run.model
    if any(any(ord(c) > 127 for c in p) for p in m.t['jol']):
        cl.add('non-ascii-name')
    if any(len(p.rsplit('/', 1)[-1].encode('utf-16_be')) // 2 >= 63 for p in m.t['jol'] if p != '/'):
        cl.add('name>=63-units')
    return cl


def nontrivial(run, cl):
    return bool(cl & {'divergent-trees', 'non-ascii-name', 'name>=63-units', 'removal', 'probe-units->64', 'probe-units-63-64'})


PROP = EngineProperty(ID, oracle, nontrivial, extra_classes)
shard = PROP.shard_fn(strategy, CASES)
replay = PROP.replay
shrink = PROP.shrink
