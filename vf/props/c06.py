"""C06 Lazy metadata is transparent: bytes depend only on the edits.

G: (program P, schedule sigma, mode): P has no query/force/write ops; sigma inserts
   force_consistency, record queries / walks and extra writes at drawn positions;
   mode = always_consistent in {False, True}.
O: bytes(P, lazy, no extras) == bytes(P under sigma, mode) for each drawn (sigma, mode);
   and after a force_consistency that is directly followed by a write, the extent and
   length that get_record reports for every model path equal what is found at that
   location in the image written next (the record's data extent holds the file's bytes;
   a directory's extent holds its own '.' record).
"""
import struct

from hypothesis import strategies as st

from vf import shim, gen
from vf.engine import Run
from vf.model import content
from vf.propbase import EngineProperty
from vf.props.c05 import first_diff, region

ID = 'C06'
LEVEL = 'exploration'
RULE = ('cases = (program, 2 schedules): the program is stripped of query/force/write ops and run lazily to get reference bytes; each schedule '
        're-runs it with force_consistency / get_record / list_children / walk / full_path_from_dirrecord / file_mode / extra write_fp calls inserted at '
        'drawn positions, in lazy or always-consistent mode. Non-trivial = a schedule places a recomputation (force, query or write) between two '
        'applied edits, or the modes differ. Distinct = distinct canonical (program, schedules) JSON.')
ASSUMPTIONS = [
    'time/uuid/random are pinned per op serial, so an inserted call cannot shift the values later ops see',
    'programs whose plain run already fails (C01 domain) are only counted',
]
SHARDS = {'quick': 16, 'thorough': 16}
CASES = {'quick': 120, 'thorough': 4000}

SCHED = st.lists(st.tuples(st.integers(0, 999), st.sampled_from(['force', 'force', 'query', 'query', 'write']), st.integers(0, 5), st.integers(0, 999)),
                 min_size=1, max_size=8)


def strategy(tier):
    w = {'mixed': 5, 'growshrink': 2, 'deep': 2, 'links': 3, 'boot': 3, 'hybrid': 2, 'bootlinks': 1, 'readd': 4, 'twoboots': 2}
    return st.tuples(gen.any_profile(reopen_ok=False, weights=w),
                     st.lists(st.tuples(SCHED, st.booleans()), min_size=2, max_size=2))


def strip(program):
    ops = [o for o in program['ops'] if o['k'] not in ('query', 'force', 'write', 'reopen')]
    return dict(program, ops=ops)


def weave(program, sched):
    ops = list(program['ops'])
    out = []
    ins = {}
    for pos, kind, q, i in sched:
        ins.setdefault((pos * (len(ops) + 1)) // 1000, []).append((kind, q, i))
    serial = 100000
    for idx in range(len(ops) + 1):
        for kind, q, i in ins.get(idx, []):
            serial += 1
            o = {'k': kind, 'n': serial}
            if kind == 'query':
                o.update(q=q, i=i)
            out.append(o)
        if idx < len(ops):
            out.append(ops[idx])
    return dict(program, ops=out)


def check_reported_locations(run, failures):
    """After force_consistency: what record queries report must be what the next image holds."""
    m = run.model
    iso = run.iso
    try:
        iso.force_consistency()
        reported = {}
        for ns, key in (('iso', 'iso_path'), ('jol', 'joliet_path')):
            if not m.has[ns]:
                continue
            for p, e in m.t[ns].items():
                if p == '/':
                    continue
                rec = iso.get_record(**{key: p})
                reported[(ns, p)] = (rec.extent_location(), rec.get_data_length(), e)
    except Exception as ex:  # noqa
        from vf.runner import exc_signature
        failures.append(('C06/force-then-query/' + exc_signature(ex), 'query-raised', 'force_consistency + get_record raised %r' % (ex,)))
        return
    img = run.write()
    if img is None:
        return
    for (ns, p), (ext, ln, e) in reported.items():
        if e['type'] == 'dir':
            sec = img[ext * 2048:ext * 2048 + 64]
            ok = len(sec) >= 34 and sec[0] >= 34 and sec[32] == 1 and sec[33] == 0 and struct.unpack_from('<L', sec, 2)[0] == ext
            if not ok:
                failures.append(('C06/reported-location/%s/dir' % ns, 'location-mismatch',
                                 'after force_consistency get_record(%s=%r) reports extent %d, but that sector of the next image does not start with the directory\'s own "." record' % (ns, p[:60], ext)))
        elif e['type'] == 'file':
            b = m.blobs.get(e['blob'])
            if b is None or b.catalog or b.length == 0 or b.length > (1 << 20):
                continue
            data = content(b.id, b.length, b.ckind)
            if ln != b.length:
                failures.append(('C06/reported-location/%s/file-length' % ns, 'location-mismatch',
                                 'get_record(%s=%r).get_data_length() = %d after force_consistency, file has %d bytes' % (ns, p[:60], ln, b.length)))
                continue
            got = img[ext * 2048:ext * 2048 + b.length]
            if b.bit:
                got, data = got[:8] + got[64:], data[:8] + data[64:]
            if got != data:
                failures.append(('C06/reported-location/%s/file-extent' % ns, 'location-mismatch',
                                 'after force_consistency get_record(%s=%r) reports extent %d, but the next image does not hold the file there' % (ns, p[:60], ext)))


def oracle(program, schedules):
    shim.install('UTC')
    failures = []
    base = strip(program)
    ref = Run(base, always_consistent=False)
    ref.run_all()
    ref.stats = {'c01_domain': 0, 'schedules_run': 0, 'bytes_compared': 0}
    ref_img = None if (ref.dead or ref.problems) else ref.write()
    if ref_img is None:
        ref.stats['c01_domain'] += 1
        ref.close()
        return ref, failures
    ref.woven_between = False
    for sched, mode in (schedules or []):
        woven = weave(base, sched)
        r = Run(woven, always_consistent=bool(mode))
        r.run_all()
        bad = [p for p in r.problems]
        if r.dead or bad:
            for p in bad:
                failures.append(('C06/scheduled-run/' + p.sig + ('/always-consistent' if mode else '/lazy'), p.clause,
                                 'the same edits succeed without the inserted calls but: step %d: %s' % (p.step, p.msg)))
            r.close()
            continue
        def serials(run_):
            # refused edits by the serial of the op (the inserted calls shift the indexes) and message
            return sorted((run_.ops[i].get('n'), m_) for i, m_ in run_.refused if not m_.startswith('query'))
        if serials(r) != serials(ref):
            # a different set of edits was accepted: not comparable (over-refusal differences are counted)
            ref.stats['refusal_sets_differ'] = ref.stats.get('refusal_sets_differ', 0) + 1
            a_, b_ = serials(r), serials(ref)
            only = [m_ for n_, m_ in a_ if (n_, m_) not in b_] + [m_ for n_, m_ in b_ if (n_, m_) not in a_]
            if only and not all(m_.startswith('write_fp:') for m_ in only):
                # an edit that is accepted or refused depending on when metadata was recomputed
                import re as _re
                failures.append(('C06/refused-depending-on-schedule/%s/%s' % (_re.sub(r'[^A-Za-z_]+', '-', only[0].split(':')[0])[:30], 'always-consistent' if mode else 'lazy'), 'schedule-dependent',
                                 'the same edits, with recomputations inserted, are refused differently: %s' % '; '.join(only[:3])[:400]))
            r.close()
            continue
        img = r.write()
        ref.stats['schedules_run'] += 1
        applied = set(r.applied)
        idx_edits = [i for i in range(len(woven['ops'])) if i in applied]
        if idx_edits:
            lo, hi = idx_edits[0], idx_edits[-1]
            if any(woven['ops'][i]['k'] in ('force', 'query', 'write') for i in range(lo, hi)):
                ref.woven_between = True
        if mode:
            ref.woven_between = True
        if img is None:
            p = r.problems[-1]
            failures.append(('C06/scheduled-run/' + p.sig + ('/always-consistent' if mode else '/lazy'), p.clause, 'final write under schedule: ' + p.msg))
        else:
            ref.stats['bytes_compared'] += 1
            off = first_diff(ref_img, img)
            if off is not None:
                reg = region(ref_img if off < len(ref_img) else img, min(off, max(len(ref_img), len(img)) - 1))
                kinds = sorted({k for _, k, _, _ in sched})
                failures.append(('C06/bytes-differ/%s/%s' % (reg, 'always-consistent' if mode else 'lazy+' + '+'.join(kinds)), 'schedule-dependent-bytes',
                                 'image differs at byte %d (sector %d, %s) between the plain lazy run and the run with %s inserted (always_consistent=%s); lengths %d vs %d'
                                 % (off, off // 2048, reg, kinds, bool(mode), len(ref_img), len(img))))
        if img is not None and not failures:
            check_reported_locations(r, failures)
        r.close()
    ref.close()
    return ref, failures


def nontrivial(run, cl):
    return bool(getattr(run, 'woven_between', False)) and run.stats.get('bytes_compared', 0) > 0


PROP = EngineProperty(ID, oracle, nontrivial)
shard = PROP.shard_fn(strategy, CASES)
replay = PROP.replay
shrink = PROP.shrink
