"""C15 Hostile or damaged images: open terminates with a documented error.

G: one decoder (base image index, patch list) -> bytes, driven by Hypothesis (quick tier) and
   additionally by atheris/libFuzzer with coverage feedback (thorough tier, vf/fuzz_c15.py).
   Bases: 48+8 small valid images built by the history engine in diverse configurations
   (ISO9660 levels, Rock Ridge with continuation areas and relocation, Joliet, UDF, El Torito
   with sections, isohybrid MBR/GPT/APM, XA, duplicate PVD).  Patches: truncation at a drawn length
   (sector multiples and interior points), replacement of a field from the base's field map (as
   decoded by the independent readers: lengths, extents, counts, tags, pointers) by
   {0, 1, 0xff.., +-1, the value of another field of the same kind (cycles), a value beyond the
   image, the byte-swapped value, random bytes}, raw byte flips in the metadata area.
O: PyCdlib().open_fp(CountingFile(BytesIO(img))) returns, or raises a subclass of
   PyCdlibException; anything else is a violation bucketed by (type, innermost /repo frame).
   Termination/memory: the CountingFile raises WorkExceeded once bytes read exceed
   64 * len(img) + 64 MiB or read calls exceed 64 * sectors + 100000 (deterministic); workers run
   under RLIMIT_AS (MemoryError is a violation) and a budget of 30 s of CPU time (ITIMER_VIRTUAL, independent of machine load) catches loops that do not read.
"""
import io
import json
import os
import resource
import signal
import struct
import zlib

from hypothesis import strategies as st

from vf import shim, gen, VERIF
from vf.campaign import drive
from vf.engine import Run
from vf.indep import iso9660, udf as iudf, hybrid as ihyb
from vf.indep.image import Image
from vf.runner import Collector, exc_signature

import pycdlib
from pycdlib import pycdlibexception as pex

ID = 'C15'
LEVEL = 'fault_enumeration'
RULE = ('cases = (base image, patch list) decoded to bytes; bases are valid images from the history engine, patches are truncations, field replacements taken from the '
        'independent readers\' field maps, and raw byte flips. Non-trivial = the patched bytes differ from the base in a region the parser read while opening the unpatched '
        'base (read log), or the image is truncated inside that region. Distinct = distinct (base, patches) pairs.')
ASSUMPTIONS = [
    'the documented exception types are the subclasses of pycdlib.pycdlibexception.PyCdlibException',
    'work bound: 64 x image size + 64 MiB bytes read, 64 x sectors + 100000 read calls; 30 s of CPU time (ITIMER_VIRTUAL; re-run once before reporting); RLIMIT_AS 4 GiB',
]
SHARDS = {'quick': 16, 'thorough': 16}
CASES = {'quick': 3000, 'thorough': 40000}
NBASES = 48
NEXTRA = 8
BASE_SEED = 20240607


class WorkExceeded(BaseException):
    pass


class Alarm(BaseException):
    pass


class CountingFile(io.BytesIO):
    def __init__(self, data, log=None):
        super().__init__(data)
        self.nbytes = 0
        self.ncalls = 0
        self.max_bytes = 64 * len(data) + (64 << 20)
        self.max_calls = 64 * (len(data) // 2048 + 1) + 100000
        self.log = log
        self.like_os_file = False

    def seek(self, pos, whence=0):
        # a file opened from the file system raises OSError (EINVAL) for a negative absolute position where io.BytesIO raises
        # ValueError; half of the cases behave like the former, so that both spellings of "field points before the image" are seen
        if self.like_os_file and whence == 0 and pos < 0:
            raise OSError(22, 'Invalid argument')
        return super().seek(pos, whence)

    def read(self, n=-1):
        pos = self.tell()
        if self.like_os_file and n is not None and n > self.max_bytes:
            # a file object of the operating system allocates the buffer for a read before it reads (io.BytesIO slices what
            # is there): a request out of all proportion to the image is memory out of proportion to the input
            raise MemoryError('read(%d) on a %d-byte image' % (n, len(self.getvalue())))
        b = super().read(n)
        self.nbytes += len(b)
        self.ncalls += 1
        if self.log is not None and b:
            self.log.append((pos, len(b)))
        if self.nbytes > self.max_bytes or self.ncalls > self.max_calls:
            raise WorkExceeded('%d bytes in %d reads of a %d-byte image' % (self.nbytes, self.ncalls, len(self.getvalue())))
        return b


_BASES = None


def bases():
    """Deterministic set of small valid base images with field maps and read maps."""
    global _BASES
    if _BASES is not None:
        return _BASES
    shim.install('UTC')
    out = []
    seen_cfg = set()
    pinned = os.path.join(os.path.dirname(os.path.abspath(__file__)), '..', 'data', 'c15_bases.json')
    programs = []
    all_built = []

    def body(p):
        if len(out) >= NBASES:
            return
        if len(p['ops']) > 40:
            p = dict(p, ops=p['ops'][:40])
        r = Run(p)
        r.run_all()
        img = None if (r.dead or r.problems) else r.write()
        r.close()
        if img is None or len(img) > 700 * 2048:
            return
        key = (tuple(sorted((k, str(v)) for k, v in p['cfg'].items())), p.get('profile'))
        if key in seen_cfg and len(out) < NBASES // 2:
            return
        seen_cfg.add(key)
        log = []
        try:
            iso = pycdlib.PyCdlib()
            iso.open_fp(CountingFile(img, log))
            iso.close()
        except Exception:
            return
        info = iso9660.read_iso(img)
        fields = list(info['fields'])
        try:
            u = iudf.read_udf(Image(img))
            if u:
                fields += list(u.get('fields', []))
            h = ihyb.read_hybrid(Image(img))
            if h:
                fields += list(h.get('fields', []))
        except Exception:
            pass
        fields = sorted(set((o, l, str(k).split('.')[-1].split('@')[0]) for o, l, k in fields if l > 0 and o + l <= len(img)))
        readmap = bytearray(len(img) // 2048 + 1)
        for pos, ln in log:
            for s in range(pos // 2048, (pos + ln - 1) // 2048 + 1):
                if s < len(readmap):
                    readmap[s] = 1
        all_built.append(None)
        out.append({'img': img, 'fields': fields, 'readmap': readmap, 'cfg': p['cfg'], 'profile': p.get('profile')})
        all_built[-1] = out[-1]
        programs.append(p)
    if os.path.exists(pinned):
        # the base programs are pinned (committed) so that replay files keep their meaning when the generators change
        saved = json.load(open(pinned))
        for p in saved:
            n0 = len(out)
            seen_cfg.clear()
            body(p)
            if len(out) == n0:
                raise RuntimeError('pinned C15 base program no longer yields an image; regenerate vf/data/c15_bases.json')
            if len(out) == NBASES:
                first_pinned = list(out)
                del out[:]
        out[:] = first_pinned + out
        for b in out:
            kinds = {}
            for f in b['fields']:
                kinds.setdefault(f[2], []).append(f)
            b['kinds'] = sorted(kinds.items())
        _BASES = out
        return out
    w = {'mixed': 3, 'growshrink': 1, 'deep': 2, 'links': 2, 'boot': 3, 'hybrid': 2}
    drive(gen.any_profile(reopen_ok=False, weights=w), 400, BASE_SEED, body)
    # indices NBASES.. : bases whose boot file really carries a boot info table (rare above)
    first = out[:NBASES]
    del out[:]
    extra = []

    def body2(p):
        if len(extra) >= NEXTRA:
            return
        body(p)
        if out:
            b = out.pop()
            if any(k == 'bit-pvd-extent' and b['img'][o:o + 4] == b'\x10\0\0\0' for o, l, k in b['fields']):
                extra.append(b)
        del out[:]
    drive(gen.any_profile(reopen_ok=False, weights={'boot': 3, 'hybrid': 1}), 600, BASE_SEED + 1, body2)
    out[:] = first + extra
    keep = []
    for b in out:
        keep.append(programs[[id(x) for x in all_built].index(id(b))])
    os.makedirs(os.path.dirname(pinned), exist_ok=True)
    json.dump(keep, open(pinned, 'w'))
    for b in out:
        kinds = {}
        for f in b['fields']:
            kinds.setdefault(f[2], []).append(f)
        b['kinds'] = sorted(kinds.items())
    _BASES = out
    return out


REPL = st.sampled_from(['zero', 'one', 'ff', 'plus1', 'minus1', 'other', 'beyond', 'swap', 'random', 'half', 'double'])
PATCH = st.one_of(
    st.tuples(st.just('field'), st.integers(0, 99999), REPL, st.integers(0, 0xffffffff)),
    # field kind drawn first, then the instance: rare kinds are patched as often as common ones
    st.tuples(st.just('kfield'), st.integers(0, 9999), st.integers(0, 99999), REPL, st.integers(0, 0xffffffff)),
    st.tuples(st.just('trunc'), st.integers(0, 99999), st.sampled_from(['sector', 'interior', 'inside-metadata'])),
    st.tuples(st.just('flip'), st.integers(0, 99999), st.integers(1, 255)),
)
REPL2 = st.sampled_from(['zero', 'zero', 'zero', 'ff', 'ff', 'random', 'one', 'minus1'])
# two fields of one structure patched together (a count and the stride it is multiplied with, a length and the offset it is
# added to ...): the field kind is drawn first over *all* bases, then a base that has it, then a neighbour within 64 bytes
VALUE_PAIRS = st.one_of(st.sampled_from([('zero', 'ff'), ('ff', 'zero'), ('zero', 'random'), ('random', 'zero'), ('ff', 'ff'), ('zero', 'zero'), ('one', 'ff'), ('ff', 'minus1')]),
                        st.tuples(REPL2, REPL2))
PAIR = st.builds(lambda k, i, n, vp, rnd: ('pair', k, i, n, vp[0], vp[1], rnd), st.integers(0, 9999), st.integers(0, 99999), st.integers(0, 99999), VALUE_PAIRS, st.integers(0, 0xffffffff))
# 'reseal': after the other patches, the tag (CRC and checksum) of every UDF descriptor that holds a patched byte is made
# valid again - what an adversary would do, and what a parser that trusts a valid tag is then exposed to
RESEALED = st.lists(PATCH, min_size=1, max_size=2).map(lambda l: l + [('reseal',)])
# pointers that take the value of another pointer of the same kind (or of a near-by value), with the descriptor resealed: the
# recipe for self-referencing structures (a directory entry that leads back to an ancestor, a continuation area that points
# at itself, a path table entry whose directory is its own parent ...)
POINTER_KINDS = ['fid-icb-lbn', 'fid-icb-lbn', 'fid-icb-lbn', 'current_lba', 'backup_lba', 'entries_lba', 'num_entries', 'ad-position', 'fsd-root-lbn', 'lvd-fsd-lbn', 'extent', 'extent', 'ce-block', 'cl-location', 'pl-location',
                 'pt-extent', 'pt-parent', 'eltorito-load-rba', 'eltorito-catalog-pointer', 'anchor-main-location', 'lvd-integrity-location']
POINTER = st.builds(lambda k, i, r, rnd: [('nfield', k, i, r, rnd), ('reseal',)], st.sampled_from(POINTER_KINDS), st.integers(0, 99999),
                    st.sampled_from(['other', 'other', 'other', 'minus1', 'plus1', 'zero']), st.integers(0, 0xffffffff))
# sizes, counts and locations that are *smaller* than anything derived from them expects (value - 256, value - 1, value // n ...)
SIZE_KINDS = ['volume-space-size', 'volume-space-size', 'volume-space-size', 'path-table-size', 'data-length', 'pd-length', 'pd-start', 'anchor-main-length', 'lvd-integrity-length',
              'lvid-size-table', 'last_usable', 'first_usable', 'block_count', 'fe-info-length', 'ad-length', 'ce-length', 'logical-block-size', 'pt-l-location', 'anchor-main-location']
SMALLER = st.builds(lambda k, i, r, rnd, seal: [('nfield', k, i, r, rnd)] + ([('reseal',)] if seal else []), st.sampled_from(SIZE_KINDS), st.integers(0, 99999),
                    st.sampled_from(['small', 'small', 'nearv']), st.integers(0, 0xffffffff), st.booleans())
# ... and lengths that are far *larger* than the image, with the descriptor resealed so that the parser believes it: every
# length that open() passes to read() (a file object of the operating system allocates before it reads)
LENGTH_KINDS = ['anchor-main-length', 'anchor-reserve-length', 'lvd-integrity-length', 'ad-length', 'fid-icb-length', 'fsd-root-length', 'lvd-fsd-length', 'ce-length', 'data-length',
                'path-table-size', 'num_entries', 'pd-length', 'fe-info-length', 'fe-ad-length', 'fe-ea-length', 'lvd-map-table-length', 'lvid-impl-use-length', 'entry_size', 'tag-crc-length']
LARGER = st.builds(lambda k, i, rnd, seal: [('nfield', k, i, 'large', rnd)] + ([('reseal',)] if seal else []), st.sampled_from(LENGTH_KINDS), st.integers(0, 99999),
                   st.integers(0, 0xffffffff), st.sampled_from([True, True, False]))
CASE = st.one_of(
    st.tuples(st.integers(0, 9999), SMALLER),
    st.tuples(st.integers(0, 9999), LARGER),
    st.tuples(st.integers(0, NBASES + NEXTRA - 1), st.lists(PATCH, min_size=1, max_size=3)),
    st.tuples(st.integers(0, NBASES + NEXTRA - 1), st.lists(PATCH, min_size=1, max_size=3)),
    st.tuples(st.integers(0, NBASES + NEXTRA - 1), RESEALED),
    st.tuples(st.integers(0, 9999), POINTER),
    st.tuples(st.integers(0, 9999), st.tuples(PAIR).map(list)),
    st.tuples(st.integers(0, 9999), st.tuples(PAIR).map(list)),
)
_GLOBAL_KINDS = None


def resolve_base(bi, patches, bl):
    """Base image index of a case: drawn directly, or - for 'pair' cases - one of the bases that have the drawn field kind."""
    global _GLOBAL_KINDS
    if patches and patches[0][0] == 'nfield':
        have = [i for i, b in enumerate(bl) if any(k == patches[0][1] for k, _ in b['kinds'])]
        return have[bi % len(have)] if have else bi % len(bl)
    if patches and patches[0][0] == 'pair':
        if _GLOBAL_KINDS is None:
            g = {}
            for i, b in enumerate(bl):
                for k, _ in b['kinds']:
                    g.setdefault(k, []).append(i)
            _GLOBAL_KINDS = sorted(g.items())
        kind, where = _GLOBAL_KINDS[patches[0][1] % len(_GLOBAL_KINDS)]
        return where[bi % len(where)]
    return bi % len(bl)


def apply_patches(base, patches):
    img = bytearray(base['img'])
    fields = base['fields']
    touched = []
    desc = []
    for p in patches:
        kind = p[0]
        if kind == 'kfield' and fields:
            insts = base['kinds'][p[1] % len(base['kinds'])][1]
            p = ('field', fields.index(insts[p[2] % len(insts)])) + tuple(p[3:])
            kind = 'field'
        if kind == 'nfield' and fields:
            insts = dict(base['kinds']).get(p[1])
            if not insts:
                continue
            p = ('field', fields.index(insts[p[2] % len(insts)])) + tuple(p[3:])
            kind = 'field'
        if kind == 'pair' and fields:
            gk = dict(base['kinds'])
            names = sorted(gk)
            want = _GLOBAL_KINDS[p[1] % len(_GLOBAL_KINDS)][0] if _GLOBAL_KINDS else names[p[1] % len(names)]
            insts = gk.get(want) or gk[names[p[1] % len(names)]]
            anchor = insts[p[2] % len(insts)]
            near = [f for f in fields if f != anchor and abs(f[0] - anchor[0]) <= 64 and f[0] // 2048 == anchor[0] // 2048 and f[1] in (1, 2, 4, 8)]
            todo = [(anchor, p[4])]
            if near:
                todo.append((near[p[3] % len(near)], p[5]))
            for (off, ln, fk), rk in todo:
                old = bytes(img[off:off + ln])
                if len(old) < ln or ln not in (1, 2, 4, 8):
                    continue
                v = int.from_bytes(old[:min(ln, 4)], 'little')
                nv = newval(v, rk, p[6], len(img), fields, fk, img, ln) & ((1 << (8 * min(ln, 4))) - 1)
                new = nv.to_bytes(min(ln, 4), 'little')
                if ln == 8:
                    # both-endian 32-bit (ISO9660) or a 64-bit little-endian number (GPT): keep both readings consistent
                    new = new + (nv.to_bytes(4, 'big') if old[:4] == old[7:3:-1] else bytes(4))
                img[off:off + ln] = new
                touched.append(off)
                desc.append(('field', fk, rk))
            continue
        if kind == 'raw':
            blob = bytes.fromhex(p[1])
            img[32768:32768 + len(blob)] = blob
            touched.append(32768)
            desc.append(('raw',))
        elif kind == 'field' and fields:
            off, ln, fk = fields[p[1] % len(fields)]
            old = bytes(img[off:off + ln])
            if len(old) < ln:
                continue
            rk, rnd = p[2], p[3]
            if ln == 8 and fk not in ('x',):       # both-endian 32-bit
                v = struct.unpack_from('<L', old, 0)[0]
                nv = newval(v, rk, rnd, len(img), fields, fk, img, 8)
                new = struct.pack('<L', nv & 0xffffffff) + struct.pack('>L', nv & 0xffffffff)
                if rk == 'swap':
                    new = old[4:] + old[:4]
            elif ln == 4:
                v = struct.unpack_from('<L', old, 0)[0]
                nv = newval(v, rk, rnd, len(img), fields, fk, img, 4)
                new = struct.pack('<L', nv & 0xffffffff)
                if rk == 'swap':
                    new = old[::-1]
            elif ln == 2:
                v = struct.unpack_from('<H', old, 0)[0]
                nv = newval(v, rk, rnd, len(img), fields, fk, img, 2)
                new = struct.pack('<H', nv & 0xffff)
                if rk == 'swap':
                    new = old[::-1]
            elif ln == 1:
                nv = newval(old[0], rk, rnd, len(img), fields, fk, img, 1)
                new = bytes([nv & 0xff])
            else:
                fill = {'zero': b'\0', 'ff': b'\xff'}.get(rk)
                new = (fill * ln) if fill else bytes((rnd >> (8 * (i % 4))) & 0xff for i in range(ln))
            img[off:off + ln] = new
            touched.append(off)
            desc.append(('field', fk, rk))
        elif kind == 'trunc':
            n = len(img)
            mode = p[2]
            if mode == 'sector':
                cut = (p[1] % (n // 2048 + 1)) * 2048
            elif mode == 'inside-metadata':
                lim = min(n, 2048 * 300)
                cut = 32768 + p[1] % max(1, lim - 32768)
            else:
                cut = p[1] % (n + 1)
            del img[cut:]
            touched.append(cut)
            desc.append(('trunc', mode))
        elif kind == 'flip':
            if fields and p[1] % 3:
                off = fields[p[1] % len(fields)][0] + (p[1] // 7) % 4
            else:
                off = 32768 + p[1] % max(1, min(len(img), 2048 * 200) - 32768)
            if off < len(img):
                img[off] ^= p[2]
                touched.append(off)
                desc.append(('flip',))
    if any(p[0] == 'reseal' for p in patches):
        tags = sorted(f[0] for f in fields if f[2] == 'tag-ident')
        done = set()
        for x in touched:
            import bisect
            k = bisect.bisect_right(tags, x) - 1
            if k < 0:
                continue
            t = tags[k]
            if t in done or x - t >= 2048 or t + 16 > len(img):
                continue
            done.add(t)
            crc_len = struct.unpack_from('<H', img, t + 10)[0]
            if x >= t + 16 and x < t + 16 + crc_len and t + 16 + crc_len <= len(img):
                struct.pack_into('<H', img, t + 8, _crc_ccitt(bytes(img[t + 16:t + 16 + crc_len])))
            img[t + 4] = 0
            img[t + 4] = sum(img[t:t + 16]) & 0xff
            desc.append(('reseal',))
        # GPT headers: CRC32 of the header with its CRC field zeroed
        import zlib
        for x in touched:
            h = (x // 512) * 512
            if h in done or h + 92 > len(img) or bytes(img[h:h + 8]) != b'EFI PART' or not (h <= x < h + 92):
                continue
            done.add(h)
            hsize = min(struct.unpack_from('<L', img, h + 12)[0], 512)
            if 16 <= x < 20:
                continue            # the CRC field itself was the target
            raw = bytearray(img[h:h + hsize])
            raw[16:20] = b'\0\0\0\0'
            struct.pack_into('<L', img, h + 16, zlib.crc32(bytes(raw)) & 0xffffffff)
            desc.append(('reseal-gpt',))
    return bytes(img), touched, desc


def _crc_ccitt(data):
    crc = 0
    for b in data:
        crc ^= b << 8
        for _ in range(8):
            crc = ((crc << 1) ^ 0x1021) & 0xffff if crc & 0x8000 else (crc << 1) & 0xffff
    return crc


def newval(v, rk, rnd, n, fields, fk, img, width):
    if rk == 'zero':
        return 0
    if rk == 'one':
        return 1
    if rk == 'ff':
        return (1 << (8 * min(width, 4))) - 1
    if rk == 'plus1':
        return v + 1
    if rk == 'minus1':
        return v - 1
    if rk == 'half':
        return v // 2
    if rk == 'double':
        return v * 2
    if rk == 'beyond':
        return n // 2048 + 1 + rnd % 1000
    if rk == 'large':
        return [0x3ffff800, 0x3fffffff, 0x7fffffff, 0xfffff800, 0xffffffff, 0x40000000, n * 3][rnd % 7]      # far larger than the image (with and without the bits ECMA-167 masks off)
    if rk == 'small':
        return rnd % 300          # a size / count / location that is too small rather than too large (anything derived as "value - constant" goes negative)
    if rk == 'nearv':
        return v - 1 - rnd % 300
    if rk == 'other':
        same = [f for f in fields if f[2] == fk and f[1] == (8 if width == 8 else width)]
        if same:
            o, l, _ = same[rnd % len(same)]
            chunk = bytes(img[o:o + l])
            if len(chunk) == l and l in (8, 4, 2, 1):
                return struct.unpack_from({8: '<L', 4: '<L', 2: '<H', 1: 'B'}[l], chunk, 0)[0]
        return rnd
    return rnd


def open_one(data):
    """Returns None (ok / documented exception) or (sig, msg)."""
    fp = CountingFile(data)
    fp.like_os_file = bool(zlib.crc32(data) & 1)
    iso = pycdlib.PyCdlib()
    if zlib.crc32(data) & 6 == 2 and _WARM:
        # the object has had another (valid, larger) image open before: close() documents that it can be used again, and
        # nothing it remembers of the earlier image may matter for this one
        try:
            iso.open_fp(PaddedFile(_WARM[0]))
            iso.close()
        except Exception:   # noqa  (not the subject here)
            iso = pycdlib.PyCdlib()
    try:
        iso.open_fp(fp)
    except pex.PyCdlibException:
        return None
    except WorkExceeded as e:
        return ('C15/unbounded-work/' + where(e), 'work bound exceeded: %s' % e)
    except MemoryError as e:
        return ('C15/memory/' + where(e), 'MemoryError while opening a %d-byte image' % len(data))
    except RecursionError as e:
        return ('C15/exception/RecursionError@' + where(e), 'RecursionError')
    except Alarm:
        raise
    except Exception as e:  # noqa
        return ('C15/exception/' + exc_signature(e), '%s: %s' % (type(e).__name__, str(e)[:200]))
    try:
        iso.close()
    except Exception:
        pass
    return None


_WARM = []     # [bytes of the largest base image], filled by the shard


class PaddedFile(io.RawIOBase):
    """A valid image followed by (virtual) zeros up to 1 TiB: a large medium that holds a small volume."""
    SIZE = 1 << 40

    def __init__(self, data):
        super().__init__()
        self.data, self.pos = data, 0

    def readable(self):
        return True

    def seekable(self):
        return True

    def seek(self, off, whence=0):
        self.pos = off if whence == 0 else (self.pos + off if whence == 1 else self.SIZE + off)
        return self.pos

    def tell(self):
        return self.pos

    def read(self, n=-1):
        if n is None or n < 0 or n > (1 << 24):
            n = 1 << 24
        d = self.data[self.pos:self.pos + n]
        d += bytes(max(0, min(n, self.SIZE - self.pos) - len(d)))
        self.pos += len(d)
        return d


def where(e):
    s = exc_signature(e)
    return s.split('@', 1)[1] if '@' in s else s


def _alarm(signum, frame):
    raise Alarm()


def run_case(case, col, bl):
    if not _WARM:
        _WARM.append(min((b['img'] for b in bl), key=len))        # (the smallest: it is opened once more per case)
    bi, patches = case
    base = bl[resolve_base(bi, patches, bl)]
    data, touched, desc = apply_patches(base, [tuple(p) for p in patches])
    rm = base['readmap']
    nontriv = any((t // 2048) < len(rm) and rm[t // 2048] for t in touched) and data != base['img']
    classes = ['base:%s' % base.get('profile')] + ['patch:' + '/'.join(d[:2] if d[0] != 'field' else (d[0], d[1])) for d in desc]
    classes += ['repl:' + d[2] for d in desc if d[0] == 'field']
    col.case([bi, [list(p) for p in patches]], nontriv, classes)
    # the budget is CPU time of this process (ITIMER_VIRTUAL), not wall-clock time: a loaded machine must not look like an endless loop
    signal.signal(signal.SIGVTALRM, _alarm)
    res = None
    for attempt in (1, 2):
        signal.setitimer(signal.ITIMER_VIRTUAL, 30)
        try:
            res = open_one(data)
            break
        except Alarm:
            if attempt == 2:
                res = ('C15/timeout-30s', 'open_fp used 30 s of CPU time (twice) on a %d-byte image' % len(data))
            else:
                col.bump('alarm-first-attempt')
        except MemoryError:
            # raised while the first MemoryError was being handled: still the same outcome
            res = ('C15/memory/while-handling', 'MemoryError while opening a %d-byte image' % len(data))
            break
        finally:
            signal.setitimer(signal.ITIMER_VIRTUAL, 0)         # never leave a timer pending: it would go off inside the driver
    if res is None:
        col.bump('outcome:ok-or-documented')
    else:
        col.bump('outcome:violation')
        col.fail(res[0], 'undocumented-exception' if '/exception/' in res[0] else 'termination', res[1] + '; patches %r' % (desc,), [bi, [list(p) for p in patches]])


def shard(seed, tier, shard_no, nshards):
    shim.install('UTC')
    try:
        resource.setrlimit(resource.RLIMIT_AS, (4 << 30, 4 << 30))
    except Exception:
        pass
    bl = bases()
    col = Collector()
    col.extra['bases'] = len(bl)
    drive(CASE, CASES[tier], seed * 64 + shard_no, lambda case: run_case(case, col, bl))
    if tier == 'thorough' and shard_no == 0:
        try:
            from vf import fuzz_c15
            fuzz_c15.campaign(col, seed)
        except Exception as e:  # atheris missing or failing is recorded, not hidden
            col.extra['atheris'] = 'not run: %r' % (e,)
    return col.result()


def replay(case, col):
    shim.install('UTC')
    run_case((case[0], [tuple(p) for p in case[1]]), col, bases())


def shrink(case, sig):
    """Drop patches one at a time while the same signature fires."""
    shim.install('UTC')
    bl = bases()
    bi, patches = case[0], [tuple(p) for p in case[1]]

    def fires(ps):
        data, _, _ = apply_patches(bl[resolve_base(bi, ps, bl)], ps)
        r = open_one(data)
        return r is not None and r[0] == sig
    changed = True
    while changed and len(patches) > 1:
        changed = False
        for i in range(len(patches)):
            cand = patches[:i] + patches[i + 1:]
            if fires(cand):
                patches = cand
                changed = True
                break
    return [bi, [list(p) for p in patches]]
