"""C18 Derived names are always legal.

G: 1-5 source names (st.text over a nasty alphabet: ASCII both cases, dots, semicolons,
   spaces, control characters, case-mapping expanders, combining marks, CJK, astral;
   lengths 1..12, 28..34, 200..260; plus already-legal identifiers built constructively
   per level and lower-cased / padded variants of them) x level 1-4 x {file, dir, symlink}
   x facade {rr, joliet, udf}.
O: (a) utils.mangle_file_for_iso9660 / mangle_dir_for_iso9660 never raise;
   (b) the identifier composed the way facade.py ('.'.join) and pycdlib-genisoimage
       (no dot when the extension part is empty) compose it is legal per vf/legal.py and
       is accepted by add_fp/add_directory on a fresh image of that level (directly and
       through the ISO9660 facade of a Rock Ridge image), which then writes, reopens and
       finds it;
   (c) identity (modulo canonical separator and the appended ';1') on already-legal input;
   (d) through the Rock Ridge / Joliet / UDF facade: add succeeds, the entry is found by
       the same facade path (get_record, list_children, open_file_from_iso,
       get_file_from_iso_fp) with its own content, rm removes exactly it, and the same
       holds after write + reopen.
"""
import io

from hypothesis import given, settings, seed as hseed, strategies as st, HealthCheck, Phase

from vf import shim, legal
from vf.runner import Collector, exc_signature

ID = 'C18'
LEVEL = 'exploration'
RULE = ('cases = (interchange level 1-4, facade in rr/joliet/udf, 1-5 entries (source name, kind file/dir/symlink)) '
        'drawn by Hypothesis; source names are st.text over a nasty alphabet (ASCII both cases, dot, semicolon, '
        'space, control characters, the case-mapping expanders ß ŉ ǰ ﬁ İ ı, combining marks, CJK, astral) with '
        'lengths 1..12, 28..34 or 200..260, or already-legal identifiers built per level, or lower-cased / '
        'over-long variants of those; never empty, ".", "..", nor containing "/" or NUL. Non-trivial = some '
        'source name is not already legal for the level, or contains a character whose upper-casing changes '
        'length, or has a length within 1 of a truncation limit (8/3 at level 1, 30/31 at levels 2-3). Distinct = '
        'distinct canonical JSON of the case.')
ASSUMPTIONS = [
    'vf/legal.py is the reference for "legal for the requested interchange level" (shared with C13)',
    '"already legal" for the identity clause means: legal per vf/legal.py, no semicolon, and within the length the '
    'helpers document as their target (8.3 at level 1; name+extension <= 30, directories <= 31 at levels 2-3); '
    'longer legal inputs that get truncated are counted (identity:truncated-legal-input), not failed',
    'the identity is modulo the canonical separator: "FOO" and "FOO." denote the same (name, extension) pair',
    'entries of one image whose derived ISO names collide are skipped and counted: the facades have no collision '
    'numbering and the statement covers single derived names',
    'Rock Ridge facade names longer than one NM field (250 bytes), Joliet names over 64 units and UDF names over '
    '255 bytes are illegal in their own namespace (C13) and are skipped for clause (d)',
    'Rock Ridge images use version 1.09 (the library\'s documented default recommendation)',
]
SHARDS = {'quick': 16, 'thorough': 16}
CASES = {'quick': 2500, 'thorough': 30000}
MIN_NONTRIVIAL = {'quick': 5000, 'thorough': 40000}

EXPANDERS = 'ßŉǰﬁİ'


def compose(level, kind, name, how):
    """Derived ISO identifier exactly as facade.py ('facade') or
    tools/pycdlib-genisoimage build_iso_path ('genisoimage') compose it."""
    from pycdlib import utils
    if kind == 'dir':
        return utils.mangle_dir_for_iso9660(name, level)
    base, ext = utils.mangle_file_for_iso9660(name, level)
    if how == 'genisoimage' and ext == '':
        return base
    return '.'.join([base, ext])


def already_legal(level, kind, name):
    """-> (verdict, truncation_expected): verdict True when the source name is a legal
    identifier without version; truncation_expected True when it is longer than the
    form the helpers document as their target."""
    b = name.encode('utf-8')
    if kind == 'dir':
        ok = legal.legal_iso_dir(b, level)[0] is True
        return ok, ok and level in (2, 3) and len(b) > 31
    if ';' in name:
        return False, False
    ok = legal.legal_iso_file(b, level)[0] is True
    nm, ext, _ = legal.split_file_identifier(b)
    return ok, ok and level in (2, 3) and len(nm) + len(ext or b'') > 30


def shape(level, kind, name):
    """Coarse description of a source name used in signatures (never the name)."""
    if level == 4:
        return 'level4-passthrough'
    tags = []
    if any(len(c.upper()) != 1 for c in name):
        tags.append('case-expander')
    if kind != 'dir':
        if name.endswith('.'):
            tags.append('trailing-dot')
        elif '.' in name and len(name.rsplit('.', 1)[1]) > 3:
            tags.append('ext-longer-than-3')
    return '+'.join(tags) or 'plain'


def cause(level, name):
    """Why a derived identifier can be illegal: the helper upper-cases after truncating
    (levels 1-3) or passes the source through untouched (level 4)."""
    if level == 4:
        return 'level4-passthrough'
    return 'case-expander' if any(len(c.upper()) != 1 for c in name) else 'other'


def nontrivial_name(level, kind, name):
    if already_legal(level, kind, name)[0] is not True:
        return True
    if any(len(c.upper()) != 1 for c in name):
        return True
    stem = name.rsplit('.', 1)[0] if (kind != 'dir' and '.' in name) else name
    lims = (8,) if level == 1 else (30, 31) if level < 4 else ()
    return any(abs(len(stem) - l) <= 1 for l in lims)


class Fail(Exception):
    def __init__(self, what, msg):
        Exception.__init__(self, msg)
        self.what = what


def lib(col, case, sig_prefix, clause, what, fn):
    """Run a library call; an exception becomes a recorded failure.  Returns (ok, value)."""
    try:
        return True, fn()
    except Exception as e:
        if exc_signature(e).endswith('outside-repo'):
            raise
        col.fail('%s/%s/%s' % (sig_prefix, what, exc_signature(e)), clause,
                 '%s raised %s: %s' % (what, type(e).__name__, str(e)[:160]), case)
        return False, None


def content_of(i):
    return ('C18 entry %d ' % i).encode() * (i + 1)


# ------------------------------------------------------------------------------------
# clauses a, b, c
# ------------------------------------------------------------------------------------

def check_mangle(case, col):
    """Clauses (a) (b-legal) (c) per entry; returns the derived names (facade composition)
    or None for entries whose helper raised."""
    level = case['level']
    derived = []
    for name, kind in case['entries']:
        k = 'dir' if kind == 'dir' else 'file'
        try:
            d_f = compose(level, k, name, 'facade')
            d_g = compose(level, k, name, 'genisoimage')
        except Exception as e:
            col.fail('C18/a/mangle-raises/%s/%s' % (k, exc_signature(e)), 'a',
                     'mangle_%s_for_iso9660 raised %s: %s' % (k, type(e).__name__, str(e)[:120]), case)
            derived.append(None)
            continue
        derived.append(d_f)
        for how, d in (('facade', d_f), ('genisoimage', d_g)):
            if how == 'genisoimage' and d == d_f:
                continue
            if not isinstance(d, str):
                col.fail('C18/a/mangle-returns-non-str/%s' % k, 'a', 'derived name is %r' % type(d), case)
                continue
            b = d.encode('utf-8')
            v = legal.legal_iso_dir(b, level) if k == 'dir' else legal.legal_iso_file(b, level)
            if v[0] is False:
                col.fail('C18/b/derived-illegal/%s/%s/%s/%s' % (k, 'l%d' % level if level in (1, 4) else 'l2-3',
                                                              v[1].replace(' ', '-'), cause(level, name)), 'b',
                         'derived %s identifier (%s composition) of %d bytes is not legal at level %d: %s'
                         % (k, how, len(b), level, v[1]), case)
            elif v[0] is None:
                col.bump('derived-silent:%s' % v[1])
            if v[0] is not False and level in (2, 3):
                # the form the helpers document as their target at levels 2-3 (ECMA-119 7.5.1 / 7.6.3): name + extension of a file
                # at most 30 characters, a directory identifier at most 31
                if k == 'dir':
                    over = len(b) > 31
                else:
                    dn_, de_, _dv = legal.split_file_identifier(b)
                    over = len(dn_) + len(de_ or b'') > 30
                if over:
                    col.fail('C18/b/derived-illegal/%s/l2-3/longer-than-%d/%s' % (k, 31 if k == 'dir' else 30, cause(level, name)), 'b',
                             'derived %s identifier (%s composition) %r... has %d bytes: longer than the %s the helpers truncate to at level %d'
                             % (k, how, d[:12], len(b), '31 characters' if k == 'dir' else '30 characters of name + extension', level), case)
        # (c) identity on already-legal input
        ok, trunc = already_legal(level, k, name)
        if ok:
            if k == 'dir':
                same = d_f == name
            else:
                nm, ext, _ = legal.split_file_identifier(name.encode('utf-8'))
                dn, de, dv = legal.split_file_identifier(d_f.encode('utf-8'))
                same = (dn, de or b'') == (nm, ext or b'') and dv == (None if level == 4 else b'1')
            if same:
                col.bump('identity:held')
            elif trunc:
                col.bump('identity:truncated-legal-input')
            else:
                col.fail('C18/c/not-identity/%s/%s/%s' % (k, 'l%d' % level if level in (1, 4) else 'l2-3', shape(level, k, name)), 'c',
                         'source %s name is already legal at level %d but the helper changed it (%d -> %d characters)'
                         % (k, level, len(name), len(d_f)), case)
    return derived


def check_real_add(case, col, derived):
    """Clause (b), second half: the library accepts the derived identifiers in a real edit,
    the image writes, reopens, and each is found.  `via` alternates between the plain API
    and the ISO9660 facade of a Rock Ridge image (which derives the RR name with the same
    helpers)."""
    import pycdlib
    from pycdlib.pycdlibexception import PyCdlibInvalidInput
    level = case['level']
    via = 'iso9660-facade' if case.get('via_facade') else 'api'
    shim.reset(0)
    iso = pycdlib.PyCdlib()
    iso.new(interchange_level=level, rock_ridge='1.09' if via == 'iso9660-facade' else None)
    fac = iso.get_iso9660_facade() if via == 'iso9660-facade' else None
    added = []
    seen = set()
    seen_rr = set()
    for i, ((name, kind), d) in enumerate(zip(case['entries'], derived)):
        if d is None:
            continue
        if d in seen or d.strip('.') == '' or '/' in d:
            col.bump('skipped:derived-collision' if d in seen else 'skipped:derived-not-a-component')
            continue
        seen.add(d)
        k = 'dir' if kind == 'dir' else 'file'
        if fac:
            # the ISO9660 facade derives the Rock Ridge name from the ISO name with the
            # same helpers; two entries may not share it (no collision numbering)
            try:
                rrd = compose(level, k, d, 'facade')
            except Exception:
                rrd = None   # reported by the add below
            if rrd is not None and rrd in seen_rr:
                col.bump('skipped:derived-rr-collision')
                continue
            seen_rr.add(rrd)
        b = d.encode('utf-8')
        su = legal.RR_MIN_SYSTEM_USE if fac else 0   # the facade variant runs on a Rock Ridge image
        v = legal.legal_iso_dir(b, level, su) if k == 'dir' else legal.legal_iso_file(b, level, su)
        shim.reset(i + 1)
        try:
            if k == 'dir':
                if fac:
                    fac.add_directory('/' + d)
                else:
                    iso.add_directory('/' + d)
            else:
                c = content_of(i)
                if fac:
                    fac.add_fp(io.BytesIO(c), len(c), '/' + d)
                else:
                    iso.add_fp(io.BytesIO(c), len(c), '/' + d)
        except Exception as e:
            refused = isinstance(e, PyCdlibInvalidInput)
            if exc_signature(e).endswith('outside-repo'):
                raise
            dl = 'derived-legal' if v[0] else ('derived-illegal:' if v[0] is False else 'derived-') + v[1].replace(' ', '-')
            if refused and dl == 'derived-legal':
                # say which rule the library invoked, so that a known finding can be matched narrowly
                why = 'semicolon' if 'semicolon' in str(e) else ('version' if 'version' in str(e) else 'other')
                sig = 'C18/b/library-refuses-derived/%s/%s/l%d/%s:%s' % (via, k, level, dl, why)
            elif refused:
                sig = 'C18/b/library-refuses-derived/%s/%s/%s' % (via, k, dl)
            else:
                sig = 'C18/b/library-crashes-on-derived/%s/%s/%s' % (via, k, exc_signature(e))
            col.fail(sig, 'b', 'the library did not accept the %s identifier (%s) its own helper derived at level %d: %s: %s'
                     % (k, dl, level, type(e).__name__, str(e)[:120]), case)
            if not refused:
                iso.close()
                return
            continue
        added.append((i, k, d, v[0]))
    if not added:
        iso.close()
        return
    out = io.BytesIO()
    bad = any(a[3] is False for a in added)
    ok, _ = lib(col, case, 'C18/b/%s' % via, 'b', 'write_fp-after-illegal-derived-accepted' if bad else 'write_fp', lambda: iso.write_fp(out))
    iso.close()
    if not ok:
        return
    iso2 = pycdlib.PyCdlib()
    ok, _ = lib(col, case, 'C18/b/%s' % via, 'b', 'open_fp', lambda: iso2.open_fp(io.BytesIO(out.getvalue())))
    if not ok:
        return
    try:
        for i, k, d, _v in added:
            ok, rec = lib(col, case, 'C18/b/%s/%s' % (via, k), 'b', 'get_record-after-reopen', lambda: iso2.get_record(iso_path='/' + d))
            if not ok:
                continue
            if rec.file_identifier() != d.encode('utf-8') or rec.is_dir() != (k == 'dir'):
                col.fail('C18/b/%s/%s/wrong-entry-after-reopen' % (via, k), 'b', 'get_record(iso_path=derived) returned another entry', case)
            elif k == 'file':
                buf = io.BytesIO()
                ok, _ = lib(col, case, 'C18/b/%s/%s' % (via, k), 'b', 'get_file_from_iso_fp-after-reopen',
                            lambda: iso2.get_file_from_iso_fp(buf, iso_path='/' + d))
                if ok and buf.getvalue() != content_of(i):
                    col.fail('C18/b/%s/file/wrong-content-after-reopen' % via, 'b', 'derived path reads another entry\'s bytes', case)
    finally:
        iso2.close()


# ------------------------------------------------------------------------------------
# clause d: facades
# ------------------------------------------------------------------------------------

NS_KW = {'rr': 'rr_path', 'joliet': 'joliet_path', 'udf': 'udf_path'}


def ns_legal(ns, name):
    if ns == 'rr':
        return legal.legal_rr_name(name)[0] is True
    if ns == 'joliet':
        return legal.legal_joliet(name)[0] is True
    return legal.legal_udf(name)[0] is True


def on_disc_name(ns, name):
    if ns == 'rr':
        return name.encode('utf-8')
    if ns == 'joliet':
        return name.encode('utf-16_be')
    try:
        return name.encode('latin-1')
    except UnicodeEncodeError:
        return name.encode('utf-16_be')


def entry_name(ns, rec):
    if rec is None:
        return None
    if ns == 'rr':
        if rec.is_dot() or rec.is_dotdot():
            return None
        return rec.rock_ridge.name() if rec.rock_ridge is not None else None
    if ns == 'joliet':
        if rec.is_dot() or rec.is_dotdot():
            return None
    return rec.file_identifier()


def verify_entries(col, case, ns, fac, entries, stage, absent=()):
    """Every entry is found by its facade path, is itself, and reads its own bytes."""
    from pycdlib.pycdlibexception import PyCdlibInvalidInput
    pre = 'C18/d/%s' % ns
    for i, name, kind in entries:
        path = '/' + name
        ok, rec = lib(col, case, '%s/%s' % (pre, kind), 'd', 'get_record-%s' % stage, lambda: fac.get_record(path))
        if not ok:
            continue
        want_dir = kind == 'dir'
        if entry_name(ns, rec) != on_disc_name(ns, name) or rec.is_dir() != want_dir:
            col.fail('%s/%s/get_record-%s/other-entry' % (pre, kind, stage), 'd',
                     'get_record through the %s facade returned a different entry than the one added under that path' % ns, case)
            continue
        if kind == 'symlink' and ns in ('rr', 'udf') and not rec.is_symlink():
            col.fail('%s/symlink/get_record-%s/not-a-symlink' % (pre, stage), 'd', 'entry added with add_symlink is not a symlink', case)
        if kind == 'file':
            def rd():
                with fac.open_file_from_iso(path) as fp:
                    return fp.read()
            ok, data = lib(col, case, '%s/file' % pre, 'd', 'open_file_from_iso-%s' % stage, rd)
            if ok and data != content_of(i):
                col.fail('%s/file/open_file_from_iso-%s/other-content' % (pre, stage), 'd',
                         'the facade path reads %d bytes that are not the content added under it' % len(data), case)
            buf = io.BytesIO()
            ok, _ = lib(col, case, '%s/file' % pre, 'd', 'get_file_from_iso_fp-%s' % stage, lambda: fac.get_file_from_iso_fp(buf, path))
            if ok and buf.getvalue() != content_of(i):
                col.fail('%s/file/get_file_from_iso_fp-%s/other-content' % (pre, stage), 'd',
                         'the facade path fetches bytes that are not the content added under it', case)
    ok, names = lib(col, case, pre, 'd', 'list_children-%s' % stage, lambda: [entry_name(ns, c) for c in fac.list_children('/')])
    if ok:
        for i, name, kind in entries:
            n = names.count(on_disc_name(ns, name))
            if n != 1:
                col.fail('%s/%s/list_children-%s/%s' % (pre, kind, stage, 'missing' if n == 0 else 'listed-twice'), 'd',
                         'list_children("/") through the %s facade lists the entry %d times' % (ns, n), case)
        for i, name, kind in absent:
            if names.count(on_disc_name(ns, name)):
                col.fail('%s/%s/list_children-%s/still-listed-after-rm' % (pre, kind, stage), 'd', 'removed entry still listed', case)
    for i, name, kind in absent:
        try:
            fac.get_record('/' + name)
        except PyCdlibInvalidInput:
            continue
        except Exception as e:
            col.fail('%s/%s/get_record-of-removed-%s/%s' % (pre, kind, stage, exc_signature(e)), 'd',
                     'looking up a removed entry raised %s: %s' % (type(e).__name__, str(e)[:120]), case)
            continue
        col.fail('%s/%s/get_record-of-removed-%s/still-found' % (pre, kind, stage), 'd', 'removed entry is still found by its facade path', case)


def check_facade(case, col, derived):
    import pycdlib
    from pycdlib.pycdlibexception import PyCdlibInvalidInput
    level = case['level']
    ns = case['facade']
    pre = 'C18/d/%s' % ns
    shim.reset(0)
    iso = pycdlib.PyCdlib()
    iso.new(interchange_level=level, rock_ridge='1.09' if ns == 'rr' else None, joliet=3 if ns == 'joliet' else None,
            udf='2.60' if ns == 'udf' else None)
    fac = {'rr': iso.get_rock_ridge_facade, 'joliet': iso.get_joliet_facade, 'udf': iso.get_udf_facade}[ns]()
    entries = []
    seen_names = set()
    seen_derived = set()
    for i, ((name, kind), d) in enumerate(zip(case['entries'], derived)):
        if kind == 'symlink' and ns == 'joliet':
            kind = 'file'
        if not ns_legal(ns, name):
            col.bump('skipped:%s-name-illegal-in-own-namespace' % ns)
            continue
        if name in seen_names:
            col.bump('skipped:same-source-name')
            continue
        if ns == 'rr':
            if d is None:
                continue
            if d in seen_derived:
                col.bump('skipped:derived-collision')
                continue
            seen_derived.add(d)
        seen_names.add(name)
        path = '/' + name
        c = content_of(i)
        shim.reset(i + 1)

        def add():
            if kind == 'dir':
                if ns == 'rr':
                    fac.add_directory(path, 0o040555)
                else:
                    fac.add_directory(path)
            elif kind == 'symlink':
                fac.add_symlink(path, 'target')
            elif ns == 'rr':
                fac.add_fp(io.BytesIO(c), len(c), path, 0o100444)
            else:
                fac.add_fp(io.BytesIO(c), len(c), path)
        what = 'add_%s' % {'dir': 'directory', 'symlink': 'symlink', 'file': 'fp'}[kind]
        dl = ''
        if ns == 'rr':
            b = d.encode('utf-8')
            su = legal.RR_MIN_SYSTEM_USE
            v = legal.legal_iso_dir(b, level, su) if kind == 'dir' else legal.legal_iso_file(b, level, su)
            dl = '/derived-%s' % ('legal' if v[0] else ('illegal:' if v[0] is False else '') + v[1].replace(' ', '-'))
        try:
            add()
        except PyCdlibInvalidInput as e:   # a clean refusal leaves the image usable
            if ns != 'rr':
                # nothing is derived here: a legal Joliet/UDF name that the library refuses is
                # an over-refusal in the sense of C13 (counted there and here, never a violation)
                col.bump('over-refusal:%s/%s: %s' % (ns, kind, ''.join(c for c in str(e) if not c.isdigit())[:60]))
                continue
            if dl == '/derived-legal':
                # which rule the library invoked and at which level, so that a known finding can be matched narrowly
                dl = '/l%d/derived-legal:%s' % (level, 'semicolon' if 'semicolon' in str(e) else ('version' if 'version' in str(e) else 'other'))
            col.fail('%s/%s/%s-refused%s' % (pre, kind, what, dl), 'd',
                     '%s through the %s facade was refused: %s' % (what.split('/')[0], ns, str(e)[:160]), case)
            continue
        except Exception as e:
            if exc_signature(e).endswith('outside-repo'):
                raise
            col.fail('%s/%s/%s/%s' % (pre, kind, what, exc_signature(e)), 'd',
                     '%s through the %s facade raised %s: %s' % (what.split('/')[0], ns, type(e).__name__, str(e)[:160]), case)
            iso.close()
            return
        entries.append((i, name, kind))
    if not entries:
        iso.close()
        return
    col.bump('facade-entries:%s' % ns, len(entries))
    verify_entries(col, case, ns, fac, entries, 'live')
    # remove one entry through the facade
    removed = []
    r = case.get('rm', 0) % (len(entries) + 1)
    if r < len(entries) and ns == 'udf' and entries[r][2] == 'symlink':
        # add_symlink documents that a UDF symlink is removed with rm_hard_link, which the
        # facade does not expose; not a matter of names
        col.bump('skipped:udf-symlink-removal')
        r = len(entries)
    if r < len(entries):
        i, name, kind = entries[r]
        shim.reset(50)
        ok, _ = lib(col, case, '%s/%s' % (pre, kind), 'd', 'rm_%s' % ('directory' if kind == 'dir' else 'file'),
                    lambda: fac.rm_directory('/' + name) if kind == 'dir' else fac.rm_file('/' + name))
        if ok:
            removed = [entries.pop(r)]
            verify_entries(col, case, ns, fac, entries, 'after-rm', absent=removed)
        else:
            iso.close()
            return
    out = io.BytesIO()
    ok, _ = lib(col, case, pre, 'd', 'write_fp', lambda: iso.write_fp(out))
    iso.close()
    if not ok:
        return
    iso2 = pycdlib.PyCdlib()
    ok, _ = lib(col, case, pre, 'd', 'open_fp', lambda: iso2.open_fp(io.BytesIO(out.getvalue())))
    if not ok:
        return
    try:
        ok, fac2 = lib(col, case, pre, 'd', 'get-facade-after-reopen',
                       {'rr': iso2.get_rock_ridge_facade, 'joliet': iso2.get_joliet_facade, 'udf': iso2.get_udf_facade}[ns])
        if ok:
            verify_entries(col, case, ns, fac2, entries, 'reopened', absent=removed)
    finally:
        iso2.close()


DEEP_LEAVES = ['packages', 'pkg', 'abcdef', 'ABCDEFGH', 'sevench', 'Mixed.Dir', 'a-rather-long-directory-name-x']


def check_facade_deep(case, col):
    """Directories of one name at the eighth level of 2-4 different parents, all through the Rock Ridge facade: the library
    relocates them into one directory under identifiers of its own making.  A file added inside each of them through its
    facade path must be found there, and nowhere else, with its own bytes - live and after a write and reopen."""
    import pycdlib
    level = case['level']
    n = 2 + case['deep'] % 3
    leaf = DEEP_LEAVES[(case['deep'] // 3) % len(DEEP_LEAVES)]
    pre = 'C18/d/rr/deep'
    shim.reset(0)
    iso = pycdlib.PyCdlib()
    iso.new(interchange_level=level, rock_ridge='1.09')
    fac = iso.get_rock_ridge_facade()
    want = {}
    try:
        for k in range(n):
            path = ''
            for comp in ('top%d' % k, 'd2', 'd3', 'd4', 'd5', 'd6', 'd7', leaf):
                path += '/' + comp
                fac.add_directory(path, 0o040555)
            c = ('deep-%d-' % k).encode() * (3 + k)
            fac.add_fp(io.BytesIO(c), len(c), path + '/f%d' % k, 0o100444)
            want[path + '/f%d' % k] = c
    except Exception as e:
        if exc_signature(e).endswith('outside-repo'):
            raise
        col.fail('%s/build/%s' % (pre, exc_signature(e)), 'd', 'building %d like-named directories at the eighth level (and a file in each) through the Rock Ridge facade raised %s: %s'
                 % (n, type(e).__name__, str(e)[:160]), case)
        iso.close()
        return
    col.bump('facade-deep-cases')

    def verify(f, stage):
        for p, c in sorted(want.items()):
            try:
                o = io.BytesIO()
                f.get_file_from_iso_fp(o, p)
                if o.getvalue() != c:
                    col.fail('%s/%s/other-entry-read' % (pre, stage), 'd', 'the facade path of the file in the %s-th like-named directory reads another file\'s bytes (%d directories, leaf %r, level %d)'
                             % (p[4:5], n, leaf, level), case)
                    return False
            except Exception as e:
                if exc_signature(e).endswith('outside-repo'):
                    raise
                col.fail('%s/%s/%s' % (pre, stage, exc_signature(e)), 'd', 'reading %r through the Rock Ridge facade raised %s: %s' % (p[-30:], type(e).__name__, str(e)[:120]), case)
                return False
            dirp = p.rsplit('/', 1)[0]
            try:
                kids = [ch.rock_ridge.name() for ch in f.list_children(dirp) if ch is not None and ch.rock_ridge is not None and ch.rock_ridge.name() not in (b'.', b'..', b'')]
            except Exception as e:
                if exc_signature(e).endswith('outside-repo'):
                    raise
                col.fail('%s/%s/list/%s' % (pre, stage, exc_signature(e)), 'd', 'listing a like-named directory raised %s: %s' % (type(e).__name__, str(e)[:120]), case)
                return False
            if kids != [p.rsplit('/', 1)[1].encode()]:
                col.fail('%s/%s/wrong-children' % (pre, stage), 'd', 'the like-named directory %r lists %r, one file %r was added to it' % (dirp[-20:], kids[:4], p.rsplit('/', 1)[1]), case)
                return False
        return True
    if verify(fac, 'live'):
        try:
            out = io.BytesIO()
            iso.write_fp(out)
            iso2 = pycdlib.PyCdlib()
            iso2.open_fp(out)
        except Exception as e:
            if exc_signature(e).endswith('outside-repo'):
                raise
            col.fail('%s/write-reopen/%s' % (pre, exc_signature(e)), 'd', 'write / reopen raised %s: %s' % (type(e).__name__, str(e)[:120]), case)
            iso.close()
            return
        verify(iso2.get_rock_ridge_facade(), 'reopened')
        iso2.close()
    iso.close()


def run_case(case, col, record=True):
    level = case['level']
    entries = case['entries']
    classes = ['level:%d' % level, 'facade:%s' % case['facade'], 'via:%s' % ('iso9660-facade' if case.get('via_facade') else 'api')]
    nontriv = False
    for name, kind in entries:
        k = 'dir' if kind == 'dir' else 'file'
        classes.append('kind:' + kind)
        if nontrivial_name(level, k, name):
            nontriv = True
        ok, trunc = already_legal(level, k, name)
        classes.append('source:' + ('already-legal' if ok else 'needs-mangling'))
        if any(len(c.upper()) != 1 for c in name):
            classes.append('source:case-expander')
        n = len(name)
        classes.append('len:' + ('1-12' if n <= 12 else '13-27' if n < 28 else '28-34' if n <= 34 else '35-199' if n < 200 else '200-260'))
    if record:
        col.case(case, nontriv, sorted(set(classes)))
    derived = check_mangle(case, col)
    check_real_add(case, col, derived)
    check_facade(case, col, derived)
    if case.get('deep') and case['facade'] == 'rr':
        check_facade_deep(case, col)


# ------------------------------------------------------------------------------------
# generators
# ------------------------------------------------------------------------------------

D = 'ABCDEFGHIJKLMNOPQRSTUVWXYZ0123456789_'
NASTY = list('ABCXYZabcxyz0189__--..;; ~+$\x01\x07\x1f\x7f\n\r\t') + list(EXPANDERS) + ['ı', '́', '̈', 'é', 'Ж', 'ж', '日', '😀', '𝔘',
                                                                                         '٣', '३', '３', '๔', '²', 'Ⅷ']      # decimal digits (and digit-likes) that are not 0-9

d_text = lambda a, b: st.text(alphabet=D, min_size=a, max_size=b)


def fix(s):
    s = s.replace('/', '_').replace('\x00', '_')
    if s in ('', '.', '..'):
        s = 'n' + s
    return s


nasty_name = st.one_of(
    st.text(alphabet=st.sampled_from(NASTY), min_size=1, max_size=12),
    st.text(alphabet=st.sampled_from(NASTY), min_size=1, max_size=12),
    st.text(alphabet=st.sampled_from(NASTY), min_size=28, max_size=34),
    st.text(alphabet=st.sampled_from(NASTY), min_size=200, max_size=260),
    # mostly tame with a few nasty characters: reaches the truncation limits exactly
    st.builds(lambda base, odd, pos, ext, tail: (base[:pos % (len(base) + 1)] + odd + base[pos % (len(base) + 1):]) + ext + tail,
              st.text(alphabet='abcdefXYZ0189_', min_size=1, max_size=33), st.sampled_from(list(EXPANDERS) + ['', '', '-', ' ', '.', 'é', '😀']),
              st.integers(0, 40), st.sampled_from(['', '', '.txt', '.TXT', '.t', '.html', '.', '.ßß', '.tar.gz', '.md', '.c']),
              st.sampled_from(['', '', '', '', '\n', '\r', ' ', '\t', '\x7f'])),
).map(fix)


@st.composite
def legal_source(draw, level, kind):
    """An identifier that is already legal at `level` (constructive), possibly then
    lower-cased or stretched past a limit so that it is *almost* legal."""
    if kind == 'dir':
        if level == 1:
            s = draw(d_text(1, 8))
        elif level < 4:
            s = draw(st.one_of(d_text(1, 31), d_text(28, 34), d_text(200, 210)))
        else:
            s = draw(st.one_of(d_text(1, 31), st.text(alphabet=st.sampled_from(NASTY), min_size=1, max_size=40)))
    else:
        if level == 1:
            nm, ext = draw(d_text(0, 8)), draw(st.one_of(st.none(), d_text(0, 3)))
        elif level < 4:
            nm, ext = draw(st.one_of(d_text(0, 12), d_text(24, 34))), draw(st.one_of(st.none(), d_text(0, 3), d_text(4, 6)))
        else:
            nm = draw(st.one_of(d_text(0, 12), st.text(alphabet=st.sampled_from([c for c in NASTY if c != ';']), min_size=1, max_size=40)))
            ext = draw(st.one_of(st.none(), d_text(0, 3), st.text(alphabet='abc~', min_size=1, max_size=5)))
        if not nm and not ext:
            nm = 'A'
        s = nm + ('' if ext is None else '.' + ext)
    tweak = draw(st.sampled_from(['none', 'none', 'none', 'lower', 'stretch']))
    if tweak == 'lower':
        s = s.lower()
    elif tweak == 'stretch':
        s = s[:1] + 'Q' + s[1:]
    return fix(s)


@st.composite
def case_strategy(draw):
    level = draw(st.sampled_from([1, 1, 2, 3, 3, 4]))
    n = draw(st.integers(1, 5))
    entries = []
    for _ in range(n):
        kind = draw(st.sampled_from(['file', 'file', 'file', 'dir', 'dir', 'symlink']))
        k = 'dir' if kind == 'dir' else 'file'
        name = draw(st.one_of(nasty_name, nasty_name, legal_source(level, k)))
        entries.append([name, kind])
    return {'level': level, 'facade': draw(st.sampled_from(['rr', 'rr', 'joliet', 'udf'])), 'entries': entries,
            'rm': draw(st.integers(0, 5)), 'via_facade': draw(st.booleans()),
            'deep': draw(st.sampled_from([0] * 15 + list(range(1, 22))))}


# ------------------------------------------------------------------------------------
# runner interface
# ------------------------------------------------------------------------------------

def shard(seed, tier, shard_no, nshards):
    shim.install('UTC')
    col = Collector()
    n = CASES[tier]

    @hseed(seed * 64 + shard_no)
    @settings(max_examples=n, database=None, deadline=None, phases=[Phase.generate],
              suppress_health_check=list(HealthCheck), report_multiple_bugs=False)
    @given(case_strategy())
    def t(case):
        run_case(case, col)

    t()
    return col.result()


def replay(case, col):
    shim.install('UTC')
    try:
        run_case(case, col)
    finally:
        shim.uninstall()   # replay/shrink run inside the runner's process, which reads the wall clock


def shrink(case, sig):
    """Keep the fewest entries (and the shortest prefix of each name) that still fail
    with the same signature."""
    shim.install('UTC')

    budget = [30]

    def still(c):
        if budget[0] <= 0:
            return False
        budget[0] -= 1
        col = Collector()
        try:
            run_case(c, col, record=False)
        except Exception:
            return False
        return sig in col.failures

    try:
        cur = case
        changed = True
        while changed:
            changed = False
            for i in range(len(cur['entries'])):
                cand = dict(cur, entries=cur['entries'][:i] + cur['entries'][i + 1:])
                if cand['entries'] and still(cand):
                    cur, changed = cand, True
                    break
        for i in range(len(cur['entries'])):
            name, kind = cur['entries'][i]
            for cut in (1, 2, 4, 8, 16, 32, 64, 128):
                while len(name) > cut:
                    for shorter in (name[:-cut], name[cut:]):
                        cand = dict(cur, entries=cur['entries'][:i] + [[shorter, kind]] + cur['entries'][i + 1:])
                        if shorter not in ('', '.', '..') and still(cand):
                            cur, name = cand, shorter
                            break
                    else:
                        break
        return cur if cur != case else None
    finally:
        shim.uninstall()
