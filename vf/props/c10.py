"""C10 UDF bridge fidelity for an independent ECMA-167 reader.

G: UDF configurations; files, directories growing past one sector of file identifiers, symlinks,
   cross-namespace links, UDF hard links, removals, reopen-then-edit; Latin-1 and UCS-2 names.
O: vf.indep.udf (no pycdlib code), starting only from the volume recognition sequence and the
   anchors at sector 256 and at the last sector: every clause of its validator must be silent
   (anchors, tags, main/reserve VDS, partition bounds, LVID, FSD -> root, information lengths,
   extents, parent FIDs, link counts, name encoding, duplicates), and the recovered tree (names,
   types, symlink targets, file bytes) == the reference model's UDF tree.
"""
from hypothesis import strategies as st

from vf import shim, gen
from vf.engine import Run, model_view, diff_views
from vf.indep import iso9660, udf as iudf
from vf.indep.image import Image
from vf.indep.views import udf_view
from vf.model import udf_norm
from vf.propbase import EngineProperty
from vf.runner import Collector

ID = 'C10'
LEVEL = 'exploration'
RULE = ('images = final write of generated programs on UDF configurations (profiles mixed/links/growshrink/deep/boot, with and without reopen generations). '
        'Non-trivial = a directory\'s file identifiers cross a sector boundary, or a removal/reopen precedes the final write, or a content has 2 UDF names. '
        'Distinct = distinct canonical program JSON.')
ASSUMPTIONS = [
    'the independent UDF reader (vf/indep/udf.py) is a reading of ECMA-167 3rd ed. / UDF 2.60; validated by its own image-mutation self-test (vf/indep/selftest_udf.py)',
    'UDF symlink targets are generated without empty interior/trailing components and with components <= 254 bytes (ECMA-167 path components cannot express the former; the latter is refused)',
    'files > 4 GiB: one pattern-file case per quick run, four per thorough run (sparse image file)',
]
SHARDS = {'quick': 16, 'thorough': 16}
CASES = {'quick': 150, 'thorough': 5000}


def strategy(tier):
    cfg = gen.cfg_st(udf=st.just(True))
    xcfg = gen.cfg_st(udf=st.just(True), rr=st.just(None), xa=st.just(False))
    progs = [gen.mixed(True, cfg), gen.links(cfg, True), gen.growshrink(cfg, True), gen.growshrink(cfg, False), gen.deep(cfg, True), gen.boot(cfg, True),
             gen.exactfill(xcfg, True), gen.exactfill(xcfg, False), gen.bootlinks(cfg, True), gen.readd(cfg, True), gen.readd(cfg, False), gen.symcomps(gen.cfg_st(udf=st.just(True), rr=st.sampled_from([None, '1.09', '1.12'])), True), gen.udflinks(cfg, True), gen.udflinks(None, True)]
    names = ['mixed', 'links', 'growshrink', 'growshrink', 'deep', 'boot', 'exactfill', 'exactfill', 'bootlinks', 'readd', 'readd', 'symcomps', 'udflinks', 'udflinks']
    return st.tuples(st.one_of(*[p.map(lambda x, n=n: dict(x, profile=n)) for p, n in zip(progs, names)]), st.none())


def oracle(program, aux):
    shim.install('UTC')
    failures = []
    shim.set_tick(len(program['ops']) % 2 == 1)      # a moving clock in half of the cases (nothing here compares bytes across runs)
    run = Run(program)
    run.run_all()
    run.stats = {'c01_domain': 0}
    for pr in run.problems:
        if '/accepted-but-must-refuse/old-path-is-a-udf-symlink' in pr.sig:
            # the new name would be a regular file made of the symlink's path components, not the symlink the user built
            failures.append(('C10/' + pr.sig, 'tree', 'step %d: %s' % (pr.step, pr.msg)))
    img = None if (run.dead or run.problems) else run.write()
    if img is None:
        run.stats['c01_domain'] += 1
        run.close()
        return run, failures
    m = run.model
    vol = iso9660.read_iso(img).get('volume_size') or (len(img) // 2048)
    last = (vol - 1) if m.hybrid is not None else (len(img) // 2048 - 1)
    info = iudf.read_udf(Image(img), last_sector=last)
    run.uinfo = info
    if info is None:
        failures.append(('C10/not-udf', 'vrs', 'no NSR descriptor in the volume recognition sequence of a UDF configuration'))
        run.close()
        return run, failures
    multi_udf = any(sum(1 for ns, _ in b.names if ns == 'udf') >= 2 for b in m.blobs.values())
    for clause, msg in info['findings']:
        sig = 'C10/%s' % clause
        if clause == 'lvid-counts':
            sig += '/with-udf-hard-links' if multi_udf else '/no-hard-links'
        failures.append((sig, clause, msg[:500]))
    got = udf_view(img, info)
    want = model_view(m).get('udf')
    for ns, path, a, b in diff_views({'udf': got}, {'udf': want}):
        kind = 'missing' if a is None else ('extra' if b is None else ('type' if a[0] != b[0] else 'content'))
        failures.append(('C10/tree/%s/%s' % (kind, m.role('udf', path)), 'udf-tree', 'UDF path %r: independent reader finds %r, the edits imply %r' % ((path or '')[:90], a, b)))
    # symlink targets (the API view cannot show them)
    for p, e in m.t['udf'].items():
        if e['type'] == 'sym' and p in info['tree']:
            t = info['tree'][p].get('target')
            if udf_norm(t) != udf_norm(e['target']):
                failures.append(('C10/symlink-target', 'udf-tree', 'UDF symlink %r: target %r recovered, %r was given' % (p[:60], (t or '')[:80], e['target'][:80])))
    run.close()
    return run, failures


def extra_classes(run):
    cl = set()
    info = getattr(run, 'uinfo', None)
    if not info:
        return cl
    for p, e in info.get('tree', {}).items():
        if e['type'] == 'dir' and e['length'] > 2048:
            cl.add('fids-cross-sector')
    m = run.model
    if any(sum(1 for ns, _ in b.names if ns == 'udf') >= 2 for b in m.blobs.values()):
        cl.add('content-with-2-udf-names')
    if any(any(ord(c) > 255 for c in p) for p in m.t['udf']):
        cl.add('ucs2-name')
    if any(any(127 < ord(c) < 256 for c in p) for p in m.t['udf']):
        cl.add('latin1-name')
    return cl


def nontrivial(run, cl):
    return bool(cl & {'fids-cross-sector', 'removal', 'reopen', 'content-with-2-udf-names'}) and not run.stats.get('c01_domain')


PROP = EngineProperty(ID, oracle, nontrivial, extra_classes)
_engine_shard = PROP.shard_fn(strategy, CASES)


def huge_case(k, col):
    """A multi-gigabyte file (several allocation descriptors) decoded by the independent reader."""
    import io
    import pycdlib
    from vf.huge import PatternSource, SparseFile, pattern
    shim.install('UTC')
    size = 0xfffff800 + [5000, 1, 2048, 0xfffff800 + 1][k % 4]
    case = {'huge': k, 'size': size}
    unlink = (k // 4) % 2 == 1          # variant: the ISO9660 name is removed again, only the UDF name is left
    col.case(case, True, ['huge-file'] + (['huge-file-iso-name-unlinked'] if unlink else []))
    try:
        iso = pycdlib.PyCdlib()
        iso.new(interchange_level=3, udf='2.60')
        iso.add_fp(PatternSource(3 + k, size), size, '/BIG.;1', udf_path='/big')
        iso.add_fp(io.BytesIO(b'z' * 3000), 3000, '/Z.;1', udf_path='/z')
        if unlink:
            iso.rm_hard_link(iso_path='/BIG.;1')
        out = SparseFile()
        iso.write_fp(out, blocksize=1 << 20)
        iso.close()
    except Exception as e:  # noqa
        from vf.runner import exc_signature
        col.fail('C10/huge/build/' + exc_signature(e), 'huge', 'mastering a UDF image with a %d-byte file raised %r' % (size, e), case)
        return
    info = iudf.read_udf(Image(out))
    seen = set()
    for clause, msg in (info or {}).get('findings', []):
        if clause not in seen:
            seen.add(clause)
            col.fail('C10/huge/%s' % clause, clause, 'image with a %d-byte file: %s' % (size, msg[:300]), case)
    e = (info or {}).get('tree', {}).get('/big')
    if e is None:
        col.fail('C10/huge/missing', 'udf-tree', 'the %d-byte file is not in the UDF tree' % size, case)
    elif e['length'] != size:
        col.fail('C10/huge/information-length', 'udf-tree', 'information length %d, file has %d bytes' % (e['length'], size), case)
    else:
        # spot-check the bytes at the extent boundaries through the reader's allocation descriptors
        pos = 0
        for ext, ln in e.get('extents', []):
            if ext is None:
                col.fail('C10/huge/unrecorded-extent', 'udf-tree', 'allocation descriptor at file offset %d is not recorded / not resolvable' % pos, case)
                break
            got = Image(out).read(ext * 2048, 32)
            if got != pattern(3 + k, pos, 32, size):
                col.fail('C10/huge/extent-content', 'udf-tree', 'allocation descriptor at file offset %d points at sector %d which does not hold the file\'s bytes' % (pos, ext), case)
                break
            pos += ln


def shard(seed, tier, shard_no, nshards):
    res = _engine_shard(seed, tier, shard_no, nshards)
    if (tier == 'quick' and shard_no in (1, 2)) or (tier == 'thorough' and shard_no < 8):
        col = Collector()
        huge_case(seed + shard_no + (3 if (tier == 'quick' and shard_no == 2) else 0), col)
        r2 = col.result()
        res['evaluations'] += r2['evaluations']
        res['nontrivial'] |= r2['nontrivial']
        for k, v in r2['classes'].items():
            res['classes'][k] = res['classes'].get(k, 0) + v
        for sgn, lst in r2['failures'].items():
            res['failures'].setdefault(sgn, []).extend(lst)
        for sgn, n in r2['fail_counts'].items():
            res['fail_counts'][sgn] = res['fail_counts'].get(sgn, 0) + n
    return res


def _replay(case, col):
    if isinstance(case, dict) and 'huge' in case:
        return huge_case(case['huge'], col)
    return PROP.replay(case, col)


def _shrink(case, sig):
    if isinstance(case, dict):
        return case
    return PROP.shrink(case, sig)
replay = _replay
shrink = _shrink
