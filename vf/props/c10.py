"""C10 UDF bridge fidelity for an independent ECMA-167 reader.

G: UDF configurations; files, directories growing past one sector of file identifiers, symlinks,
   cross-namespace links, UDF hard links, removals, reopen-then-edit; Latin-1 and UCS-2 names.
O: vf.indep.udf (no pycdlib code), starting only from the volume recognition sequence and the
   anchors at sector 256 and at the last sector: every clause of its validator must be silent
   (anchors, tags, main/reserve VDS, partition bounds, LVID, FSD -> root, information lengths,
   extents, parent FIDs, link counts, name encoding, duplicates), and the recovered tree (names,
   types, symlink targets, file bytes) == the reference model's UDF tree.
"""
from hypothesis import strategies as st

from vf import shim, gen
from vf.engine import Run, model_view, diff_views
from vf.indep import iso9660, udf as iudf
from vf.indep.image import Image
from vf.indep.views import udf_view
from vf.propbase import EngineProperty

ID = 'C10'
LEVEL = 'exploration'
RULE = ('images = final write of generated programs on UDF configurations (profiles mixed/links/growshrink/deep/boot, with and without reopen generations). '
        'Non-trivial = a directory\'s file identifiers cross a sector boundary, or a removal/reopen precedes the final write, or a content has 2 UDF names. '
        'Distinct = distinct canonical program JSON.')
ASSUMPTIONS = [
    'the independent UDF reader (vf/indep/udf.py) is a reading of ECMA-167 3rd ed. / UDF 2.60; validated by its own image-mutation self-test (vf/indep/selftest_udf.py)',
    'UDF symlink targets are generated without empty interior/trailing components and with components <= 254 bytes (ECMA-167 path components cannot express the former; the latter is refused)',
    'files > 4 GiB only in the huge tier',
]
SHARDS = {'quick': 16, 'thorough': 16}
CASES = {'quick': 150, 'thorough': 5000}


def strategy(tier):
    cfg = gen.cfg_st(udf=st.just(True))
    progs = [gen.mixed(True, cfg), gen.links(cfg, True), gen.growshrink(cfg, True), gen.growshrink(cfg, False), gen.deep(cfg, True), gen.boot(cfg, True)]
    names = ['mixed', 'links', 'growshrink', 'growshrink', 'deep', 'boot']
    return st.tuples(st.one_of(*[p.map(lambda x, n=n: dict(x, profile=n)) for p, n in zip(progs, names)]), st.none())


def oracle(program, aux):
    shim.install('UTC')
    failures = []
    run = Run(program)
    run.run_all()
    run.stats = {'c01_domain': 0}
    img = None if (run.dead or run.problems) else run.write()
    if img is None:
        run.stats['c01_domain'] += 1
        run.close()
        return run, failures
    m = run.model
    vol = iso9660.read_iso(img).get('volume_size') or (len(img) // 2048)
    last = (vol - 1) if m.hybrid is not None else (len(img) // 2048 - 1)
    info = iudf.read_udf(Image(img), last_sector=last)
    run.uinfo = info
    if info is None:
        failures.append(('C10/not-udf', 'vrs', 'no NSR descriptor in the volume recognition sequence of a UDF configuration'))
        run.close()
        return run, failures
    multi_udf = any(sum(1 for ns, _ in b.names if ns == 'udf') >= 2 for b in m.blobs.values())
    for clause, msg in info['findings']:
        sig = 'C10/%s' % clause
        if clause == 'lvid-counts':
            sig += '/with-udf-hard-links' if multi_udf else '/no-hard-links'
        failures.append((sig, clause, msg[:500]))
    got = udf_view(img, info)
    want = model_view(m).get('udf')
    for ns, path, a, b in diff_views({'udf': got}, {'udf': want}):
        kind = 'missing' if a is None else ('extra' if b is None else ('type' if a[0] != b[0] else 'content'))
        failures.append(('C10/tree/%s/%s' % (kind, m.role('udf', path)), 'udf-tree', 'UDF path %r: independent reader finds %r, the edits imply %r' % ((path or '')[:90], a, b)))
    # symlink targets (the API view cannot show them)
    for p, e in m.t['udf'].items():
        if e['type'] == 'sym' and p in info['tree']:
            t = info['tree'][p].get('target')
            if t != e['target']:
                failures.append(('C10/symlink-target', 'udf-tree', 'UDF symlink %r: target %r recovered, %r was given' % (p[:60], (t or '')[:80], e['target'][:80])))
    run.close()
    return run, failures


def extra_classes(run):
    cl = set()
    info = getattr(run, 'uinfo', None)
    if not info:
        return cl
    for p, e in info.get('tree', {}).items():
        if e['type'] == 'dir' and e['length'] > 2048:
            cl.add('fids-cross-sector')
    m = run.model
    if any(sum(1 for ns, _ in b.names if ns == 'udf') >= 2 for b in m.blobs.values()):
        cl.add('content-with-2-udf-names')
    if any(any(ord(c) > 255 for c in p) for p in m.t['udf']):
        cl.add('ucs2-name')
    if any(any(127 < ord(c) < 256 for c in p) for p in m.t['udf']):
        cl.add('latin1-name')
    return cl


def nontrivial(run, cl):
    return bool(cl & {'fids-cross-sector', 'removal', 'reopen', 'content-with-2-udf-names'}) and not run.stats.get('c01_domain')


PROP = EngineProperty(ID, oracle, nontrivial, extra_classes)
shard = PROP.shard_fn(strategy, CASES)
replay = PROP.replay
shrink = PROP.shrink
