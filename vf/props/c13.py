"""C13 Namespace rules: no duplicate identifiers, every identifier legal for its namespace
and interchange level, illegal edits refused with PyCdlibInvalidInput at the edit.

G: small histories (1-10 edits on a fresh PyCdlib().new(...)) whose candidate identifiers
   come from a grammar straddling every boundary of the statement (d-characters, 8.3,
   8/207, record fit 221/222, versions 0/1/32767/32768/non-numeric, Joliet 63/64/65
   units, UDF 254/255 Latin-1 and 127/128 UCS-2, depth 7/8/9 with/without RR/level 4)
   and re-add a name that exists, existed, exists as the other type, in another
   namespace, with another version, in another directory.
O: reference predicate vf/legal.py + a model of the directory tree per namespace:
   (a) accepted edit => image writes, reopens, the identifier is present exactly once in
       its directory per an independent scan of the written bytes (ISO9660, Rock Ridge NM,
       Joliet; UDF through list_children of the reopened image);
   (b) an edit that raises must raise exactly PyCdlibInvalidInput;
   (c) illegal identifier => refused (accepted+written / failing at write / failing at
       reopen are distinct signatures);
   (d) duplicate in the same namespace+directory => refused; same name elsewhere or after
       removal => may be accepted.
   A legal edit that is refused is an over-refusal: counted by reason, never a violation.
"""
import io
import re
import struct

from hypothesis import given, settings, seed as hseed, strategies as st, HealthCheck, Phase

from vf import shim, legal
from vf.runner import Collector, exc_signature, canon

ID = 'C13'
LEVEL = 'exploration'
RULE = ('cases = histories of 1-10 edits (add_fp / add_directory / add_hard_link / add_symlink / rm_file / '
        'rm_directory, each touching one namespace) on a fresh image (level 1-4, Rock Ridge, Joliet, UDF flavours) '
        'drawn by Hypothesis from templates single / dup-same / dup-other-kind / readd / other-namespace / '
        'other-version / other-directory / rr-dup / link-dup / depth; candidate identifiers are built to target '
        'lengths around every limit of the statement with 0-1 characters outside the legal alphabet, 0-3 dots, 0-2 '
        'semicolons and boundary versions. Non-trivial = some added identifier is within 1 character/unit of a '
        'limit (length, depth, version bound, exactly one illegal character), or the history re-adds a name '
        '(duplicate / re-add / other namespace / other version / other kind). Distinct = distinct canonical JSON '
        'of the whole history.')
ASSUMPTIONS = [
    'vf/legal.py encodes exactly the rules listed in the C13 statement; points the statement is silent on '
    '(empty version, RR names longer than one NM field, file in a level-8 directory) accept both a clean refusal and a clean acceptance',
    'every generated edit touches one namespace only (ISO+RR count as one call), so a refusal cannot leave another '
    'namespace half-edited (that is C14); the write after a refusal is measured, not judged',
    'on a Rock Ridge image a directory record must hold at least the 28-byte SUSP CE entry besides the identifier, so '
    'ISO identifiers longer than 193 bytes do not fit there (221 without Rock Ridge)',
    'UDF directories are listed through list_children(udf_path=...) of the reopened image (no independent UDF '
    'reader in this check); ISO9660, Rock Ridge NM and Joliet directories are listed by an independent struct scan',
    'two different versions of one name (X.;1 and X.;2) are different identifiers',
    'failures of rm_file/rm_directory are counted (rm-raised:*) but are not C13 violations',
]
SHARDS = {'quick': 16, 'thorough': 16}
CASES = {'quick': 3000, 'thorough': 30000}
MIN_NONTRIVIAL = {'quick': 2000, 'thorough': 20000}

SECTOR = 2048


# ------------------------------------------------------------------------------------
# independent directory lister (ECMA-119 9.1, SUSP/RRIP NM+CE+CL, Joliet SVD)
# ------------------------------------------------------------------------------------

class ScanError(Exception):
    pass


def _le32(b, off):
    return struct.unpack_from('<L', b, off)[0]


def find_volume_descriptors(img):
    """Return (pvd_root_record, joliet_root_record_or_None)."""
    pvd = None
    joliet = None
    sec = 16
    while True:
        d = img[sec * SECTOR:(sec + 1) * SECTOR]
        if len(d) < SECTOR or d[1:6] != b'CD001':
            raise ScanError('volume descriptor set not terminated at sector %d' % sec)
        typ = d[0]
        if typ == 255:
            break
        if typ == 1 and pvd is None:
            pvd = d[156:190]
        elif typ == 2:
            esc = d[88:120]
            if any(e in esc for e in (b'%/@', b'%/C', b'%/E')):
                joliet = d[156:190]
        sec += 1
        if sec > 64:
            raise ScanError('no volume descriptor set terminator')
    if pvd is None:
        raise ScanError('no primary volume descriptor')
    return pvd, joliet


def _susp_entries(img, su):
    """Yield (signature, payload-bytes-after-4-byte-header) following CE continuations."""
    areas = [su]
    hops = 0
    while areas:
        area = areas.pop(0)
        i = 0
        nxt = None
        while i + 4 <= len(area):
            sig = area[i:i + 2]
            ln = area[i + 2]
            if ln < 4 or i + ln > len(area):
                break
            body = area[i + 4:i + ln]
            if sig == b'CE' and ln >= 28:
                nxt = (_le32(body, 0), _le32(body, 8), _le32(body, 16))
            elif sig == b'ST':
                break
            else:
                yield sig, body
            i += ln
        if nxt is not None:
            hops += 1
            if hops > 8:
                raise ScanError('CE chain too long')
            blk, off, length = nxt
            areas.append(img[blk * SECTOR + off:blk * SECTOR + off + length])


def read_directory(img, extent, size):
    """List the records of one directory extent: dicts ident, flags, extent, size, rr, cl."""
    data = img[extent * SECTOR:extent * SECTOR + size]
    if len(data) < size:
        raise ScanError('directory extent %d+%d beyond image' % (extent, size))
    out = []
    pos = 0
    while pos < len(data):
        ln = data[pos]
        if ln == 0:
            pos = (pos // SECTOR + 1) * SECTOR
            continue
        if ln < 34 or pos % SECTOR + ln > SECTOR:
            raise ScanError('bad directory record length %d at %d' % (ln, pos))
        rec = data[pos:pos + ln]
        nl = rec[32]
        if 33 + nl > ln:
            raise ScanError('identifier length %d does not fit record length %d' % (nl, ln))
        ident = rec[33:33 + nl]
        su = rec[33 + nl + (1 - nl % 2):]
        rr = None
        cl = None
        parts = []
        for sig, body in _susp_entries(img, su):
            if sig == b'NM' and len(body) >= 1:
                if not body[0] & 0x06:  # not CURRENT / PARENT
                    parts.append(body[1:])
            elif sig == b'CL' and len(body) >= 4:
                cl = _le32(body, 0)
        if parts:
            rr = b''.join(parts)
        out.append({'ident': ident, 'flags': rec[25], 'extent': _le32(rec, 2), 'size': _le32(rec, 10),
                    'rr': rr, 'cl': cl})
        pos += ln
    return out


def list_dir(img, root_rec, comps):
    """Walk from the root record along identifier components; return the records of
    that directory (without '.' and '..')."""
    ext, size = _le32(root_rec, 2), _le32(root_rec, 10)
    for comp in comps:
        recs = read_directory(img, ext, size)
        nxt = None
        for r in recs:
            if r['ident'] == comp:
                if r['flags'] & 2:
                    nxt = (r['extent'], r['size'])
                elif r['cl'] is not None:  # Rock Ridge relocated directory
                    dot = read_directory(img, r['cl'], SECTOR)[0]
                    nxt = (r['cl'], dot['size'])
                break
        if nxt is None:
            raise ScanError('directory component not found on disc')
        ext, size = nxt
    return [r for r in read_directory(img, ext, size) if r['ident'] not in (b'\x00', b'\x01')]


# ------------------------------------------------------------------------------------
# model + interpreter
# ------------------------------------------------------------------------------------

def split(path):
    return [c for c in path.split('/') if c != '']


def disc_ident(ns, comp):
    if ns == 'iso':
        return comp.encode('utf-8')
    if ns == 'joliet':
        return comp.encode('utf-16_be')
    try:
        return comp.encode('latin-1')
    except UnicodeEncodeError:
        return comp.encode('utf-16_be')


class Model:
    """What each namespace's directory tree must contain if every accepted edit took
    effect and every refused one did not."""

    def __init__(self, new):
        self.new = new
        self.level = new['level']
        self.rr = bool(new.get('rr'))
        self.tree = {'iso': {(): {}}, 'joliet': {(): {}}, 'udf': {(): {}}}
        self.rrnames = {(): {}}   # iso dir -> {rr name: iso ident}

    def has_ns(self, ns):
        return ns == 'iso' or bool(self.new.get(ns))

    def expect(self, op):
        """-> dict(skip=reason) or dict(verdict, reason, kind, dup=oldkind|None)"""
        ns = op['ns']
        comps = split(op['path'])
        parent, name = tuple(comps[:-1]), comps[-1]
        tree = self.tree[ns]
        if parent not in tree:
            return {'skip': 'parent-missing'}
        kind = 'dir' if op['op'] == 'dir' else 'file'
        if op['op'] == 'link':
            old = split(op['old'])
            if tree.get(tuple(old[:-1]), {}).get(old[-1]) != 'file':
                return {'skip': 'link-source-missing'}
        verdicts = []
        if ns == 'iso':
            b = name.encode('utf-8')
            # with Rock Ridge the record must at least hold the 28-byte CE entry
            su = legal.RR_MIN_SYSTEM_USE if self.rr else 0
            v = legal.legal_iso_dir(b, self.level, su) if kind == 'dir' else legal.legal_iso_file(b, self.level, su)
            verdicts.append(v)
            verdicts.append(legal.depth_ok(len(comps), self.level, self.rr, is_dir=(kind == 'dir')))
            if self.rr:
                verdicts.append(('rr',) + tuple(legal.legal_rr_name(op.get('rr') or '')))
            elif op.get('rr'):
                verdicts.append((False, 'rr name on non-RR image'))
        elif ns == 'joliet':
            verdicts.append(legal.legal_joliet(name))
        else:
            verdicts.append(legal.legal_udf(name))
        dup = tree[parent].get(name)
        rrdup = False
        if ns == 'iso' and self.rr and op.get('rr'):
            other = self.rrnames.get(parent, {}).get(op['rr'])
            if other is not None and other != name:
                rrdup = True
        verdict, reason = True, 'ok'
        for v in verdicts:
            tag = ''
            if len(v) == 3:
                tag, v = 'rr-name:', v[1:]
            if v[0] is False:
                verdict, reason = False, tag + v[1]
                break
            if v[0] is None and verdict is True:
                verdict, reason = None, tag + v[1]
        if dup is not None:
            verdict, reason = False, 'duplicate'
        elif rrdup and verdict is not False:
            verdict, reason = False, 'rr-duplicate'
        return {'verdict': verdict, 'reason': reason, 'kind': kind, 'dup': dup, 'parent': parent, 'name': name}

    def add(self, op, exp):
        ns = op['ns']
        parent, name = exp['parent'], exp['name']
        self.tree[ns][parent].setdefault(name, exp['kind'])
        if exp['kind'] == 'dir':
            self.tree[ns].setdefault(parent + (name,), {})
            if ns == 'iso':
                self.rrnames.setdefault(parent + (name,), {})
                if self.rr and self.level < 4 and len(parent) + 1 == 8 and () in self.tree['iso'] and 'RR_MOVED' not in self.tree['iso'][()]:
                    # the library has made the relocation directory: from now on a directory like any other to add things to
                    self.tree['iso'][()]['RR_MOVED'] = 'dir'
                    self.tree['iso'][('RR_MOVED',)] = {}
                    self.rrnames.setdefault((), {})['rr_moved'] = 'RR_MOVED'
                    self.rrnames[('RR_MOVED',)] = {}
        if ns == 'iso' and self.rr and op.get('rr'):
            self.rrnames.setdefault(parent, {}).setdefault(op['rr'], name)

    def remove(self, op):
        ns = op['ns']
        comps = split(op['path'])
        parent, name = tuple(comps[:-1]), comps[-1]
        self.tree[ns].get(parent, {}).pop(name, None)
        self.tree[ns].pop(parent + (name,), None)
        if ns == 'iso':
            rn = self.rrnames.get(parent, {})
            for k in [k for k, v in rn.items() if v == name]:
                del rn[k]
            self.rrnames.pop(parent + (name,), None)


def apply_op(iso, op):
    ns, path, kind = op['ns'], op['path'], op['op']
    key = {'iso': 'iso_path', 'joliet': 'joliet_path', 'udf': 'udf_path'}[ns]
    if kind == 'file':
        kw = {key: path}
        if op.get('rr') is not None:
            kw['rr_name'] = op['rr']
        iso.add_fp(io.BytesIO(b'c13'), 3, **kw)
    elif kind == 'dir':
        kw = {key: path}
        if op.get('rr') is not None:
            kw['rr_name'] = op['rr']
        iso.add_directory(**kw)
    elif kind == 'link':
        pre = {'iso': 'iso', 'joliet': 'joliet', 'udf': 'udf'}[ns]
        kw = {pre + '_old_path': op['old'], pre + '_new_path': path}
        if op.get('rr') is not None:
            kw['rr_name'] = op['rr']
        if op.get('xkw'):
            kw.update(op['xkw'])        # further keywords as a caller might pass them (they must not change what is refused)
        iso.add_hard_link(**kw)
    elif kind == 'symlink':
        iso.add_symlink(symlink_path=path, rr_symlink_name=op.get('rr'), rr_path='target')
    elif kind == 'rm_file':
        iso.rm_file(**{key: path})
    elif kind == 'rm_dir':
        iso.rm_directory(**{key: path})
    else:
        raise AssertionError('unknown op %r' % kind)


_DIGITS = re.compile(r'\d+')


def msg_class(e):
    return _DIGITS.sub('N', str(e))[:70]


# boundaries used by the non-triviality rule
def near(n, bounds):
    return any(abs(n - b) <= 1 for b in bounds)


def op_nontrivial(op, new):
    ns = op['ns']
    comps = split(op['path'])
    name = comps[-1]
    level = new['level']
    if ns == 'iso':
        b = name.encode('utf-8')
        if op['op'] == 'dir':
            if near(len(b), (8,) if level == 1 else (207, 221) if level < 4 else (221, 255)):
                return True
            if level < 4 and sum(c not in legal.D_CHARACTERS for c in b) == 1:
                return True
        else:
            nm, ext, ver = legal.split_file_identifier(b)
            if level == 1 and (near(len(nm), (8,)) or near(len(ext or b''), (3,))):
                return True
            if near(len(b), (221, 255)):
                return True
            if ver is not None and ver.isdigit() and near(int(ver), (0, 32767)):
                return True
            if level < 4 and sum(c not in legal.D_CHARACTERS for c in nm + (ext or b'')) == 1:
                return True
        if not new.get('rr') and level < 4 and near(len(comps), (7, 8)):
            return True
        if new.get('rr') and near(len((op.get('rr') or '').encode('utf-8')), (0, 250)):
            return True
        return False
    if ns == 'joliet':
        return near(legal.utf16_units(name), (64,))
    return near(legal.udf_field_length(name), (255,))


def run_case(case, col, record=True):
    import pycdlib
    from pycdlib.pycdlibexception import PyCdlibInvalidInput
    new = case['new']
    ops = case['ops']
    h = case.get('h', '?')
    model = Model(new)
    classes = ['h:' + h, 'level:%d' % new['level'],
               'image:%s%s%s' % ('rr' if new.get('rr') else 'iso', '+joliet' if new.get('joliet') else '',
                                 '+udf' if new.get('udf') else '')]
    over = col.extra.setdefault('over_refusals', {})
    measured = col.extra.setdefault('measured', {})

    def bump(d, k):
        d[k] = d.get(k, 0) + 1

    shim.reset(0)
    iso = pycdlib.PyCdlib()
    iso.new(interchange_level=new['level'], rock_ridge=new.get('rr'), joliet=new.get('joliet'), udf=new.get('udf'))

    pending = []     # illegal edits that were accepted: (op, exp)
    accepted = []    # (op, exp)
    aborted = None
    refused_any = False
    nontriv = h in ('dup-same', 'dup-other-kind', 'readd', 'other-ns', 'other-version', 'rr-dup', 'link-dup')
    tainted = set()   # (ns, path components) whose identifier is ambiguous after an accepted duplicate
    for i, op in enumerate(ops):
        shim.reset(i + 1)
        if (op['ns'], tuple(split(op['path']))) in tainted:
            # the model cannot say which of the two entries a later edit on that name hits
            bump(measured, 'stopped:edit-on-name-made-ambiguous-by-accepted-duplicate')
            break
        if op['op'] in ('rm_file', 'rm_dir'):
            comps = split(op['path'])
            if model.tree[op['ns']].get(tuple(comps[:-1]), {}).get(comps[-1]) is None:
                bump(measured, 'skipped:rm-target-missing')
                continue
            try:
                apply_op(iso, op)
            except Exception as e:  # removals are not the subject of C13
                bump(measured, 'rm-raised:%s' % exc_signature(e))
                aborted = 'rm-raised'
                break
            model.remove(op)
            # an illegal edit that had been accepted is reported now: the entry will not be on disc
            for pend in [q for q in pending if q[0]['ns'] == op['ns'] and split(q[0]['path']) == comps]:
                pending.remove(pend)
                pop, pexp, popk = pend
                if pexp['reason'] == 'duplicate':
                    col.fail('C13/d/duplicate-accepted/%s/%s-over-%s/accepted-then-removed' % (pop['ns'], popk, pexp['dup']), 'd',
                             'adding a %s whose identifier already names a %s in the same %s directory was accepted (removed again later in the history)'
                             % (popk, pexp['dup'], pop['ns']), case)
                elif pexp['reason'] == 'rr-duplicate':
                    col.fail('C13/d/duplicate-accepted/rr/%s/accepted-then-removed' % popk, 'd',
                             'a second entry with the same Rock Ridge name was accepted (removed again later in the history)', case)
                else:
                    col.fail('C13/c/illegal-accepted/%s/%s/%s/accepted-then-removed' % (pop['ns'], popk, pexp['reason'].replace(' ', '-')), 'c',
                             'illegal edit (%s) on %s/%s was accepted (removed again later in the history)' % (pexp['reason'], pop['ns'], popk), case)
            continue
        exp = model.expect(op)
        if 'skip' in exp:
            bump(measured, 'skipped:' + exp['skip'])
            continue
        if op_nontrivial(op, new):
            nontriv = True
        ns, kind = op['ns'], exp['kind']
        opk = op['op'] if op['op'] in ('link', 'symlink') else kind
        vtag = {True: 'legal', False: 'illegal', None: 'silent'}[exp['verdict']]
        try:
            apply_op(iso, op)
        except PyCdlibInvalidInput as e:
            refused_any = True
            if exp['verdict'] is True:
                bump(over, '%s/%s: %s' % (ns, opk, msg_class(e)))
                classes.append('outcome:over-refused')
            else:
                classes.append('outcome:%s-refused' % vtag)
            continue
        except Exception as e:
            col.fail('C13/b/wrong-exception/%s/%s/%s' % (ns, opk, exc_signature(e)), 'b',
                     'edit %r on %r raised %s: %s (expected: %s, %s); only PyCdlibInvalidInput may refuse an edit'
                     % (opk, ns, type(e).__name__, str(e)[:120], vtag, exp['reason']), case)
            classes.append('outcome:wrong-exception')
            aborted = 'wrong-exception'
            break
        classes.append('outcome:%s-accepted' % vtag)
        classes.append('ns:%s/%s' % (ns, opk))
        if exp['verdict'] is False:
            pending.append((op, exp, opk))
            if exp['reason'] == 'duplicate':
                tainted.add((ns, tuple(split(op['path']))))
        accepted.append((op, exp, opk))
        model.add(op, exp)

    if record:
        col.case(case, nontriv, sorted(set(classes)))
    if aborted:
        try:
            iso.close()
        except Exception:
            pass
        return

    def reason_slug(exp):
        return exp['reason'].replace(' ', '-')

    def blame(pend):
        """A failing write is blamed on the identifiers that do not fit their field when
        there are any (a duplicate of an over-long name is not why packing failed)."""
        fit = [p for p in pend if p[1]['reason'].startswith(('does not fit', 'longer than'))]
        return fit or pend

    # ---- write ----------------------------------------------------------------------
    out = io.BytesIO()
    try:
        iso.write_fp(out)
    except Exception as e:
        es = exc_signature(e)
        if pending:
            for op, exp, opk in blame(pending):
                col.fail('C13/c/illegal-accepted/%s/%s/%s/fails-at-write/%s' % (op['ns'], opk, reason_slug(exp), es), 'c',
                         'illegal edit (%s) was accepted and write_fp then raised %s: %s'
                         % (exp['reason'], type(e).__name__, str(e)[:120]), case)
        elif refused_any:
            # a refused edit came before: whether it left damage behind is C14's subject
            bump(measured, 'write-after-refusal-failed:%s' % es)
        else:
            col.fail('C13/a/accepted-then-write-fails/%s' % es, 'a',
                     'every edit was accepted (%s) but write_fp raised %s: %s'
                     % (', '.join(sorted({'%s/%s' % (o['ns'], k) for o, _, k in accepted})), type(e).__name__, str(e)[:120]), case)
        try:
            iso.close()
        except Exception:
            pass
        return
    try:
        iso.close()
    except Exception:
        pass
    img = out.getvalue()

    # ---- reopen ---------------------------------------------------------------------
    iso2 = pycdlib.PyCdlib()
    try:
        iso2.open_fp(io.BytesIO(img))
    except Exception as e:
        es = exc_signature(e)
        if pending:
            for op, exp, opk in blame(pending):
                col.fail('C13/c/illegal-accepted/%s/%s/%s/fails-at-reopen/%s' % (op['ns'], opk, reason_slug(exp), es), 'c',
                         'illegal edit (%s) was accepted, written, and open_fp then raised %s: %s'
                         % (exp['reason'], type(e).__name__, str(e)[:120]), case)
        else:
            col.fail('C13/a/accepted-then-reopen-fails/%s' % es, 'a',
                     'edits accepted (%s), image written, open_fp raised %s: %s'
                     % (', '.join(sorted({'%s/%s' % (o['ns'], k) for o, _, k in accepted})), type(e).__name__, str(e)[:120]), case)
        return

    # ---- scan -----------------------------------------------------------------------
    listings = {}

    def listing(ns, parent):
        key = (ns, parent)
        if key in listings:
            return listings[key]
        if ns == 'udf':
            res = []
            path = '/' + '/'.join(parent)
            for ent in iso2.list_children(udf_path=path):
                if ent is None:
                    continue
                res.append({'ident': ent.file_identifier(), 'flags': 2 if ent.is_dir() else 0, 'rr': None})
        else:
            pvd, jol = find_volume_descriptors(img)
            root = pvd if ns == 'iso' else jol
            if root is None:
                raise ScanError('no Joliet descriptor on a Joliet image')
            res = list_dir(img, root, [disc_ident(ns, c) for c in parent])
        listings[key] = res
        return res

    def physical_walk(ns):
        pvd, jol = find_volume_descriptors(img)
        root = pvd if ns == 'iso' else jol
        if root is None:
            return
        todo = [((), _le32(root, 2), _le32(root, 10))]
        user_idents = set(c.encode('utf-8') for o in ops for c in split(o['path']))
        seen_ext = set()
        ndirs = 0
        while todo:
            where, ext, size = todo.pop()
            if ext in seen_ext or ndirs > 400:
                continue
            seen_ext.add(ext)
            ndirs += 1
            counts = {}
            for r in read_directory(img, ext, size):
                if r['ident'] in (b'\x00', b'\x01'):
                    continue
                counts[r['ident']] = counts.get(r['ident'], 0) + (0 if r['flags'] & 0x80 and counts.get(r['ident']) else 1)
                if r['flags'] & 2:
                    todo.append((where + (r['ident'],), r['extent'], r['size']))
                    if ns == 'iso' and model.level == 1 and len(r['ident']) > 8 and where == (b'RR_MOVED',) and r['ident'] not in user_idents:
                        col.fail('C13/c/derived-identifier-too-long/l1', 'c',
                                 'a relocated directory got the identifier %r of the library\'s making: longer than 8 at level 1' % r['ident'], case)
            bump(measured, 'physical-dirs-walked')
            for ident, n in counts.items():
                if n > 1:
                    modelled = ns == 'iso' and tuple(c.decode('utf-8', 'replace') for c in where) in model.tree[ns]
                    col.fail('C13/d/duplicate-on-disc/%s/physical/%s' % (ns, 'modelled-dir' if modelled else 'library-made-dir'), 'd',
                             'identifier %r appears %d times in the %s directory %r of the written image' % (ident[:40], n, ns, b'/'.join(where)[:80]), case)

    dup_reported = set()
    try:
        # duplicates that were accepted: what happened on disc?
        for op, exp, opk in pending:
            ns = op['ns']
            if exp['reason'] == 'duplicate':
                recs = [r for r in listing(ns, exp['parent']) if r['ident'] == disc_ident(ns, exp['name'])]
                if len(recs) >= 2:
                    outcome = 'merged-multi-extent' if (ns != 'udf' and recs[0]['flags'] & 0x80) else 'two-entries'
                elif len(recs) == 1:
                    outcome = 'one-entry-left'
                else:
                    outcome = 'no-entry-left'
                dup_reported.add((ns, exp['parent'], exp['name']))
                col.fail('C13/d/duplicate-accepted/%s/%s-over-%s/%s' % (ns, opk, exp['dup'], outcome), 'd',
                         'adding a %s whose identifier already names a %s in the same %s directory was accepted; '
                         'the written directory holds %d entries with that identifier (%s)'
                         % (opk, exp['dup'], ns, len(recs), outcome), case)
            elif exp['reason'] == 'rr-duplicate':
                recs = [r for r in listing('iso', exp['parent']) if r['rr'] == (op.get('rr') or '').encode('utf-8')]
                dup_reported.add(('rr', exp['parent'], op.get('rr')))
                col.fail('C13/d/duplicate-accepted/rr/%s/%d-entries' % (opk, min(len(recs), 2)), 'd',
                         'two entries of one directory were given the same Rock Ridge name and both edits were accepted; '
                         'the written directory holds %d NM entries with it' % len(recs), case)
            else:
                col.fail('C13/c/illegal-accepted/%s/%s/%s/written' % (ns, opk, reason_slug(exp)), 'c',
                         'illegal edit (%s) on %s/%s was accepted; the image wrote and reopened'
                         % (exp['reason'], ns, opk), case)
        # every modelled entry exactly once
        for ns in ('iso', 'joliet', 'udf'):
            if not model.has_ns(ns):
                continue
            for parent, entries in model.tree[ns].items():
                if not entries and not parent:
                    continue
                if any((ns, parent[:j], parent[j]) in dup_reported for j in range(len(parent))):
                    continue   # below an identifier that is ambiguous on disc
                recs = listing(ns, parent)
                counts = {}
                for r in recs:
                    counts[r['ident']] = counts.get(r['ident'], 0) + 1
                for name, kind in entries.items():
                    if (ns, parent, name) in dup_reported:
                        continue
                    n = counts.get(disc_ident(ns, name), 0)
                    if n == 0:
                        col.fail('C13/a/missing-after-write/%s/%s' % (ns, kind), 'a',
                                 'an accepted %s/%s identifier is absent from its directory in the written image' % (ns, kind), case)
                    elif n > 1:
                        col.fail('C13/d/duplicate-on-disc/%s/%s' % (ns, kind), 'd',
                                 'identifier appears %d times in its %s directory' % (n, ns), case)
                if ns == 'iso' and model.rr:
                    rrc = {}
                    for r in recs:
                        if r['rr'] is not None:
                            rrc[r['rr']] = rrc.get(r['rr'], 0) + 1
                    for rrn, isoname in model.rrnames.get(parent, {}).items():
                        if ('rr', parent, rrn) in dup_reported:
                            continue
                        n = rrc.get(rrn.encode('utf-8'), 0)
                        if n == 0:
                            col.fail('C13/a/missing-after-write/rr', 'a',
                                     'an accepted Rock Ridge name is absent from the NM entries of its directory', case)
                        elif n > 1:
                            col.fail('C13/d/duplicate-on-disc/rr', 'd', 'Rock Ridge name appears %d times in its directory' % n, case)
        # the whole physical tree, also the directories nothing in the model names (the relocation directory and what the
        # library moved into it under identifiers of its own making): no identifier twice, none longer than the level allows
        if not dup_reported:
            for ns in ('iso', 'joliet'):
                if model.has_ns(ns):
                    physical_walk(ns)
    except ScanError as e:
        col.fail('C13/a/independent-scan-failed/%s' % _DIGITS.sub('N', str(e))[:50].replace(' ', '-'), 'a',
                 'independent directory scan of the written image failed: %s' % e, case)
    except Exception as e:
        if exc_signature(e).endswith('outside-repo'):
            raise
        col.fail('C13/a/listing-reopened-image-raised/%s' % exc_signature(e), 'a',
                 'list_children on the reopened image raised %s: %s' % (type(e).__name__, str(e)[:120]), case)
    finally:
        try:
            iso2.close()
        except Exception:
            pass


# ------------------------------------------------------------------------------------
# generators
# ------------------------------------------------------------------------------------

D = 'ABCDEFGHIJKLMNOPQRSTUVWXYZ0123456789_'
ODD = {'lower': 'az', 'punct': '-+ ~!$', 'utf8': 'éЖ日', 'astral': '😀'}


def cyc(seedtxt, n):
    if n <= 0:
        return ''
    return (seedtxt * (n // len(seedtxt) + 1))[:n]


def with_odd(s, odd, pos):
    """Replace one character of s (keeping the utf-8 length when possible is not tried); control characters go to the
    very end in half of the draws (anchored regular expressions treat a trailing line feed specially)."""
    if not s or odd is None:
        return s
    p = pos % len(s)
    if odd in ('\n', '\r', '\t', '\x00', '\x7f') and pos % 2:
        p = len(s) - 1
    return s[:p] + odd + s[p + 1:]


seed_txt = st.text(alphabet=D, min_size=1, max_size=6)
odd_st = st.one_of(st.none(), st.none(), st.sampled_from(['a', 'z', '-', ' ', '+', '~', 'é', 'Ж', '日', '😀', '.', ';', '\n', '\r', '\t', '\x00', '\x7f']))
mode_st = st.sampled_from(['d', 'd', 'd', 'lower', 'utf8'])

VERSIONS = [None, None, '1', '1', '', '0', '2', '32767', '32768', '99999', 'B', '1A', '+1', ' 1', '00001', '1;1', '-1', '1_0', '+32767', '1 ']
FILE_TOTALS = {1: [1, 2, 5, 8, 9, 12, 13, 14],
               2: [1, 12, 30, 31, 32, 33, 100, 207, 208, 219, 220, 221, 222, 223, 230, 254, 255, 256, 260, 300],
               4: [1, 12, 30, 31, 32, 207, 208, 219, 220, 221, 222, 223, 230, 254, 255, 256, 260, 300]}
DIR_LENS = {1: [1, 7, 8, 9, 10, 31], 2: [1, 8, 9, 30, 31, 32, 206, 207, 208, 209, 221, 222, 256],
            4: [1, 8, 9, 31, 207, 208, 219, 220, 221, 222, 223, 254, 255, 256, 300]}


def lvl_key(level):
    return 1 if level == 1 else (4 if level == 4 else 2)


def body(seedtxt, n, mode):
    s = cyc(seedtxt, n)
    if mode == 'lower':
        s = s.lower()
    elif mode == 'utf8':
        s = cyc('é' + seedtxt, n)
    return s


@st.composite
def iso_file_name(draw, level):
    k = lvl_key(level)
    version = draw(st.sampled_from(VERSIONS))
    seedtxt = draw(seed_txt)
    mode = draw(mode_st)
    odd = draw(odd_st)
    pos = draw(st.integers(0, 400))
    if k == 1:
        nl = draw(st.sampled_from([0, 1, 5, 7, 8, 8, 9, 9]))
        el = draw(st.sampled_from([None, 0, 1, 3, 3, 4]))
        name = body(seedtxt, nl, mode)
        ext = None if el is None else body(seedtxt[::-1], el, mode)
    else:
        total = draw(st.sampled_from(FILE_TOTALS[k]))
        el = draw(st.sampled_from([None, 0, 3, 3, 10]))
        tail = (0 if el is None else 1 + el) + (0 if version is None else 1 + len(version))
        nl = max(total - tail, 0)
        name = body(seedtxt, nl, mode)
        ext = None if el is None else body(seedtxt[::-1], el, 'd' if mode == 'utf8' else mode)
    extra_dots = draw(st.sampled_from([0, 0, 0, 1, 2]))
    for j in range(extra_dots):
        if len(name) > 2:
            p = (pos + 3 * j) % (len(name) - 1) + 1
            name = name[:p] + '.' + name[p + 1:]
    if draw(st.booleans()):
        name = with_odd(name, odd, pos)
    else:
        ext = with_odd(ext, odd, pos) if ext else ext
    s = name + ('' if ext is None else '.' + ext) + ('' if version is None else ';' + version)
    if s in ('', '.', '..') or '/' in s:
        s = 'A' + s.replace('/', '_')
    return s


@st.composite
def iso_dir_name(draw, level):
    k = lvl_key(level)
    n = draw(st.sampled_from(DIR_LENS[k]))
    s = body(draw(seed_txt), n, draw(mode_st))
    s = with_odd(s, draw(odd_st), draw(st.integers(0, 400)))
    if s in ('', '.', '..') or '/' in s:
        s = 'A' + s.replace('/', '_')
    return s


@st.composite
def joliet_name(draw):
    units = draw(st.sampled_from([1, 8, 31, 32, 33, 62, 63, 64, 64, 65, 65, 66, 100, 128, 129]))
    flavour = draw(st.sampled_from(['ascii', 'ascii', 'bmp2', 'bmp3', 'astral-tail', 'astral-all', 'mixed']))
    seedtxt = draw(st.text(alphabet='abcXYZ019 _-', min_size=1, max_size=5))
    if flavour == 'ascii':
        s = cyc(seedtxt, units)
    elif flavour == 'bmp2':
        s = cyc('Жé' + seedtxt, units)
    elif flavour == 'bmp3':
        s = cyc('日本' + seedtxt, units)
    elif flavour == 'astral-tail':
        s = cyc(seedtxt, max(units - 2, 0)) + '😀'
    elif flavour == 'astral-all':
        s = '😀' * (units // 2) + ('x' if units % 2 else '')
    else:
        s = cyc('aЖ日', max(units - 2, 0)) + '😀'
    if s.strip('.') == '' or s in ('.', '..'):
        s = 'j' + s
    return s


@st.composite
def udf_name(draw):
    flavour = draw(st.sampled_from(['latin', 'latin', 'latin1-high', 'ucs2', 'ucs2', 'ucs2-one', 'astral']))
    seedtxt = draw(st.text(alphabet='abcXYZ019 _-', min_size=1, max_size=5))
    if flavour in ('latin', 'latin1-high'):
        n = draw(st.sampled_from([1, 8, 126, 127, 128, 253, 254, 254, 255, 255, 256, 300]))
        s = cyc(seedtxt if flavour == 'latin' else 'éÿ' + seedtxt, n)
    else:
        n = draw(st.sampled_from([1, 8, 63, 64, 126, 127, 127, 128, 128, 129, 200, 254, 255]))
        if flavour == 'ucs2':
            s = cyc('Ж日' + seedtxt, n)
        elif flavour == 'ucs2-one':
            s = cyc(seedtxt, max(n - 1, 0)) + 'Ж'
        else:
            s = cyc(seedtxt, max(n - 2, 0)) + '😀'
    if s in ('.', '..') or s == '':
        s = 'u' + s
    return s


@st.composite
def rr_name_st(draw):
    which = draw(st.sampled_from(['plain'] * 6 + ['long', 'long', 'empty', 'slash', 'utf8']))
    seedtxt = draw(st.text(alphabet='abcxyzXYZ019._- ', min_size=1, max_size=6))
    if which == 'plain':
        s = cyc(seedtxt, draw(st.sampled_from([1, 3, 8, 12, 30, 64])))
    elif which == 'long':
        s = cyc(seedtxt, draw(st.sampled_from([100, 200, 249, 250, 251, 255, 256, 300])))
    elif which == 'empty':
        return ''
    elif which == 'slash':
        return cyc(seedtxt, 3) + '/' + cyc(seedtxt, 2)
    else:
        s = cyc('éЖ日😀' + seedtxt, draw(st.sampled_from([1, 5, 20, 83, 84, 125])))
    if s in ('.', '..'):
        s = 'r' + s
    return s


SIMPLE = ['A', 'B', 'FOO', 'BAR', 'X1', 'D', 'E_', 'Z9']   # legal as ISO file/dir at every level, Joliet, UDF


def image_st(need=(), rr=None):
    """Image flavour containing at least the namespaces in `need`."""
    def build(level, rrv, jol, udf):
        new = {'level': level, 'rr': rrv, 'joliet': 3 if (jol or 'joliet' in need) else None,
               'udf': '2.60' if (udf or 'udf' in need) else None}
        if rr is True and not new['rr']:
            new['rr'] = '1.09'
        if rr is False:
            new['rr'] = None
        return new
    return st.builds(build, st.sampled_from([1, 1, 2, 3, 3, 4]), st.sampled_from([None, None, None, '1.09', '1.09', '1.10', '1.12']),
                     st.sampled_from([False, False, False, True]), st.sampled_from([False, False, False, False, True]))


def rr_for(new, name):
    """A Rock Ridge name for an ISO-namespace op on image `new` (None when no RR)."""
    return ('rr_' + name.lower()[:20]) if new.get('rr') else None


@st.composite
def candidate(draw, new, ns, kind):
    """(name, rr_name) for one candidate op."""
    if ns == 'iso':
        name = draw(iso_dir_name(new['level']) if kind == 'dir' else iso_file_name(new['level']))
        rr = None
        if new.get('rr'):
            rr = draw(st.one_of(st.just('rrcand'), st.just('rrcand'), rr_name_st()))
        return name, rr
    if ns == 'joliet':
        return draw(joliet_name()), None
    return draw(udf_name()), None


ns_st = st.sampled_from(['iso', 'iso', 'iso', 'joliet', 'udf'])
kind_st = st.sampled_from(['file', 'file', 'dir'])


@st.composite
def t_single(draw):
    ns = draw(ns_st)
    new = draw(image_st(need=(ns,)))
    kind = draw(kind_st)
    ops = []
    parent = ''
    if draw(st.sampled_from([False, False, True])):
        ops.append({'op': 'dir', 'ns': ns, 'path': '/SUB', 'rr': 'sub' if (ns == 'iso' and new.get('rr')) else None})
        parent = '/SUB'
    if ns == 'iso' and new.get('rr') and draw(st.sampled_from([False, False, True])):
        # Rock Ridge name is the candidate, ISO name is plain
        rr = draw(rr_name_st())
        ops.append({'op': kind, 'ns': 'iso', 'path': parent + '/CAND', 'rr': rr})
    else:
        name, rr = draw(candidate(new, ns, kind))
        opk = kind
        if kind == 'file' and ns == 'iso' and new.get('rr') and draw(st.sampled_from([False, False, False, True])):
            opk = 'symlink'
        ops.append({'op': opk, 'ns': ns, 'path': parent + '/' + name, 'rr': rr})
    return {'h': 'single', 'new': new, 'ops': ops}


@st.composite
def simple_or_candidate(draw, new, ns, kind):
    """A name that is mostly legal (so that the second add is the interesting one)."""
    if draw(st.sampled_from([True, True, True, False])):
        s = draw(st.sampled_from(SIMPLE))
        if ns == 'iso' and kind == 'file':
            s = s + draw(st.sampled_from(['', '.', '.;1', '.TXT;1', ';1']))
        elif ns != 'iso':
            s = draw(st.sampled_from([s, s.lower(), s + '.txt', 'Ж' + s]))
        return s
    return draw(candidate(new, ns, kind))[0]


@st.composite
def t_dup(draw):
    ns = draw(ns_st)
    new = draw(image_st(need=(ns,)))
    k1 = draw(kind_st)
    other_kind = draw(st.booleans())
    k2 = ({'file': 'dir', 'dir': 'file'}[k1]) if other_kind else k1
    name = draw(simple_or_candidate(new, ns, 'dir' if other_kind else k1))
    isrr = ns == 'iso' and new.get('rr')
    ops = []
    parent = ''
    if draw(st.sampled_from([False, False, True])):
        ops.append({'op': 'dir', 'ns': ns, 'path': '/SUB', 'rr': 'sub' if isrr else None})
        parent = '/SUB'
    ops.append({'op': k1, 'ns': ns, 'path': parent + '/' + name, 'rr': 'first' if isrr else None})
    if draw(st.sampled_from([False, False, True])):
        ops.append({'op': 'file', 'ns': ns, 'path': parent + '/' + draw(st.sampled_from(['M', 'ZZ', 'A0'])), 'rr': 'filler' if isrr else None})
    ops.append({'op': k2, 'ns': ns, 'path': parent + '/' + name, 'rr': 'second' if isrr else None})
    return {'h': 'dup-other-kind' if other_kind else 'dup-same', 'new': new, 'ops': ops}


@st.composite
def t_readd(draw):
    ns = draw(ns_st)
    new = draw(image_st(need=(ns,)))
    kind = draw(kind_st)
    name = draw(simple_or_candidate(new, ns, kind))
    isrr = ns == 'iso' and new.get('rr')
    rm = 'rm_dir' if kind == 'dir' else 'rm_file'
    ops = [{'op': kind, 'ns': ns, 'path': '/' + name, 'rr': 'first' if isrr else None}]
    if draw(st.booleans()):
        ops.append({'op': 'file', 'ns': ns, 'path': '/' + draw(st.sampled_from(['M', 'ZZ', 'A0'])), 'rr': 'filler' if isrr else None})
    ops.append({'op': rm, 'ns': ns, 'path': '/' + name})
    k2 = kind if draw(st.sampled_from([True, True, False])) else {'file': 'dir', 'dir': 'file'}[kind]
    ops.append({'op': k2, 'ns': ns, 'path': '/' + name, 'rr': draw(st.sampled_from(['first', 'again'])) if isrr else None})
    tail = draw(st.sampled_from(['none', 'dup', 'rm', 'rm-readd']))
    if tail == 'dup':
        ops.append({'op': k2, 'ns': ns, 'path': '/' + name, 'rr': 'third' if isrr else None})
    elif tail in ('rm', 'rm-readd'):
        ops.append({'op': 'rm_dir' if k2 == 'dir' else 'rm_file', 'ns': ns, 'path': '/' + name})
        if tail == 'rm-readd':
            ops.append({'op': kind, 'ns': ns, 'path': '/' + name, 'rr': 'first' if isrr else None})
    return {'h': 'readd', 'new': new, 'ops': ops}


@st.composite
def t_other_ns(draw):
    pair = draw(st.sampled_from([('iso', 'joliet'), ('iso', 'udf'), ('joliet', 'udf'), ('joliet', 'iso'), ('udf', 'iso'), ('udf', 'joliet')]))
    new = draw(image_st(need=pair))
    name = draw(st.sampled_from(SIMPLE))
    kind = draw(kind_st)
    ops = []
    for j, ns in enumerate(pair):
        ops.append({'op': kind, 'ns': ns, 'path': '/' + name, 'rr': ('n%d' % j) if (ns == 'iso' and new.get('rr')) else None})
    if draw(st.booleans()):   # and then a real duplicate in the first namespace
        ops.append({'op': kind, 'ns': pair[0], 'path': '/' + name, 'rr': 'dupl' if (pair[0] == 'iso' and new.get('rr')) else None})
    return {'h': 'other-ns', 'new': new, 'ops': ops}


@st.composite
def t_other_version(draw):
    new = draw(image_st())
    base = draw(st.sampled_from(SIMPLE)) + draw(st.sampled_from(['.', '.TXT', '']))
    v1, v2 = draw(st.sampled_from([('1', '2'), ('1', '32767'), ('2', '1'), (None, '1'), ('1', None), ('1', '01'), ('01', '1'), ('2', '002'), ('10', '010'), ('1', '0001')]))
    # optionally a third add that repeats the first or the second spelling byte for byte (a real duplicate, whatever sorts in between)
    third = draw(st.sampled_from([None, None, 0, 1]))
    vs = [v1, v2] + ([(v1, v2)[third]] if third is not None else [])
    ops = []
    for j, v in enumerate(vs):
        ops.append({'op': 'file', 'ns': 'iso', 'path': '/' + base + ('' if v is None else ';' + v), 'rr': ('v%d' % j) if new.get('rr') else None})
    return {'h': 'other-version', 'new': new, 'ops': ops}


@st.composite
def t_other_dir(draw):
    ns = draw(ns_st)
    new = draw(image_st(need=(ns,)))
    kind = draw(kind_st)
    name = draw(st.sampled_from(SIMPLE))
    isrr = ns == 'iso' and new.get('rr')
    ops = [{'op': 'dir', 'ns': ns, 'path': '/SUB', 'rr': 'sub' if isrr else None},
           {'op': kind, 'ns': ns, 'path': '/' + name, 'rr': 'same' if isrr else None},
           {'op': kind, 'ns': ns, 'path': '/SUB/' + name, 'rr': 'same' if isrr else None}]
    if draw(st.booleans()):
        ops.append({'op': kind, 'ns': ns, 'path': '/SUB/' + name, 'rr': 'other' if isrr else None})
    return {'h': 'other-dir', 'new': new, 'ops': ops}


@st.composite
def t_rr_dup(draw):
    new = draw(image_st(rr=True))
    k1, k2 = draw(kind_st), draw(kind_st)
    rr = draw(st.sampled_from(['x', 'same name', 'Ünï', 'a.b']))
    ops = [{'op': k1, 'ns': 'iso', 'path': '/A', 'rr': rr}, {'op': k2, 'ns': 'iso', 'path': '/B', 'rr': rr}]
    if draw(st.booleans()):
        ops.insert(1, {'op': 'rm_dir' if k1 == 'dir' else 'rm_file', 'ns': 'iso', 'path': '/A'})
    return {'h': 'rr-dup', 'new': new, 'ops': ops}


@st.composite
def t_link_dup(draw):
    ns = draw(ns_st)
    new = draw(image_st(need=(ns,)))
    isrr = ns == 'iso' and new.get('rr')
    kind = draw(kind_st)
    target = draw(st.sampled_from(['exists', 'exists', 'fresh', 'candidate']))
    ops = [{'op': 'file', 'ns': ns, 'path': '/SRC', 'rr': 'src' if isrr else None},
           {'op': kind, 'ns': ns, 'path': '/DST', 'rr': 'dst' if isrr else None}]
    if target == 'exists':
        name = 'DST'
    elif target == 'fresh':
        name = 'NEW'
    else:
        name = draw(candidate(new, ns, 'file'))[0]
    # the link's Rock Ridge name: fresh, or the one a sibling already has (with a fresh ISO9660 identifier)
    lrr = draw(st.sampled_from(['lnk', 'lnk', 'dst', 'src']))
    lop = {'op': 'link', 'ns': ns, 'old': '/SRC', 'path': '/' + name, 'rr': lrr if isrr else None}
    xk = draw(st.sampled_from([None, None, None, {'data_continuation': True}, {'data_continuation': False}]))
    if xk and target == 'exists':
        # the keyword the library uses internally for the later records of a multi-extent file: a duplicate stays a duplicate
        lop['xkw'] = xk
    ops.append(lop)
    return {'h': 'link-dup', 'new': new, 'ops': ops}


@st.composite
def t_depth(draw):
    level = draw(st.sampled_from([1, 2, 3, 4]))
    rr = draw(st.sampled_from([None, None, '1.09', '1.12']))
    new = {'level': level, 'rr': rr, 'joliet': None, 'udf': None}
    k = draw(st.sampled_from([6, 7, 7, 8, 8, 9]))
    kind = draw(kind_st)
    ops = []
    path = ''
    for i in range(1, k):
        path += '/D%d' % i
        ops.append({'op': 'dir', 'ns': 'iso', 'path': path, 'rr': ('d%d' % i) if rr else None})
    ops.append({'op': kind, 'ns': 'iso', 'path': path + '/LEAF', 'rr': 'leaf' if rr else None})
    return {'h': 'depth', 'new': new, 'ops': ops}


@st.composite
def t_reloc_twins(draw):
    """Two to four directories of one name at the eighth level of different parents: Rock Ridge moves them all into one
    relocation directory, where the library has to find identifiers for them itself (lengths around the level's limit)."""
    level = draw(st.sampled_from([1, 1, 2, 3, 4]))
    rr = draw(st.sampled_from(['1.09', '1.10', '1.12']))
    new = {'level': level, 'rr': rr, 'joliet': None, 'udf': None}
    n = draw(st.integers(2, 4))
    lim = 8 if level == 1 else (31 if level < 4 else 60)
    ln = draw(st.sampled_from([1, 4, 5, 6, 7, 8] if level == 1 else [3, 8, lim - 3, lim - 2, lim - 1, lim]))
    leaf = body(draw(st.text(alphabet=D, min_size=1, max_size=4)), ln, 'plain')[:ln]
    same_rr = draw(st.booleans())
    ops = []
    tops = draw(st.permutations(['A', 'B', 'C', 'E']))[:n]
    for t in tops:
        path = ''
        for comp in (t, 'D2', 'D3', 'D4', 'D5', 'D6', 'D7'):
            path += '/' + comp
            ops.append({'op': 'dir', 'ns': 'iso', 'path': path, 'rr': comp.lower()})
        ops.append({'op': 'dir', 'ns': 'iso', 'path': path + '/' + leaf, 'rr': 'leaf' if same_rr else 'leaf' + t.lower()})
        if draw(st.booleans()):
            ops.append({'op': 'file', 'ns': 'iso', 'path': path + '/' + leaf + '/F.;1', 'rr': 'f'})
    extra = draw(st.integers(0, 5))
    if extra == 1:
        # the user puts entries of their own into the relocation directory, one of them twice
        ops.append({'op': 'file', 'ns': 'iso', 'path': '/SRC.;1', 'rr': 'src'})
        kind2 = draw(st.sampled_from(['link', 'link', 'file']))
        for rrn in ('bar', 'bar' if draw(st.booleans()) else 'bar2'):
            o = {'op': kind2, 'ns': 'iso', 'path': '/RR_MOVED/BAR.;1', 'rr': rrn}
            if kind2 == 'link':
                o['old'] = '/SRC.;1'
            ops.append(o)
    if extra == 0:
        k = draw(st.integers(0, n - 1))
        ops.append({'op': 'rm_dir', 'ns': 'iso', 'path': '/%s/D2/D3/D4/D5/D6/D7/%s' % (tops[k], leaf)})
        ops.append({'op': 'dir', 'ns': 'iso', 'path': '/%s/D2/D3/D4/D5/D6/D7/%s' % (tops[k], leaf), 'rr': 'again'})
    return {'h': 'reloc-twins', 'new': new, 'ops': ops}


case_st = st.one_of(t_single(), t_single(), t_single(), t_single(), t_dup(), t_dup(), t_readd(), t_other_ns(),
                    t_other_version(), t_other_dir(), t_rr_dup(), t_link_dup(), t_depth(), t_reloc_twins())


# ------------------------------------------------------------------------------------
# runner interface
# ------------------------------------------------------------------------------------

def shard(seed, tier, shard_no, nshards):
    shim.install('UTC')
    col = Collector()
    n = CASES[tier]

    @hseed(seed * 64 + shard_no)
    @settings(max_examples=n, database=None, deadline=None, phases=[Phase.generate],
              suppress_health_check=list(HealthCheck), report_multiple_bugs=False)
    @given(case_st)
    def t(case):
        run_case(case, col)

    t()
    return col.result()


def replay(case, col):
    shim.install('UTC')
    try:
        run_case(case, col)
    finally:
        shim.uninstall()   # replay/shrink run inside the runner's process, which reads the wall clock


def shrink(case, sig):
    """Drop edits that are not needed to keep the signature."""
    shim.install('UTC')

    def still(c):
        col = Collector()
        try:
            run_case(c, col, record=False)
        except Exception:
            return False
        return sig in col.failures

    cur = case
    changed = True
    while changed:
        changed = False
        for i in range(len(cur['ops'])):
            cand = dict(cur, ops=cur['ops'][:i] + cur['ops'][i + 1:])
            if cand['ops'] and still(cand):
                cur = cand
                changed = True
                break
    for key, val in (('joliet', None), ('udf', None), ('rr', None)):
        if cur['new'].get(key) is not None:
            cand = dict(cur, new=dict(cur['new'], **{key: val}))
            if key == 'rr':
                cand['ops'] = [dict(o, rr=None) for o in cand['ops']]
            if still(cand):
                cur = cand
    shim.uninstall()
    return cur if len(canon(cur)) < len(canon(case)) else None
