"""C02 Editing an existing image preserves everything that was not edited, across generations.

G: programs with 1-4 `reopen` ops (generations), edits before and after each.
O: at the end of every generation the written image opens; the API view of the reopened
   object equals the reference model (so untouched files keep their bytes, removed
   entries are gone in all namespaces the documentation says, nothing else changed).
"""
import io

from hypothesis import strategies as st

from vf import shim, gen
from vf.engine import Run, open_image, api_view, model_view, diff_views
from vf.propbase import EngineProperty
from vf.runner import exc_signature
from vf.props.c01 import diff_sig

ID = 'C02'
LEVEL = 'exploration'
RULE = ('programs = config + symbolic edit ops with 1-4 reopen ops (write, close, open the written bytes) drawn by Hypothesis from the '
        'profiles mixed/growshrink/deep/links/boot, weighted to links. The view comparison runs after every reopen and after the final write. '
        'Non-trivial = at least one reopen followed by a removal, link or add that was applied. Distinct = distinct canonical program JSON.')
ASSUMPTIONS = [
    'the vendored foreign-image corpus named in the property is not available offline (vendor/*.tar.gz are git-LFS pointers); images come from the library itself',
    'reference model as in C01; documented looseness: rm_file on a zero-byte file may leave its other names',
    'failures before the first reopen belong to C01 and are only counted here',
]
SHARDS = {'quick': 16, 'thorough': 16}
CASES = {'quick': 110, 'thorough': 4000}


def strategy(tier):
    w = {'mixed': 4, 'growshrink': 2, 'deep': 2, 'links': 5, 'boot': 2, 'exactfill': 1, 'cegap': 2, 'samename': 4, 'bootlinks': 2, 'reloctwins': 1, 'readd': 2, 'symcomps': 1}
    base = gen.any_profile(reopen_ok=True, weights=w)          # (in effect uniform over the profiles, see gen.weighted)
    # two profiles whose defects show rarely per case get a real share of their own (the detection of seeds C02 and C02-b
    # turned out to hang on the random stream: 5-13 hits per run before, none after an unrelated generator change)
    more = [gen.cegap(reopen_ok=True).map(lambda p: dict(p, profile='cegap')), gen.samename(reopen_ok=True).map(lambda p: dict(p, profile='samename')),
            gen.linktwins(reopen_ok=True).map(lambda p: dict(p, profile='linktwins'))]
    return st.tuples(gen.with_reopens(gen.weighted([(base, 10), (more[0], 3), (more[1], 2), (more[2], 2)])), st.sampled_from([1, 512, 2048, 8192, 70000]))


def compare(run, iso, blocksize, where, failures):
    m = run.model
    try:
        relocs = bool(m.relocated_dirs())
        got = api_view(iso, m.has, bool(m.rr), blocksize, physical_iso=not relocs,
                       logical_iso_paths=[p for p in m.t['iso'] if p != '/'] if relocs else None)
    except Exception as e:  # noqa
        failures.append(('C02/api-view/' + exc_signature(e), 'view-raised', '%s: walking/reading raised %s: %s' % (where, type(e).__name__, e)))
        return
    for ns, path, a, b in diff_views(got, model_view(m)):
        failures.append((diff_sig(ns, a, b).replace('C01/', 'C02/') + '/' + m.role(ns, path), 'view-mismatch',
                         '%s (generation %d): namespace %s path %r: image shows %r, history implies %r' % (where, m.generation, ns, (path or '')[:80], a, b)))


def oracle(program, blocksize):
    shim.install('UTC')
    blocksize = blocksize or 8192
    failures = []
    # a moving clock in half of the cases (views are compared, not bytes): whatever the library stamps twice must still agree
    shim.set_tick(len(program['ops']) % 2 == 1)
    run = Run(program)
    run.stats = {'c01_domain_problems': 0, 'generations': 0, 'edits_after_reopen': 0}
    state = {'after': 0}

    def on_step(r, i):
        if r.ops[i]['k'] == 'reopen' and not r.dead:
            run.stats['generations'] += 1
            compare(r, r.iso, blocksize, 'after reopen at step %d' % i, failures)
    run.run_all(on_step)
    first_reopen = next((i for i, o in enumerate(run.ops) if o['k'] == 'reopen'), len(run.ops))
    run.stats['edits_after_reopen'] = sum(1 for i in run.applied if i > first_reopen)
    for pr in run.problems:
        if pr.step < first_reopen:
            run.stats['c01_domain_problems'] += 1
            continue
        failures.append(('C02/' + pr.sig, pr.clause, 'step %d (generation %d): %s' % (pr.step, run.model.generation, pr.msg)))
    if run.dead or run.model.generation == 0:
        run.close()
        return run, failures
    img = run.write()
    if img is None:
        pr = run.problems[-1]
        failures.append(('C02/' + pr.sig, pr.clause, 'final write: ' + pr.msg))
        run.close()
        return run, failures
    new = open_image(img)
    if isinstance(new, Exception):
        failures.append(('C02/reopen/' + exc_signature(new), 'reopen-raised', 'final image: open_fp raised %s: %s' % (type(new).__name__, new)))
    else:
        compare(run, new, blocksize, 'final image', failures)
        try:
            new.close()
        except Exception:
            pass
    if not failures and len(program['ops']) % 3 == 0 and not run.model.has['udf'] and run.model.hybrid is None:
        cut_image_stage(run, img, blocksize, failures)
    if not failures and run.model.boot is not None and len(run.model.boot['entries']) >= 2 and run.model.hybrid is None:
        alt = headerless_catalog(img)
        if alt is not None:
            cut_image_stage(run, alt, blocksize, failures, variant='headerless-catalog')
    run.close()
    return run, failures


def headerless_catalog(img):
    """The same image with a boot catalog as some mastering tools write it: the entries of the sections follow the initial
    entry directly, without section headers (seen on Mageia ISOs).  None if the catalog is not of the expected shape."""
    import struct
    if img[17 * 2048 + 7:17 * 2048 + 30] != b'EL TORITO SPECIFICATION':
        return None
    cat = struct.unpack_from('<L', img, 17 * 2048 + 0x47)[0] * 2048
    body = img[cat + 64:cat + 2048]
    entries = []
    pos = 0
    while pos + 32 <= len(body):
        rec = body[pos:pos + 32]
        if rec[0] in (0x90, 0x91):
            n = struct.unpack_from('<H', rec, 2)[0]
            for k in range(n):
                e = body[pos + 32 + 32 * k:pos + 64 + 32 * k]
                if len(e) < 32 or e[0] not in (0x88, 0x00):
                    return None
                entries.append(e)
            pos += 32 + 32 * n
            if rec[0] == 0x91:
                break
        else:
            break
    if not entries or len(entries) > 20:
        return None
    new = bytearray(img)
    blob = b''.join(entries)
    new[cat + 64:cat + 2048] = blob + bytes(2048 - 64 - len(blob))
    return bytes(new)


def cut_image_stage(run, img, blocksize, failures, variant='cut'):
    """An image that lost its last sector(s) and that the library still opens is an existing image like any other: what
    open() shows of it (names, lengths, bytes) is what a generation later has to show again, next to the one file added.
    No model here: the library's own view of the cut image is the reference.  (variant 'headerless-catalog': the image is
    not cut, its boot catalog is rewritten without section headers.)"""
    m = run.model
    k = 1 + len(run.ops) % 2
    if variant == 'cut':
        if len(img) <= (40 + k) * 2048:
            return
        cut = open_image(img[:-k * 2048])
    else:
        cut = open_image(img)
    if isinstance(cut, Exception):
        run.stats['%s_image_refused' % variant] = run.stats.get('%s_image_refused' % variant, 0) + 1
        return
    relocs = bool(m.relocated_dirs())
    kw = dict(physical_iso=not relocs, logical_iso_paths=[p for p in m.t['iso'] if p != '/'] if relocs else None)
    try:
        v1 = api_view(cut, m.has, bool(m.rr), blocksize, **kw)
    except Exception:      # noqa  (what a damaged image cannot show is C15's matter)
        run.stats['cut_image_unreadable'] = run.stats.get('cut_image_unreadable', 0) + 1
        cut.close()
        return
    try:
        add = {'iso_path': '/ZZCUT.;1'}
        if m.rr:
            add['rr_name'] = 'zzcut'
        cut.add_fp(io.BytesIO(b'cut' * 100), 300, **add)
        out = io.BytesIO()
        cut.write_fp(out)
        cut.close()
    except Exception as e:     # noqa
        failures.append(('C02/%s-image/edit-or-write-raised/' % variant + exc_signature(e), 'cut-image', 'an image (%s, %d) opens, but adding a file and writing raised %s: %s' % (variant, k, type(e).__name__, e)))
        return
    new = open_image(out.getvalue())
    if isinstance(new, Exception):
        failures.append(('C02/%s-image/reopen/' % variant + exc_signature(new), 'cut-image', 'an image cut by %d sector(s) opens, is edited and written; the result does not open: %s' % (k, new)))
        return
    try:
        v2 = api_view(new, m.has, bool(m.rr), blocksize, **kw)
    except Exception as e:     # noqa
        failures.append(('C02/%s-image/view-raised/' % variant + exc_signature(e), 'cut-image', 'reading the generation after the cut image raised %s: %s' % (type(e).__name__, e)))
        new.close()
        return
    new.close()
    run.stats['%s_images_compared' % variant.replace('-', '_')] = run.stats.get('%s_images_compared' % variant.replace('-', '_'), 0) + 1
    # what the library writes into a file itself follows the layout and may change with it: the boot catalog, and bytes 8..64 of
    # a boot file with a boot info table (only their lengths are compared)
    volatile = set()
    for bl in m.blobs.values():
        if bl.catalog or bl.bit:
            for ns_, p_ in bl.names:
                volatile.add(p_)
                if ns_ == 'iso' and m.rr:
                    volatile.add(m.rr_path(p_))
    for ns in v1:
        for path, a in (v1[ns] or {}).items():
            b = (v2.get(ns) or {}).get(path)
            if path in volatile and a is not None and b is not None and a[:2] == b[:2]:
                continue
            if b != a:
                what = 'lost' if b is None else ('length' if a[1] != b[1] else 'differs')
                failures.append(('C02/%s-image/%s/%s' % (variant, ns, what), 'cut-image',
                                 'image (' + variant + ') cut by %d sector(s): %s path %r was %r when the cut image was opened and is %r one generation (and one added file) later' % (k, ns, path[:60], a, b)))
                return


def nontrivial(run, cl):
    return run.model.generation >= 1 and run.stats.get('edits_after_reopen', 0) >= 1


PROP = EngineProperty(ID, oracle, nontrivial)
shard = PROP.shard_fn(strategy, CASES)
replay = PROP.replay
shrink = PROP.shrink
