"""C04 Sector allocation is sound: no overlap, in bounds, exact size, shared iff linked.

G: programs from all profiles (weighted growshrink/links/boot), written through a RecordingFile.
O: from the independent readers' allocation map of the written image:
   (a) no two distinct objects overlap (continuation areas as byte intervals inside their sector);
   (b) everything lies inside the declared volume size, all descriptors declare the same size,
       len(image) == size*2048 (+ only the cylinder padding on hybrid images);
   (c) two names share data sectors iff the model says they are links of one blob;
   (d) the write log writes no byte twice except the boot-info-table patch and the final pad;
   (e) the library's own PYCDLIB_TRACK_WRITES detector stays silent;
   (f) exact size: no unowned sector in [16, N) beyond the structural reserves, N = end of the last object.
"""
import io
import os

from hypothesis import strategies as st

from vf import shim, gen
from vf.engine import Run, RecordingFile
from vf.indep import iso9660, udf as iudf
from vf.propbase import EngineProperty
from vf.runner import exc_signature

ID = 'C04'
LEVEL = 'exploration'
RULE = ('images = final write (through a write-recording file object) of a generated program, profiles weighted to growshrink/links/boot/hybrid, '
        'with and without reopen generations. Non-trivial = the history contains a removal, a hard link or a reopen. Distinct = distinct canonical program JSON.')
ASSUMPTIONS = [
    'allocation map comes from the independent readers (vf/indep/iso9660.py, udf.py)',
    'Interpretation (exact size): unused tail sectors and unowned interior sectors are a failing clause of their own (tail-slack / hole) because the statement\'s title says "exact size"; structural reserves allowed: the UDF bridge gap up to sector 257, the sector after the descriptor set terminator, and the path-table reservation of 2 sectors per started 4 KiB per table',
    'zero-length files own no sectors and are exempt from the shared-iff-linked clause',
]
SHARDS = {'quick': 16, 'thorough': 16}
CASES = {'quick': 150, 'thorough': 5000}


def strategy(tier):
    w = {'mixed': 3, 'growshrink': 4, 'deep': 2, 'links': 4, 'boot': 3, 'hybrid': 2, 'exactfill': 2, 'cegap': 2, 'samename': 1, 'ptedge': 2, 'bootlinks': 3, 'reloctwins': 1, 'readd': 1, 'twoboots': 1, 'udflinks': 2}
    return st.tuples(gen.any_profile(reopen_ok=True, weights=w), st.booleans())


def intervals(info, uinfo):
    out = list(info['alloc'])
    if uinfo:
        out += [(a, n, k, o) for (a, n, k, o) in uinfo.get('alloc', [])]
    return out


def allocation_failures(m, img, info, prefix='C04', exact=True):
    """Clauses (a) overlap, (b) bounds/sizes, (c) shared-iff-linked, and the location map used by (d);
    (f) exact size is evaluated by `exact_size_failures`.  Returns (failures, loc, uinfo, ivs, vol)."""
    failures = []
    uinfo = None
    vol = info.get('volume_size') or 0
    hybrid = m.hybrid is not None
    if m.has['udf']:
        try:
            uinfo = iudf.read_udf(iso9660.Image(img), last_sector=vol - 1 if vol else None)
        except TypeError:
            uinfo = iudf.read_udf(iso9660.Image(img))
    # ---- (b) bounds and sizes
    for c, msg in info['findings']:
        if c in ('vd-sizes-agree', 'dir-bounds', 'pt-bounds', 'su-ce-bounds', 'su-ce-overlap', 'unreadable'):
            failures.append(((prefix + '/%s') % c, c, msg[:400]))
    if vol:
        if not hybrid and len(img) != vol * 2048:
            failures.append(((prefix + '/image-length/%s') % ('longer' if len(img) > vol * 2048 else 'shorter'), 'image-length',
                             'image has %d bytes, the volume descriptors declare %d sectors (%d bytes)' % (len(img), vol, vol * 2048)))
        if hybrid:
            gs, gh = m.hybrid.get('geometry_sectors', 32), m.hybrid.get('geometry_heads', 64)
            cyl = gs * gh * 512
            pad_ok = len(img) >= vol * 2048 and len(img) % cyl == 0 and len(img) - vol * 2048 < cyl
            if not pad_ok and not (m.hybrid.get('efi') or m.hybrid.get('mac')):
                failures.append((prefix + '/image-length/hybrid-padding', 'image-length',
                                 'hybrid image has %d bytes for %d declared sectors and cylinder size %d' % (len(img), vol, cyl)))
    ivs = intervals(info, uinfo)
    # a boot file whose names were all unlinked is still referenced by its El Torito entry
    el = info.get('eltorito') or {}
    if m.boot is not None and 'initial' in el:
        got = [el['initial']] + [e for sct in el.get('sections', []) for e in sct['entries']]
        for g, w in zip(got, m.boot['entries']):
            b = m.blobs.get(w['blob'])
            if b is not None and b.length and not any(ns in ('iso', 'jol') for ns, _ in b.names):
                ivs.append((g['rba'], (b.length + 2047) // 2048, 'udf-data' if b.names else 'boot-image', 'eltorito-entry@%d' % g['offset']))
    for first, n, kind, owner in ivs:
        if vol and first + n > vol and kind != 'system-area':
            failures.append(((prefix + '/out-of-bounds/%s') % kind, 'out-of-bounds', '%s %r occupies sectors [%d,%d) beyond the declared volume size %d' % (kind, _o(owner), first, first + n, vol)))
    # ---- (a) overlap
    ivs_s = sorted(ivs, key=lambda t: (t[0], t[1]))
    maxend, maxiv = -1, None
    for iv in ivs_s:
        first, n, kind, owner = iv
        if first < maxend and maxiv is not None:
            k2 = maxiv[2]
            same_range = (maxiv[0], maxiv[1]) == (first, n)
            benign = same_range and {kind, k2} <= {'file', 'udf-data'}          # one blob seen through ISO/Joliet and through UDF
            benign = benign or (same_range and kind == k2 == 'udf-data')          # UDF hard links
            benign = benign or (same_range and {kind, k2} == {'boot-catalog', 'udf-data'})
            benign = benign or (same_range and kind == k2 == 'boot-image')        # two entries booting one unnamed image
            if not benign:
                failures.append(((prefix + '/overlap/%s+%s') % tuple(sorted((kind, k2))), 'overlap',
                                 '%s %r at [%d,%d) overlaps %s %r at [%d,%d)' % (kind, _o(owner), first, first + n, k2, _o(maxiv[3]), maxiv[0], maxiv[0] + maxiv[1])))
        if first + n > maxend:
            maxend, maxiv = first + n, iv
    # ---- (c) shared iff linked
    loc = {}
    trees = info.get('trees', {})
    for ns, tname in (('iso', 'iso'), ('jol', 'joliet')):
        t = trees.get(tname) or {}
        for p, e in t.items():
            if e['type'] == 'file':
                loc[(ns, p)] = e.get('extents', [(e['extent'], e['length'])])[0][0]
    if uinfo:
        for p, e in uinfo.get('tree', {}).items():
            if e['type'] == 'file' and e.get('extents'):
                loc[('udf', p)] = e['extents'][0][0]
    blob_extent = {}
    for b in m.blobs.values():
        if b.length == 0 or b.catalog:
            continue
        exts = set()
        for ns, p in b.names:
            if (ns, p) in loc:
                exts.add(loc[(ns, p)])
        if len(exts) > 1:
            failures.append((prefix + '/linked-names-different-extents', 'shared-iff-linked',
                             'names %r are links of one content but point at different sectors %r' % (sorted(b.names)[:4], sorted(exts))))
        for x in exts:
            if x in blob_extent and blob_extent[x] != b.id:
                failures.append((prefix + '/distinct-contents-share-extent', 'shared-iff-linked',
                                 'sector %d holds the data of two different contents (blob %d and blob %d)' % (x, blob_extent[x], b.id)))
            blob_extent[x] = b.id
    return failures, loc, uinfo, ivs, vol, hybrid


def oracle(program, track):
    shim.install('UTC')
    failures = []
    shim.set_tick(len(program['ops']) % 2 == 1)      # a moving clock in half of the cases (nothing here compares bytes across runs)
    run = Run(program)
    run.run_all()
    run.stats = {'c01_domain': 0}
    if run.dead or run.problems:
        run.stats['c01_domain'] += 1
        run.close()
        return run, failures
    rec = RecordingFile()
    img = run.write(rec)
    if img is None:
        run.stats['c01_domain'] += 1
        run.close()
        return run, failures
    m = run.model
    info = iso9660.read_iso(img)
    run.info = info
    fs, loc, uinfo, ivs, vol, hybrid = allocation_failures(m, img, info)
    failures.extend(fs)
    # ---- (d) write log
    seen = {}
    log = sorted(rec.log)
    prev_end, prev = -1, None
    dbl = 0
    bit_patch_ok = {}
    for b in m.blobs.values():
        if b.bit:
            for ns, p in b.names:
                if (ns, p) in loc:
                    bit_patch_ok[loc[(ns, p)] * 2048 + 8] = 56
    el = info.get('eltorito') or {}
    for ent in [el.get('initial')] + [e for s in el.get('sections', []) for e in s['entries']]:
        if ent:
            bit_patch_ok.setdefault(ent['rba'] * 2048 + 8, 56)
    for off, ln in log:
        if ln == 0:
            continue
        if off < prev_end:
            allowed = (bit_patch_ok.get(off) == ln) or (prev is not None and bit_patch_ok.get(prev[0]) == prev[1]) or (ln == 1 and off + 1 == len(img))
            allowed = allowed or (prev is not None and prev[1] == 1 and prev[0] + 1 == len(img))
            # Interpretation: the backup GPT of an EFI hybrid is written into the cylinder padding after the
            # padding zeros (outside the ISO9660 volume; the library's own detector exempts it the same way)
            allowed = allowed or (hybrid and vol and off >= vol * 2048)
            if not allowed:
                dbl += 1
                kind = iso9660.kind_of_sector(img, off // 2048) or 'unknown'
                failures.append(('C04/byte-written-twice/%s' % kind, 'double-write',
                                 'mastering wrote bytes [%d,%d) and again [%d,%d) (sector %d, %s)' % (prev[0], prev[0] + prev[1], off, off + ln, off // 2048, kind)))
                if dbl > 3:
                    break
        if off + ln > prev_end:
            prev_end, prev = off + ln, (off, ln)
    # ---- (f) exact size / holes
    if vol:
        owned = bytearray(vol + 1)
        for first, n, kind, owner in ivs:
            for s in range(max(first, 0), min(first + n, vol)):
                owned[s] = 1
        # structural reserves
        term = info.get('terminator_sector')
        if term is not None and term + 1 < vol:
            owned[term + 1] = 1                      # "version" descriptor sector pycdlib always writes
        if m.has['udf']:
            for s in range(16, min(257, vol)):
                owned[s] = 1
        for d in info.get('pvds', [])[:1] + [s for s in info.get('svds', []) if s.get('kind') == 'joliet']:
            reserve = max(2, ((d['pt_size'] + 4095) // 4096) * 2)
            for base in (d['pt_l'], d['pt_m']):
                for s in range(base, min(base + reserve, vol)):
                    owned[s] = 1
        last = max([first + n for first, n, k, o in ivs if k != 'system-area'] + [0])
        if uinfo is None and last < vol:
            failures.append(('C04/tail-slack', 'exact-size', 'declared volume size %d sectors, last allocated object ends at sector %d: %d unused tail sectors' % (vol, last, vol - last)))
        elif uinfo is not None and last < vol:
            failures.append(('C04/tail-slack/udf', 'exact-size', 'declared volume size %d sectors, last allocated object ends at sector %d' % (vol, last)))
        holes = [s for s in range(16, min(last, vol)) if not owned[s]]
        if holes:
            failures.append(('C04/hole', 'exact-size', '%d sector(s) inside the volume belong to no object, first at %d (of %d)' % (len(holes), holes[0], vol)))
    # ---- (e) the library's own detector
    if track:
        os.environ['PYCDLIB_TRACK_WRITES'] = '1'
        try:
            r2 = Run(program)
            r2.run_all()
            if not r2.dead:
                try:
                    r2.iso.write_fp(io.BytesIO())
                except Exception as e:  # noqa
                    failures.append(('C04/track-writes/' + exc_signature(e), 'library-detector', 'with PYCDLIB_TRACK_WRITES=1 write_fp raised %s: %s' % (type(e).__name__, e)))
            r2.close()
        finally:
            del os.environ['PYCDLIB_TRACK_WRITES']
        run.stats['track_writes_passes'] = 1
    run.close()
    return run, failures


def _o(owner):
    s = str(owner)
    return s if len(s) < 70 else s[:50] + '...'


def nontrivial(run, cl):
    return bool(cl & {'removal', 'hard-link', 'reopen'}) and not run.stats.get('c01_domain')


PROP = EngineProperty(ID, oracle, nontrivial)
_shard = PROP.shard_fn(strategy, CASES)
_replay = PROP.replay

# sizes of the one very large file: more than one UDF allocation descriptor (0x3ffff800 bytes each), exact multiples of a
# descriptor, and more than one ISO9660 extent (0xfffff800 bytes each)
BIG_SIZES = [0x3ffff800 + 1, 2 * 0x3ffff800, 0x3ffff800 + 5000, 0xfffff800 + 2049, 3 * 0x3ffff800 - 2048, 0x3ffff800 + 2048]


def big_case(k, col):
    """One file of more than 1 GiB between two small ones on a UDF bridge image, mastered into a sparse file: the ISO9660
    records, the Joliet records and the UDF allocation descriptors of each file must describe the same sectors, in order,
    those sectors hold the file's bytes, and distinct files share none."""
    import io
    import pycdlib
    from vf.huge import PatternSource, SparseFile, pattern
    from vf.runner import exc_signature
    shim.install('UTC')
    size = BIG_SIZES[k % len(BIG_SIZES)]
    case = {'big': k, 'size': size}
    col.case(case, True, ['big-file', 'big-file-udf-descriptors-%d' % ((size + 0x3ffff7ff) // 0x3ffff800)])
    fid = 11 + k
    try:
        iso = pycdlib.PyCdlib()
        iso.new(interchange_level=3, joliet=3, udf='2.60')
        iso.add_fp(io.BytesIO(b'a' * 10), 10, '/A.;1', joliet_path='/a', udf_path='/a')
        iso.add_fp(PatternSource(fid, size), size, '/BIG.;1', joliet_path='/big', udf_path='/big')
        iso.add_fp(io.BytesIO(b'z' * 3000), 3000, '/Z.;1', joliet_path='/z', udf_path='/z')
        out = SparseFile()
        iso.write_fp(out, blocksize=1 << 20)
        iso.close()
    except Exception as e:  # noqa
        col.fail('C04/big/build/' + exc_signature(e), 'big', 'mastering an image with a %d-byte file raised %s: %s' % (size, type(e).__name__, e), case)
        return
    img = iso9660.Image(out)
    info = iso9660.read_iso(img)
    uinfo = iudf.read_udf(img)
    for c, msg in info['findings'] + (uinfo or {}).get('findings', []):
        if c in ('vd-sizes-agree', 'dir-bounds', 'unreadable', 'fe-info-length', 'fe-extent-cover', 'fe-blocks-recorded', 'partition-bounds'):
            col.fail('C04/big/%s' % c, 'big', msg[:300], case)

    def sectors(exts):
        out_ = []
        for a, n in exts:
            if a is None:
                return None
            out_.append((a, (n + 2047) // 2048))
        # merge adjacent runs so that different ways of cutting the same sectors compare equal
        merged = []
        for a, n in out_:
            if merged and merged[-1][0] + merged[-1][1] == a:
                merged[-1] = (merged[-1][0], merged[-1][1] + n)
            else:
                merged.append((a, n))
        return merged
    views = {}
    for name, ipath, jpath, upath, length in (('a', '/A.;1', '/a', '/a', 10), ('big', '/BIG.;1', '/big', '/big', size), ('z', '/Z.;1', '/z', '/z', 3000)):
        v = {}
        e = info['trees']['iso'].get(ipath)
        if e:
            v['iso'] = sectors(e['extents'])
        e = (info['trees'].get('joliet') or {}).get(jpath)
        if e:
            v['joliet'] = sectors(e['extents'])
        e = ((uinfo or {}).get('tree') or {}).get(upath)
        if e:
            v['udf'] = sectors(e['extents'])
        views[name] = v
        if len(v) != 3:
            col.fail('C04/big/name-missing/%s' % name, 'big', 'file %s is not in every namespace of the written image: %r' % (name, sorted(v)), case)
            continue
        if not (v['iso'] == v['joliet'] == v['udf']):
            which = 'udf' if v['iso'] == v['joliet'] else 'joliet'
            col.fail('C04/big/names-describe-different-sectors/%s/%s' % (name if name != 'big' else 'big-file', which), 'big',
                     'the names of one file (%d bytes) describe different sectors: ISO9660 %r, Joliet %r, UDF %r' % (length, (v['iso'] or [])[:4], (v['joliet'] or [])[:4], (v['udf'] or 'an extent outside the partition')[:4]), case)
        # the bytes at the start of every run of the large file
        if name == 'big' and v['udf']:
            off = 0
            for a, n in v['udf']:
                got = img.read(a * 2048, 16)
                if got != pattern(fid, off, 16, size):
                    col.fail('C04/big/udf-run-does-not-hold-the-file', 'big', 'the UDF run at sector %d should hold the file from byte %d on' % (a, off), case)
                    break
                off += n * 2048
    runs = []
    for name, v in views.items():
        for ns, rr_ in v.items():
            for a, n in rr_ or []:
                runs.append((a, a + n, name, ns))
    runs.sort()
    for i in range(1, len(runs)):
        for j in range(i):
            if runs[j][1] > runs[i][0] and runs[j][2] != runs[i][2]:
                col.fail('C04/big/overlap/%s+%s' % tuple(sorted((runs[j][2], runs[i][2]))), 'big',
                         'sectors [%d,%d) of %s (%s) overlap [%d,%d) of %s (%s)' % (runs[j][0], runs[j][1], runs[j][2], runs[j][3], runs[i][0], runs[i][1], runs[i][2], runs[i][3]), case)
                return


def shard(seed, tier, shard_no, nshards):
    from vf.runner import Collector
    from vf.campaign import drive
    col = Collector()
    drive(strategy(tier), CASES[tier], seed * 64 + shard_no, lambda case: PROP.run_case(case, col))
    if (tier == 'quick' and shard_no < 2) or (tier == 'thorough' and shard_no < 12):
        big_case(seed * 2 + shard_no, col)
    return col.result()


def replay(case, col):
    if isinstance(case, dict) and 'big' in case:
        return big_case(case['big'], col)
    return _replay(case, col)
shrink = PROP.shrink
