"""C07 Hard-link semantics: content lives exactly as long as its last name.

G: links profile: add_fp (0..70000 bytes incl. several empty files), add_hard_link in every
   (old namespace, new namespace) pair incl. the boot catalog, rm_hard_link, rm_file through each
   namespace, add/rm_eltorito on linked files, reopen at drawn points.
O: after *every* applied edit the image is mastered and decoded independently: the set of file
   names per namespace == the model's (rm_hard_link removed exactly one name; rm_file removed the
   names of that content and nothing else - for empty files any subset containing the addressed
   name, as documented); all names of one content point at the same sectors which hold its bytes,
   distinct contents have distinct sectors; a content with remaining references (names or El Torito
   entries) is still stored; when the last reference goes its sectors are gone: no unused tail
   sector, no unowned sector (space released exactly then).
"""
from hypothesis import strategies as st

from vf import shim, gen
from vf.engine import Run
from vf.indep import iso9660
from vf.model import content
from vf.propbase import EngineProperty
from vf.runner import exc_signature
from vf.props.c04 import allocation_failures

ID = 'C07'
LEVEL = 'exploration'
RULE = ('programs from the links profile (plus mixed) with reopen ops; the oracle runs after every applied edit (one mastering + independent decode per step). '
        'Non-trivial = some content reaches >= 3 names in >= 2 namespaces, or loses its last name, or two empty files coexist across a reopen, or a boot-referenced file is unlinked. '
        'Distinct = distinct canonical program JSON.')
ASSUMPTIONS = [
    'documented looseness: rm_file on a zero-byte file may leave its other names (the model accepts any subset that contains the addressed name)',
    'per-step mastering is assumed not to disturb the object (that is C06\'s claim and checked there)',
]
SHARDS = {'quick': 16, 'thorough': 16}
CASES = {'quick': 150, 'thorough': 4000}
STEP_KINDS = {'add_fp', 'add_link', 'rm_link', 'rm_file', 'add_boot', 'rm_boot', 'reopen', 'rm_sym', 'link_cat', 'add_sym'}


def strategy(tier):
    cfg = gen.cfg_st()
    progs = st.one_of(gen.links(reopen_ok=True), gen.links(reopen_ok=True), gen.links(reopen_ok=False), gen.mixed(True, cfg, 5, 20), gen.biglinks(), gen.biglinks(), gen.samename(), gen.samename(), gen.bootlinks(), gen.bootlinks(), gen.twoboots(), gen.linktwins(), gen.udflinks())
    return st.tuples(progs.map(lambda p: dict(p, profile='links')), st.none())


def check_step(run, i, failures, seen):
    m = run.model
    img = run.write()
    if img is None:
        return
    info = iso9660.read_iso(img)
    fs, loc, uinfo, ivs, vol, hybrid = allocation_failures(m, img, info, prefix='C07')
    kind = run.ops[i]['k']
    for sig, clause, msg in fs:
        sig = sig + '/after-' + kind
        if sig not in seen:
            seen.add(sig)
            failures.append((sig, clause, 'after step %d (%s): %s' % (i, kind, msg)))
    # names per namespace
    want = {ns: set(p for p, e in m.t[ns].items() if e['type'] in ('file', 'null', 'sym') and ns != 'udf' or (ns == 'udf' and e['type'] in ('file',))) for ns in ('iso', 'jol', 'udf') if m.has[ns]}
    got = {}
    for ns, tname in (('iso', 'iso'), ('jol', 'joliet')):
        t = info['trees'].get(tname)
        if t is not None and m.has[ns]:
            if ns == 'iso' and m.relocated_dirs():
                continue
            got[ns] = set(p for p, e in t.items() if e['type'] == 'file' and (e.get('susp') or {}).get('cl') is None)
    if uinfo and m.has['udf']:
        got['udf'] = set(p for p, e in uinfo.get('tree', {}).items() if e['type'] == 'file' and '\0dup' not in p)
    for ns in got:
        w = want[ns]
        if ns == 'iso':
            w = set(p for p, e in m.t['iso'].items() if e['type'] in ('file', 'null', 'sym'))
        for p in sorted(got[ns] - w)[:2]:
            sig = 'C07/names/%s/unexpected-name/after-%s' % (ns, kind)
            if sig not in seen:
                seen.add(sig)
                failures.append((sig, 'names', 'after step %d (%s): %s name %r is on the image but should be gone / never existed' % (i, kind, ns, p[:70])))
        for p in sorted(w - got[ns])[:2]:
            sig = 'C07/names/%s/name-lost/%s/after-%s' % (ns, m.role(ns, p), kind)
            if sig not in seen:
                seen.add(sig)
                failures.append((sig, 'names', 'after step %d (%s): %s name %r should exist but is not on the image' % (i, kind, ns, p[:70])))
    # content where the names point
    for b in m.blobs.values():
        if b.catalog or b.length == 0 or b.length > (1 << 20):
            continue
        exts = set(loc[n] for n in b.names if n in loc)
        data = None
        for x in exts:
            data = data or content(b.id, b.length, b.ckind)
            st_ = img[x * 2048:x * 2048 + b.length]
            if b.bit:
                st_, dd = st_[:8] + st_[64:], data[:8] + data[64:]
            else:
                dd = data
            if st_ != dd:
                sig = 'C07/content-at-extent-wrong/after-%s' % kind
                if sig not in seen:
                    seen.add(sig)
                    failures.append((sig, 'content', 'after step %d (%s): the sectors the names of blob %d point at do not hold its bytes' % (i, kind, b.id)))
    # the live object: every name of every content reads that content through the API (all path kinds, incl. the Rock Ridge
    # path, which has a lookup cache of its own), and names that are gone cannot be looked up any more
    if kind in ('rm_link', 'rm_file', 'add_link', 'link_cat', 'rm_catlink', 'rm_boot', 'reopen') and len(m.t['iso']) + len(m.t['jol']) + len(m.t['udf']) < 60:
        live_view(run, i, kind, failures, seen)
    # exact release of space
    if vol:
        last = max([first + n for first, n, k, o in ivs if k != 'system-area'] + [0])
        if last < vol:
            sig = 'C07/space-not-released/after-%s' % kind
            if sig not in seen:
                seen.add(sig)
                failures.append((sig, 'release', 'after step %d (%s): volume declares %d sectors, the last object ends at %d' % (i, kind, vol, last)))


def live_view(run, i, kind, failures, seen):
    from vf.engine import api_view, model_view, diff_views
    m = run.model
    try:
        relocs = bool(m.relocated_dirs())
        got = api_view(run.iso, m.has, bool(m.rr), 8192, physical_iso=not relocs,
                       logical_iso_paths=[p for p in m.t['iso'] if p != '/'] if relocs else None)
    except Exception as e:  # noqa
        sig = 'C07/live-view/raised/%s/after-%s' % (exc_signature(e), kind)
        if sig not in seen:
            seen.add(sig)
            failures.append((sig, 'names', 'after step %d (%s): listing / reading the live object raised %s: %s' % (i, kind, type(e).__name__, e)))
        return
    run.stats['live_views'] = run.stats.get('live_views', 0) + 1
    for ns, path, a, b in diff_views(got, model_view(m)):
        what = 'unexpected' if b is None else ('lost' if a is None else 'differs')
        sig = 'C07/live-view/%s/%s/%s/after-%s' % (ns, what, m.role(ns, path), kind)
        if sig not in seen:
            seen.add(sig)
            failures.append((sig, 'names', 'after step %d (%s): live object, namespace %s path %r: API shows %r, the edits imply %r' % (i, kind, ns, (path or '')[:70], a, b)))


def oracle(program, aux):
    shim.install('UTC')
    failures = []
    seen = set()
    shim.set_tick(len(program['ops']) % 2 == 1)      # a moving clock in half of the cases (nothing here compares bytes across runs)
    run = Run(program)
    run.stats = {'steps_checked': 0, 'c01_domain': 0}

    def on_step(r, i):
        if r.ops[i]['k'] in STEP_KINDS and (i in r.applied or r.ops[i]['k'] == 'reopen') and not r.dead:
            run.stats['steps_checked'] += 1
            check_step(r, i, failures, seen)
    run.run_all(on_step)
    for pr in run.problems:
        if pr.sig.startswith(('zero-length', 'rm_file')):
            failures.append(('C07/' + pr.sig, pr.clause, 'step %d: %s' % (pr.step, pr.msg)))
        else:
            run.stats['c01_domain'] += 1
    run.close()
    return run, failures


def extra_classes(run):
    cl = set()
    m = run.model
    if m.generation > 0 and sum(1 for b in m.blobs.values() if b.length == 0 and b.names) >= 2:
        cl.add('two-empty-files-across-reopen')
    return cl


def nontrivial(run, cl):
    return bool(cl & {'blob-3-names-2-ns', 'last-name-removed', 'two-empty-files-across-reopen', 'hidden-boot-file'}) and run.stats.get('steps_checked', 0) > 0


PROP = EngineProperty(ID, oracle, nontrivial, extra_classes)
shard = PROP.shard_fn(strategy, CASES)
replay = PROP.replay
shrink = PROP.shrink
