"""C05 Re-mastering is a fixpoint: open then write reproduces the image.

G: images produced by programs from all profiles/configs (incl. El Torito with sections,
   isohybrid, UDF, XA, duplicate PVD, relocation, multi-sector continuation areas).
O: B1 = write(open(B0)), B2 = write(open(B1)): mask(B1) == mask(B0) and B2 == B1, where mask
   zeroes the 17-byte volume modification date of every PVD/SVD (offset 830 of a type 1/2
   descriptor).
"""
import struct

from hypothesis import strategies as st

from vf import shim, gen
from vf.engine import Run, open_image
from vf.propbase import EngineProperty
from vf.runner import exc_signature

ID = 'C05'
LEVEL = 'exploration'
RULE = ('images = final write of a generated program (all profiles, with and without reopen generations); each is opened and written twice more. '
        'Non-trivial = the image carries >= 2 of {Rock Ridge continuation area, Joliet, UDF, El Torito, isohybrid, XA, > 1 PVD, relocation, symlink, hidden flag}. '
        'Distinct = distinct canonical program JSON.')
ASSUMPTIONS = [
    'time.time/uuid4/random are pinned by the harness so that legitimately time-dependent fields do not differ; the volume modification date fields are masked as the statement allows',
    'images that the library cannot open again are C01/C02 findings and only counted here',
]
SHARDS = {'quick': 16, 'thorough': 16}
CASES = {'quick': 170, 'thorough': 5000}
FEATURES = {'long-rr-name', 'eltorito', 'isohybrid', 'duplicate-pvd', 'relocation', 'symlink', 'hidden-flag', 'cfg:xa',
            'cfg:udf=True', 'cfg:joliet=1', 'cfg:joliet=2', 'cfg:joliet=3'}


def strategy(tier):
    w = {'mixed': 4, 'growshrink': 2, 'deep': 2, 'links': 3, 'boot': 4, 'exactfill': 2, 'cegap': 1, 'bootlinks': 3, 'ptedge': 1, 'fullcat': 1}
    return st.tuples(gen.any_profile(reopen_ok=True, weights=w), st.none())


def mask(img):
    b = bytearray(img)
    sec = 16
    while (sec + 1) * 2048 <= len(b):
        d = b[sec * 2048:(sec + 1) * 2048]
        if d[1:6] != b'CD001':
            break
        if d[0] in (1, 2):
            b[sec * 2048 + 830:sec * 2048 + 847] = b'\0' * 17
        if d[0] == 255:
            break
        sec += 1
    return bytes(b)


def region(img, off):
    """Coarse, stable description of where an offset lies (refined by the independent reader's
    allocation map when available)."""
    sec = off // 2048
    if sec < 16:
        return 'system-area'
    d = img[sec * 2048:(sec + 1) * 2048]
    if d[1:6] == b'CD001':
        return 'volume-descriptor-type-%d' % d[0]
    try:
        from vf.indep import iso9660
        kind = iso9660.kind_of_sector(img, sec)
        if kind:
            return kind
    except Exception:
        pass
    if d[1:6] in (b'BEA01', b'NSR02', b'NSR03', b'TEA01'):
        return 'udf-vrs'
    tag, = struct.unpack_from('<H', d, 0)
    if tag in (1, 2, 3, 4, 5, 6, 7, 8, 9, 256, 257, 261, 266) and d[5] == 0 and sum(d[:4] + d[5:16]) % 256 == d[4]:
        return 'udf-tag-%d' % tag
    return 'other-sector'


def first_diff(a, b):
    n = min(len(a), len(b))
    if a[:n] == b[:n]:
        return n if len(a) != len(b) else None
    lo, hi = 0, n
    # bisect on prefix equality
    while hi - lo > 1:
        mid = (lo + hi) // 2
        if a[:mid] == b[:mid]:
            lo = mid
        else:
            hi = mid
    return lo


def oracle(program, aux):
    shim.install('UTC')
    failures = []
    run = Run(program)
    run.run_all()
    run.stats = {'c01_c02_domain': 0}
    if run.dead or run.problems:
        run.stats['c01_c02_domain'] += 1
        run.close()
        return run, failures
    shim.reset(900001)
    b0 = run.write()
    run.close()
    if b0 is None:
        run.stats['c01_c02_domain'] += 1
        return run, failures
    imgs = [b0]
    for gen_no in (1, 2):
        iso = open_image(imgs[-1])
        if isinstance(iso, Exception):
            if gen_no == 1:
                # the image the library has just mastered cannot be opened by it: no re-mastering at all (C01 reports the same
                # under its own clause)
                failures.append(('C05/open-of-mastered-image/' + exc_signature(iso), 'remastered-unreadable',
                                 'the image just mastered cannot be opened, so it cannot be re-mastered: %s: %s' % (type(iso).__name__, iso)))
            else:
                failures.append(('C05/reopen-of-remastered/' + exc_signature(iso), 'remastered-unreadable',
                                 'the re-mastered image cannot be opened: %s: %s' % (type(iso).__name__, iso)))
            return run, failures
        import io
        out = io.BytesIO()
        try:
            shim.reset(900001)
            iso.write_fp(out)
        except Exception as e:  # noqa
            failures.append(('C05/rewrite/' + exc_signature(e), 'rewrite-raised', 'write_fp of an opened, unedited image raised %s: %s' % (type(e).__name__, e)))
            return run, failures
        finally:
            try:
                iso.close()
            except Exception:
                pass
        imgs.append(out.getvalue())
    b0, b1, b2 = imgs
    for name, x, y in (('first', mask(b0), mask(b1)), ('second', b1, b2)):
        off = first_diff(x, y)
        if off is not None:
            reg = region(x if off < len(x) else y, min(off, max(len(x), len(y)) - 1))
            lenchg = 'same-length' if len(x) == len(y) else ('grew' if len(y) > len(x) else 'shrank')
            failures.append(('C05/%s-remaster-differs/%s/%s' % (name, reg, lenchg), 'not-a-fixpoint',
                             '%s re-mastering differs at byte %d (sector %d offset %d, %s); lengths %d -> %d; %r != %r'
                             % (name, off, off // 2048, off % 2048, reg, len(x), len(y), x[off:off + 16].hex(), y[off:off + 16].hex())))
            break
    return run, failures


def nontrivial(run, cl):
    return len(cl & FEATURES) >= 2 and not run.stats.get('c01_c02_domain')


PROP = EngineProperty(ID, oracle, nontrivial)
shard = PROP.shard_fn(strategy, CASES)
replay = PROP.replay
shrink = PROP.shrink
