"""C14 Failure atomicity: a refused edit changes nothing.

G: (prefix H, refused call R, suffix S): R is drawn from the refusal catalogue (vf/model.py
   BadCatalogue: every way a public mutator can be refused that reading the source shows, incl.
   refusals that happen only after an earlier namespace of the same call was processed), placed at
   a drawn point of a generated history.
O: twin execution: object A runs H, R (must raise), S; object A' runs H, S.  write(A) == write(A')
   byte for byte under the pinned clock, neither write raises, the later edits S are accepted
   or refused identically; and the image written immediately after R equals the image written
   immediately before R.
"""
from hypothesis import strategies as st

from vf import shim, gen
from vf.engine import Run
from vf.model import N_BAD_ROWS, BadCatalogue, Model
from vf.propbase import EngineProperty
from vf.props.c05 import first_diff, region

ID = 'C14'
LEVEL = 'fault_enumeration'
ROW_NAMES = [r[0] for r in BadCatalogue(Model({'level': 1})).rows() + BadCatalogue(Model({'level': 1})).rows_late() + BadCatalogue(Model({'level': 1})).rows_more()]
RULE = ('cases = generated history with 1-3 refused calls inserted at drawn points; the refused calls enumerate the %d rows of the refusal catalogue '
        '(mutator x cause x stage, see DESIGN.md appendix A). Each case is executed twice (with and without the refused calls) and the images are compared. '
        'Non-trivial = at least one inserted call was actually refused by the library in a "staged" row (after an earlier namespace / side-effecting helper of the same call ran) '
        'or after >= 3 applied edits. Distinct = distinct canonical program JSON. Evidence lists hits per catalogue row.' % N_BAD_ROWS)
ASSUMPTIONS = [
    'a catalogue call the library accepts instead of refusing is C13\'s business: the case is abandoned and counted',
    'time/uuid/random pinned per op serial so that a refused call cannot shift later draws',
    'modify_file_in_place refusals are covered by C17',
]
SHARDS = {'quick': 16, 'thorough': 16}
CASES = {'quick': 600, 'thorough': 8000}


def strategy(tier):
    base = gen.any_profile(reopen_ok=True, weights={'mixed': 5, 'growshrink': 1, 'deep': 4, 'links': 4, 'boot': 4, 'hybrid': 1, 'reloctwins': 2, 'samename': 1, 'bootlinks': 1})

    def weave(p, bads):
        ops = list(p['ops'])
        out = list(ops)
        for k, (pos, b) in enumerate(sorted(bads, key=lambda t: t[0])):
            idx = min(len(out), (pos * (len(ops) + 1)) // 1000 + k)
            out.insert(idx, dict(b, n=200000 + k))
        return dict(p, ops=out)
    # a third of the refused calls name their catalogue row outright (uniform over all rows; the w / wx / wy selectors give the
    # three parts of the catalogue fixed shares, so rows of a long part are drawn rarely)
    named = st.builds(lambda b, r: dict(b, row=r), gen.bad, st.sampled_from(ROW_NAMES))
    woven = st.builds(weave, base, st.lists(st.tuples(st.integers(0, 999), st.one_of(gen.bad, gen.bad, named)), min_size=1, max_size=3))
    # scenario profiles bring the refused call (and the history it needs) with them
    scen = gen.relocname(reopen_ok=False).map(lambda p: dict(p, profile='relocname'))
    return st.tuples(gen.weighted([(woven, 14), (scen, 1)]), st.none())


def oracle(program, aux):
    shim.install('UTC')
    failures = []
    a = Run(program)
    a.stats = {'bad_refused': 0, 'bad_accepted': 0, 'bad_skipped': 0, 'c01_domain': 0}
    a.rows_hit = {}
    snapshots = {}

    def on_step(r, i):
        pass
    # run A step by step so that the image right before / right after a refused call can be compared
    for i in range(len(a.ops)):
        if a.dead:
            break
        isbad = a.ops[i]['k'] == 'bad'
        before = None
        if isbad and not a.problems:
            before = a.write(probe=True)
            if before is None and (a.dead or a.problems):
                break
        res = a.step(i)
        if isbad and res == 'bad-refused' and before is not None:
            after = a.write(probe=True)
            row = a.bad_results[-1][1]
            if after is None and not (a.dead or a.problems):
                continue
            if after is None:
                pr = a.problems[-1]
                failures.append(('C14/write-fails-after-refusal/%s/%s' % (row, pr.sig.split('/')[-1]), 'write-after-refusal',
                                 'write_fp right after the refused call %s raised: %s' % (row, pr.msg[:300])))
                break
            off = first_diff(before, after)
            if off is not None:
                reg = region(after if off < len(after) else before, min(off, max(len(before), len(after)) - 1))
                failures.append(('C14/state-changed/%s/%s' % (row, reg), 'state-changed',
                                 'the image written right after the refused call %s (%s) differs from the one written right before it at byte %d (sector %d, %s); lengths %d -> %d'
                                 % (row, a.bad_results[-1][4], off, off // 2048, reg, len(before), len(after))))
    for br in getattr(a, 'bad_results', []):
        a.rows_hit[br[1] + ' -> ' + br[3]] = a.rows_hit.get(br[1] + ' -> ' + br[3], 0) + 1
        if br[3] == 'accepted':
            a.stats['bad_accepted'] += 1
        else:
            a.stats['bad_refused'] += 1
    a.stats['bad_skipped'] = sum(1 for i, _ in a.skipped if a.ops[i]['k'] == 'bad')
    if a.stats['bad_accepted']:
        if getattr(a, 'bad_unwritable', None):
            row, where_, msg = a.bad_unwritable
            failures = [('C14/accepted-but-unwritable/%s/%s' % (row, where_), 'write-after-refusal',
                         'the call %s was not refused, and the object can no longer be written: %s' % (row, msg))]
            a.close()
            return a, failures
        a.close()
        return a, []
    a.staged_hit = any(br[2] for br in getattr(a, 'bad_results', []) if br[3] != 'accepted')
    a.late_hit = any(sum(1 for j in a.applied if j < br[0]) >= 3 for br in getattr(a, 'bad_results', []))
    # twin
    twin_prog = dict(program, ops=[o for o in program['ops'] if o['k'] != 'bad'])
    b = Run(twin_prog)
    b.run_all()
    if b.dead or b.problems:
        a.stats['c01_domain'] += 1
        a.close()
        b.close()
        return a, failures
    rows = sorted(set(br[1] for br in getattr(a, 'bad_results', [])))
    rowtag = rows[0] if len(rows) == 1 else 'several'
    for pr in a.problems:
        failures.append(('C14/later-edit-fails/%s/%s' % (rowtag, pr.sig), 'later-edits', 'after the refused call(s) %s: step %d: %s (the same history without the refused call runs cleanly)' % (rows, pr.step, pr.msg[:300])))
    if not a.dead and not a.problems:
        ia, ib = a.write(), b.write()
        if ia is None and ib is None:
            a.stats['c01_domain'] += 1          # the history cannot be mastered with or without the refused call: not an atomicity matter
        elif ia is None:
            pr = a.problems[-1]
            failures.append(('C14/final-write-fails/%s/%s' % (rowtag, pr.sig.split('/')[-1]), 'write-after-refusal', 'final write_fp raised after refused call(s) %s: %s' % (rows, pr.msg[:300])))
        elif ib is not None:
            ra = [(i, m_) for i, m_ in a.refused]
            nb = len(b.refused)
            if len(ra) != nb:
                failures.append(('C14/later-edit-refused-differently/%s' % rowtag, 'later-edits',
                                 'with the refused call(s) %s %d later edits were refused, without them %d' % (rows, len(ra), nb)))
            off = first_diff(ia, ib)
            if off is not None:
                reg = region(ia if off < len(ia) else ib, min(off, max(len(ia), len(ib)) - 1))
                failures.append(('C14/final-image-differs/%s/%s' % (rowtag, reg), 'state-changed',
                                 'final image differs from the twin run without the refused call(s) %s at byte %d (sector %d, %s); lengths %d vs %d' % (rows, off, off // 2048, reg, len(ia), len(ib))))
    if not failures and not b.dead and not b.problems and b.refused:
        # calls of the history itself that the library refused (the model holds them valid: over-refusals) are raising
        # calls like any other: a third run without them must behave and master the same
        failures += over_refusal_twin(twin_prog, b, a)
    if not failures and not a.dead and not b.dead and not a.problems and not b.problems:
        # teardown: give everything back (El Torito, every file, every symlink, every directory bottom-up) in both
        # runs and compare again - counters, link counts and reservations that a refused call left behind only
        # show when what they belong to is released
        tear = teardown_ops(len(a.applied))
        na, nb_ = len(a.ops), len(b.ops)
        a.ops = a.ops + tear
        b.ops = b.ops + tear
        for run, n0 in ((a, na), (b, nb_)):
            for i in range(n0, len(run.ops)):
                if run.dead:
                    break
                run.step(i)
        if b.dead or b.problems:
            a.stats['c01_domain'] += 1
        else:
            a.stats['teardowns'] = a.stats.get('teardowns', 0) + 1
            for pr in a.problems:
                failures.append(('C14/teardown-fails/%s/%s' % (rowtag, pr.sig), 'later-edits', 'after the refused call(s) %s, while removing everything again: %s (the same history without the refused call runs cleanly)' % (rows, pr.msg[:300])))
            if not a.dead and not a.problems:
                ia, ib = a.write(), b.write()
                if ia is None and ib is not None:
                    pr = a.problems[-1]
                    failures.append(('C14/teardown-write-fails/%s/%s' % (rowtag, pr.sig.split('/')[-1]), 'write-after-refusal', 'write_fp after removing everything raised after refused call(s) %s: %s' % (rows, pr.msg[:300])))
                elif ia is not None and ib is not None:
                    off = first_diff(ia, ib)
                    if off is not None:
                        reg = region(ia if off < len(ia) else ib, min(off, max(len(ia), len(ib)) - 1))
                        failures.append(('C14/teardown-image-differs/%s/%s' % (rowtag, reg), 'state-changed',
                                         'after removing everything again the image differs from the twin run without the refused call(s) %s at byte %d (sector %d, %s); lengths %d vs %d' % (rows, off, off // 2048, reg, len(ia), len(ib))))
    a.close()
    b.close()
    return a, failures


def over_refusal_twin(prog, b, a):
    """The first call of the history that the library refused is taken out; everything else - the images and which of the
    later calls are refused - has to stay the same."""
    out = []
    if any(m_.startswith('write_fp:') for _, m_ in b.refused):
        return out          # a hybridization dropped at mastering time: the histories are not comparable
    gone = sorted(i for i, m_ in b.refused if not m_.startswith('query:'))
    if not gone:
        return out
    first = gone[0]
    kind = b.ops[first]['k']
    why = [m_ for i, m_ in b.refused if i == first][0][:100]
    c = Run(dict(prog, ops=[(dict(o, nocall=1) if i == first else o) for i, o in enumerate(prog['ops'])]))
    c.run_all()
    a.stats['over_refusal_twins'] = a.stats.get('over_refusal_twins', 0) + 1
    if c.dead or c.problems:
        a.stats['c01_domain'] += 1
        c.close()
        return out
    later_b = sorted(b.ops[i].get('n') for i in gone[1:])
    later_c = sorted(c.ops[i].get('n') for i, m_ in c.refused if not m_.startswith(('query:', 'nocall:')))
    if later_b != later_c:
        only_b = [n for n in later_b if n not in later_c]
        only_c = [n for n in later_c if n not in later_b]
        ex = [o['k'] for o in prog['ops'] if o.get('n') in (only_b + only_c)[:3]]
        out.append(('C14/over-refusal/later-edit-refused-differently/%s/%s' % (kind, ex[0] if ex else '?'), 'later-edits',
                    'the library refused the %s call at step %d (%s); of the later calls %d are refused only after that refusal and %d only without it (%s)'
                    % (kind, first, why, len(only_b), len(only_c), ', '.join(ex))))
        c.close()
        return out
    ib, ic = b.write(), c.write()
    if ib is None and ic is not None:
        pr = b.problems[-1]
        out.append(('C14/over-refusal/final-write-fails/%s/%s' % (kind, pr.sig.split('/')[-1]), 'write-after-refusal',
                    'the library refused the %s call at step %d (%s); the final write_fp then raised: %s (the same history without that call is written cleanly)'
                    % (kind, first, why, pr.msg[:300])))
    elif ib is not None and ic is not None:
        off = first_diff(ib, ic)
        if off is not None:
            reg = region(ib if off < len(ib) else ic, min(off, max(len(ib), len(ic)) - 1))
            out.append(('C14/over-refusal/final-image-differs/%s/%s' % (kind, reg), 'state-changed',
                        'the library refused the %s call at step %d (%s); the final image differs from the one of the same history without that call at byte %d (sector %d, %s); lengths %d vs %d'
                        % (kind, first, why, off, off // 2048, reg, len(ib), len(ic))))
    c.close()
    return out


def teardown_ops(n_applied):
    k = min(60, n_applied + 2)
    ops = [{'k': 'rm_hybrid'}, {'k': 'rm_boot'}]
    ops += [{'k': 'rm_file', 'b': 0, 'j': 0}] * k
    ops += [{'k': 'rm_sym', 'i': 0}] * k
    ops += [{'k': 'rm_dir', 'd': 0, 'ns': 7}] * k
    return [dict(o, n=300000 + i) for i, o in enumerate(ops)]


def extra_classes(run):
    cl = set()
    for k in getattr(run, 'rows_hit', {}):
        cl.add('row:' + k)
    if getattr(run, 'staged_hit', False):
        cl.add('staged-refusal')
    if getattr(run, 'late_hit', False):
        cl.add('refusal-after->=3-edits')
    return cl


def nontrivial(run, cl):
    return bool(cl & {'staged-refusal', 'refusal-after->=3-edits'}) and not run.stats.get('bad_accepted')


PROP = EngineProperty(ID, oracle, nontrivial, extra_classes, confirm_refusals=False)
shard = PROP.shard_fn(strategy, CASES)
replay = PROP.replay
shrink = PROP.shrink
