"""C20 Tools round trip: pycdlib-genisoimage -> pycdlib-extract-files.

Statement (fixed): "Building an image from a directory tree with pycdlib-genisoimage and
extracting it with pycdlib-extract-files reproduces the tree for each long-name view that
was requested (Rock Ridge, Joliet, UDF): same relative paths, same file contents, same
symbolic links, and in the plain ISO9660 view every source file appears exactly once under
a legal, distinct identifier.  The extension and level options produce images with exactly
those extensions, and duplicate-content linking never changes what any path reads."

G: a case is DATA {tree: [entry...], options: {...}}.  Trees of 1-25 entries, depth 0-9,
   names from pools built to collide after ISO9660 mangling (case pairs, shared long
   prefixes, character substitution), > 8.3, > 31, = 64, > 64 UTF-16 units, Unicode (BMP
   and astral), leading/several/trailing dots, spaces; empty files and directories,
   identical / nearly identical / murmur3-colliding contents, symlinks (relative,
   absolute, dangling, long).  Options: -iso-level 1..4 x {-R,-r,none} x -J x -udf x
   -scan-for-duplicates x El Torito (-b -c -no-emul-boot [-boot-load-size] [-boot-info-table])
   x -hide/-hide-joliet/-hide-udf/-hidden/-m/-x patterns x -V.
O: the two tools run as subprocesses of /venv/bin/python with PYTHONPATH=<REPO>.  Both must
   exit 0.  For each requested view the extracted tree is compared with a model of the
   source tree (minus excluded / hidden entries).  The ISO9660 view and the "exactly those
   extensions" clause are read from the image bytes with struct only (own directory walker,
   volume-descriptor / SUSP / VRS sniffers); identifier legality comes from vf.legal.
"""
import collections
import hashlib
import os
import re
import shutil
import struct
import subprocess
import tempfile

from hypothesis import given, settings, seed as hseed, strategies as st, HealthCheck, Phase

from vf import REPO, VERIF
from vf.runner import Collector, canon, case_hash
from vf.model import udf_norm

ID = 'C20'
LEVEL = 'exploration'
RULE = ('cases = {tree, options} drawn by Hypothesis: 1-25 entries (files, directories, symlinks), depth 0-9, names '
        'from pools that collide after ISO9660 mangling / exceed 8.3, 31, 64 units / contain BMP and astral Unicode, '
        'dots, spaces; contents unique, empty, identical, differing in the last byte only, or a murmur3-colliding pair; '
        'options = -iso-level 1..4 x {-R,-r,none} x -J x -udf x -scan-for-duplicates x El Torito options x '
        'hide/hidden/exclude patterns x -V.  Each case is materialised on disk and run through both tools as '
        'subprocesses.  Non-trivial = the tree has two siblings whose ISO9660-mangled names coincide, or a symlink, '
        'or a directory nested deeper than 7, or two files with identical contents.  Distinct = distinct canonical JSON '
        'of the case.')
ASSUMPTIONS = [
    'the host filesystem under /verif/.scratch stores names of up to 255 UTF-8 bytes and symlinks faithfully',
    'only options the man page documents as implemented are generated; options marked "(not supported by '
    'pycdlib-genisoimage)" (-l, -U, -allow-*, -joliet-long, -no-pad, -T, ...) are outside the property',
    'names no requested view can hold are not generated while that view is on (> 64 UTF-16 units with -J, > 255 bytes '
    'of OSTA CS0 with -udf); the avoided draws are counted in classes as avoided:*',
    'El Torito boot images are 2048-byte no-emulation images, so -b is always combined with -no-emul-boot and -c '
    '(floppy emulation needs a 1.2/1.44/2.88 MB image by the man page; -c is documented as required)',
    'Joliet cannot represent symbolic links: in the Joliet view a symlink may be absent or an empty regular file '
    '(measured, never failed)',
    'without Rock Ridge, directories nested deeper than 8 levels are documented as dropped at ISO levels 1-3 '
    '(tool prints "Directories too deep"); the model removes them there; at level 4 the man page says nesting is '
    'not limited',
    'a symlink whose name matches a -hide pattern, and the hidden flag of a symlink, are unspecified and tolerated '
    'either way',
    'with Rock Ridge and relocated (deeper than 8 levels) directories an empty rr_moved directory in the Rock Ridge view is '
    'documented ("impossible to completely hide") and tolerated; relocation placeholders (records carrying CL) are not files',
    'a file or symlink inside a level-8 directory without Rock Ridge (levels 1-3) is legal by ECMA-119 6.8.2.1 but refused by '
    'the library by design (tests/integration/test_new.py::test_new_toodeepfile): the tool may keep or drop it, not crash',
    'extract-files -path-type iso is exercised on a quarter of the cases against the own ISO9660 walker; a Rock Ridge symlink '
    'extracted as a symlink there, and relocation placeholders extracted or skipped, are tolerated',
    'shell wildcard semantics of -m/-x/-hide*/-hidden are those of fnmatch on the file name component; generated '
    'patterns contain no path separators and do not begin with "-" (argparse rejects such an argument with a usage error)',
    'patterns that would exclude or hide the El Torito boot image or a file named like the boot catalog are not generated',
    'level 2/3 file identifiers are held to name+extension <= 30 and directories to <= 31 characters, level 4 to '
    '<= 207 bytes (man page of the tool), in addition to vf.legal',
]
SHARDS = {'quick': 16, 'thorough': 16}
CASES = {'quick': 30, 'thorough': 420}
MIN_NONTRIVIAL = {'quick': 50, 'thorough': 500}

PY = '/venv/bin/python'
SCRATCH = os.path.join(VERIF, '.scratch', 'C20')
ROOTNAME = 'c20root'
VIEWS = ('rockridge', 'joliet', 'udf')
TIMEOUT = 300

# ----------------------------------------------------------------------------------------
# murmur3 (x86, 32 bit) - own arithmetic, used only to construct two different 8-byte
# contents with the same hash ("duplicate-content linking never changes what any path reads")

_M = 0xFFFFFFFF
_C1, _C2 = 0xcc9e2d51, 0x1b873593


def _rotl(x, r):
    return ((x << r) | (x >> (32 - r))) & _M


def _rotr(x, r):
    return ((x >> r) | (x << (32 - r))) & _M


def _mixk(k):
    return (_rotl((k * _C1) & _M, 15) * _C2) & _M


def _step(h, k):
    return (_rotl(h ^ _mixk(k), 13) * 5 + 0xe6546b64) & _M


def murmur3_32(data, seed=0):
    h = seed
    n = len(data) // 4
    for i in range(n):
        h = _step(h, struct.unpack_from('<L', data, i * 4)[0])
    tail = data[n * 4:]
    if tail:
        k = int.from_bytes(tail, 'little')
        h ^= _mixk(k)
    h ^= len(data)
    h ^= h >> 16
    h = (h * 0x85ebca6b) & _M
    h ^= h >> 13
    h = (h * 0xc2b2ae35) & _M
    h ^= h >> 16
    return h


def _colliding_pair():
    a = b'C20-AAAA'
    k1a, k2a = struct.unpack('<LL', a)
    target = _step(_step(0, k1a), k2a)
    k1b, = struct.unpack('<L', b'C20-')
    k1b ^= 0x01000000  # 'C20,' : differs from a's first block
    h1b = _step(0, k1b)
    x = _rotr(((target - 0xe6546b64) * pow(5, -1, 1 << 32)) & _M, 13) ^ h1b   # = mixk(k2b)
    k2b = (_rotr((x * pow(_C2, -1, 1 << 32)) & _M, 15) * pow(_C1, -1, 1 << 32)) & _M
    b = struct.pack('<LL', k1b, k2b)
    assert a != b and murmur3_32(a) == murmur3_32(b)
    return a, b


COLL_A, COLL_B = _colliding_pair()

# ----------------------------------------------------------------------------------------
# names


def units(name):
    return len(name.encode('utf-16_be')) // 2


def nbytes(name):
    return len(name.encode('utf-8'))


def udf_len(name):
    try:
        return 1 + len(name.encode('latin-1'))
    except UnicodeEncodeError:
        return 1 + 2 * units(name)


COLLIDE_GROUPS = [
    ['readme.txt', 'README.TXT', 'ReadMe.Txt'],
    ['a.txt', 'A.TXT'],
    ['ab', 'AB', 'Ab'],
    ['data', 'DATA', 'Data'],
    ['longfilename1.txt', 'longfilename2.txt', 'longfilename3.txt'],
    ['file-a.c', 'file_a.c', 'file+a.c'],
    ['averylongdirectoryname_one', 'averylongdirectoryname_two', 'averylongdirectoryname_six'],
    ['thisnameislongerthanthirtyonecharacters_A.dat', 'thisnameislongerthanthirtyonecharacters_B.dat'],
    ['Makefile', 'makefile', 'MAKEFILE'],
    ['index.html', 'index.htm', 'INDEX.HTM'],
    ['été.txt', 'ètè.txt'],
    ['straße.txt', 'strasse.txt'],
    ['x.y.z', 'x_y.z', 'X-Y.Z'],
]
COLLIDE = [n for g in COLLIDE_GROUPS for n in g]
PLAIN = ['a', 'b1', 'foo.c', 'lib', 'bin', 'etc', 'main.py', 'notes.md', 'img001.jpg', 'x', 'Z9', 'core', 'obj.o',
         'k.bak', 'sub', 'docs', 'src2']
OVER83 = ['longerthan8.html', 'archive.tar.gz', 'configuration', 'a.jpeg', 'verylongextension.extension',
          'ninechars', 'abcdefgh.abcd']
ODD = ['.hidden', '.config.d', '..data', 'a.b.c', 'x..y', 'trailing.', 'two.dots.txt', 'my file.txt', ' lead',
       'trail ', 'a b c', '.txt', '-dash', 'UPPER lower.Mixed', 'tilde~', 'hash#tag', 'semi;1', 'plus+plus', "quo'te",
       'comma,name', '_', '__init__.py', '$dollar', 'per%cent', 'eq=ual', 'at@sign']
UNICODE_BMP = ['résumé.txt', 'файл.txt', '日本語.txt', 'ΑΩ', 'ü',
               'שלום', 'café', '€.eur', 'naïve.éxt', 'ＡＢＣ',
               'ǆ.x', 'İstanbul', 'ﬁle.txt', 'é.txt']
UNICODE_ASTRAL = ['\U0001f600.txt', '\U0001d518nicode', '\U00010348', 'a\U0001f4a9b.c', '\U0001f600\U0001f601\U0001f602']
ALPHABETS = {
    'lower': 'abcdefghij',
    'mixed': 'aBcDeFgHiJ',
    'digits_': 'a_1b-2c+3',
    'latin1': 'éàüöñ',
    'cyr': 'бгджз',
    'cjk': '日本語漢字',
    'astral': '\U0001f600\U0001d518\U00010348',
    'mix': 'aé日\U0001f600b',
}
LENGTHS = [9, 12, 13, 30, 31, 32, 37, 63, 64, 64, 64, 64, 65, 65, 100, 103, 127, 128, 180, 198, 208, 255]
EXTS = ['', '', '.txt', '.x', '.html']


def long_name(alpha, n, ext, variant):
    """A name of n UTF-16 units (capped to 255 UTF-8 bytes) whose only variable part is one
    digit just before the extension: siblings built with different `variant` share every
    prefix, so they collide after truncation at every ISO level below 4."""
    a = ALPHABETS[alpha]
    tail = str(variant) + ext
    stem = ''
    i = 0
    while units(stem + a[i % len(a)] + tail) <= n and nbytes(stem + a[i % len(a)] + tail) <= 255:
        stem += a[i % len(a)]
        i += 1
    if not stem:
        stem = 'q'
    return stem + tail


name_st = st.one_of(
    st.sampled_from(COLLIDE),
    st.sampled_from(COLLIDE),
    st.sampled_from(PLAIN),
    st.sampled_from(OVER83),
    st.sampled_from(ODD),
    st.sampled_from(UNICODE_BMP),
    st.sampled_from(UNICODE_ASTRAL),
    st.builds(long_name, st.sampled_from(sorted(ALPHABETS)), st.sampled_from(LENGTHS), st.sampled_from(EXTS), st.integers(1, 3)),
)

TARGETS = ['readme.txt', '../up', '/abs/target', '/', '.', '..', '../../x/y', 'dangling-nowhere', 'sub/dir/file',
           'ünï/目標', 'x' * 200, '/'.join(['c' * 50] * 8), 'a b/c d', '/etc/passwd', 'a',
           '\U0001f600/link', 'y' * 255,
           # valid but not in normal form: must be carried verbatim
           'sub/', './readme.txt', 'sub//file', 'sub/../readme.txt', 'sub/.', './', '../', 'a/./b']


def twin_name(name, ref):
    """A different name that an ISO9660 level 1-3 mangler maps to the same identifier."""
    for g in COLLIDE_GROUPS:
        if name in g:
            others = [n for n in g if n != name]
            return others[ref % len(others)]
    if name.swapcase() != name and ref % 3:
        return name.swapcase()
    m = re.search(r'([123])(\.[A-Za-z]{1,4})?$', name)
    if m and len(name) > 12:
        d = str((int(m.group(1)) % 3) + 1)
        return name[:m.start(1)] + d + name[m.end(1):]
    for a, b in (('-', '+'), ('+', '~'), (' ', '-'), ('_', '-')):
        if a in name:
            return name.replace(a, b, 1)
    if name.swapcase() != name:
        return name.swapcase()
    return name + '~'


def fit_name(name, opts, avoided):
    """Cut a drawn name down to what every requested view can hold (counted)."""
    def cut(n, ok, key):
        if ok(n):
            return n
        avoided[key] += 1
        stem, dot, ext = n.rpartition('.')
        if not dot or len(ext) > 5:
            stem, ext, dot = n, '', ''
        while len(stem) > 1 and not ok(stem + dot + ext):
            mid = len(stem) // 2
            stem = stem[:mid] + stem[mid + 1:]
        return stem + dot + ext
    if opts['joliet']:
        name = cut(name, lambda s: units(s) <= 64, 'avoided:joliet-name>64-units')
    if opts['udf']:
        name = cut(name, lambda s: udf_len(s) <= 255, 'avoided:udf-name>255-bytes')
    return name


# ----------------------------------------------------------------------------------------
# contents


def content_bytes(spec):
    if 'hex' in spec:
        return bytes.fromhex(spec['hex'])
    size = spec['size']
    out = bytearray()
    i = 0
    while len(out) < size:
        out += hashlib.sha256(b'C20|%d|%d' % (spec['seed'], i)).digest()
        i += 1
    out = out[:size]
    if spec.get('flip') and size:
        out[-1] ^= spec['flip']
    return bytes(out)


# ----------------------------------------------------------------------------------------
# case construction (pure function of the Hypothesis draw)

entry_draw = st.tuples(
    st.integers(0, 10 ** 6),                                                       # parent selector
    st.sampled_from(['file'] * 6 + ['dir'] * 3 + ['symlink'] * 2 + ['twin'] * 2 + ['cousin', 'replname']),
    name_st,
    st.tuples(st.sampled_from(['uniq'] * 5 + ['empty'] * 2 + ['dup', 'dup', 'neardup', 'neardup', 'collA', 'collB', 'big']),
              st.sampled_from([1, 3, 5, 7, 100, 2047, 2048, 2049, 5000]),
              st.integers(0, 10 ** 6), st.integers(1, 255)),
    st.tuples(st.sampled_from(['fixed', 'fixed', 'sibling']), st.sampled_from(TARGETS), st.integers(0, 10 ** 6)),
)

pattern_draw = st.tuples(st.sampled_from(['exact', 'exact', 'ext', 'prefix', 'fixed']), st.integers(0, 10 ** 6),
                         st.sampled_from(['*.txt', '*.o', 'core', '*~', 'longfile*', 'README*', '.??*', '*.bak', 'a*']))


def _patterns():
    return st.one_of(st.just([]), st.just([]), st.just([]), st.lists(pattern_draw, min_size=1, max_size=2))


boot_draw = st.one_of(
    st.just(None), st.just(None), st.just(None),
    st.fixed_dictionaries({
        'file': st.sampled_from(['boot.img', 'boot.img', 'eltorito.bin', 'isolinux/isolinux.bin', 'boot/isolinux.bin']),
        'catalog': st.sampled_from(['boot.cat', 'boot.cat', 'boot.catalog', 'isolinux/boot.cat', 'isolinux/boot.cat', 'boot/boot.cat']),
        'load_size': st.sampled_from([None, 4, 1]),
        'info_table': st.booleans(),
    }))

draw_st = st.fixed_dictionaries({
    'iso_level': st.integers(1, 4),
    'rr': st.sampled_from(['R', 'r', None]),
    'joliet': st.booleans(),
    'udf': st.booleans(),
    'dups': st.booleans(),
    'boot': boot_draw,
    'hide': _patterns(), 'hide_joliet': _patterns(), 'hide_udf': _patterns(), 'hidden': _patterns(),
    'exclude': _patterns(), 'exclude_old': _patterns(),
    'volid': st.sampled_from(['', '', '', 'CDROM', 'MY_VOLUME_1', 'CDROM', 'VOLUME_ID_16_CHR', 'V' * 32]),
    'iso_extract': st.sampled_from([False, False, False, True]),
    'spell': st.sampled_from([0, 0, 1, 2, 3]),
    'bootcopy': st.sampled_from([0, 0, 1, 2, 3]),
    'catname': st.sampled_from([0, 0, 1, 2, 3]),
    'chain': st.sampled_from([0, 0, 0, 0, 1, 2, 3, 5, 7, 8, 8, 9, 9]),
    'chain_names': st.lists(st.sampled_from(['d', 'lib', 'AB', 'ab', 'sub', 'n', 'deep', 'x1', 'Data', 'data', 'ü', 'long_directory_name']),
                            min_size=9, max_size=9),
    'entries': st.sampled_from([1, 2, 3, 4, 6, 8, 10, 12, 16, 20, 25]).flatmap(lambda n: st.lists(entry_draw, min_size=n, max_size=n)),
    # a directory whose records add up to exactly one sector in the Joliet view (k names of n characters: 68 + k * (34 + 2n) = 2048)
    # or in the plain ISO9660 view (45 names whose identifiers take 10-11 bytes: 68 + 45 * 44), one file more or less
    'fill': st.one_of(st.none(), st.none(), st.none(),
                      st.tuples(st.sampled_from([(15, 49), (30, 16), (22, 28), (18, 38), (45, 5), (33, 13), (45, 'iso')]), st.sampled_from([0, 0, 0, 1, -1]))),
})


def build_case(d):
    """Hypothesis draw -> (case, avoided counter).  The case is plain JSON data."""
    avoided = collections.Counter()
    opts = {k: d[k] for k in ('iso_level', 'rr', 'joliet', 'udf', 'dups', 'volid', 'iso_extract')}
    opts['boot'] = dict(d['boot']) if d['boot'] else None
    tree = []
    used = set()
    dirs = ['']
    files = []

    def add(path, kind, **kw):
        if path in used or len(tree) >= 25:
            return False
        used.add(path)
        tree.append(dict(path=path, kind=kind, **kw))
        if kind == 'dir':
            dirs.append(path)
        return True

    def join(parent, name):
        return parent + '/' + name if parent else name

    # boot image first (so that its directories exist and nothing else takes its name)
    if opts['boot']:
        parts = opts['boot']['file'].split('/')
        for i in range(1, len(parts)):
            add('/'.join(parts[:i]), 'dir')
        add(opts['boot']['file'], 'file', content={'seed': 999983, 'size': 2048})
        files.append({'seed': 999983, 'size': 2048})     # so that 'dup' entries can be copies of the boot image
        if d.get('bootcopy') and opts['dups']:
            # an ordinary file with the boot image's contents in the root: found before a boot image that lies in a directory
            add(['copy.bin', 'a_copy.bin', 'zcopy.bin'][d['bootcopy'] % 3], 'file', content={'seed': 999983, 'size': 2048})
        cparts = opts['boot']['catalog'].split('/')
        for i in range(1, len(cparts)):
            add('/'.join(cparts[:i]), 'dir')
        used.add(opts['boot']['catalog'])   # documented: a source file of that name would be excluded
        if d.get('catname'):
            # ... but only that one: a file of the same base name somewhere else is an ordinary file
            base = cparts[-1]
            where = [['zdocs', 'old'], ['adocs'], ['zdocs']][d['catname'] % 3]
            for i in range(1, len(where) + 1):
                add('/'.join(where[:i]), 'dir')
            if '/'.join(where + [base]) != opts['boot']['catalog']:
                add('/'.join(where + [base]), 'file', content={'seed': 4242 + d['catname'], 'size': 700})
    # directory chain for deep nesting
    cur = ''
    for i in range(d['chain']):
        nm = fit_name(d['chain_names'][i], opts, avoided)
        cur = join(cur, nm)
        add(cur, 'dir')
    for idx, (psel, kind, name, cdraw, tdraw) in enumerate(d['entries']):
        name = fit_name(name, opts, avoided)
        parent = dirs[psel % len(dirs)]
        if kind in ('cousin', 'replname'):
            # 'cousin': a sibling that shares the first five characters and the extension with an existing entry (so that
            # the replacement names PREFI000.EXT ... of two collision groups come from one pool), added together with a
            # colliding twin of its own; 'replname': a sibling literally named like such a replacement name
            cands = [e for e in tree if e['kind'] != 'symlink' and (opts['boot'] is None or e['path'] != opts['boot']['file'])]
            if cands:
                orig = cands[psel % len(cands)]
                parent, _, oname = orig['path'].rpartition('/')
                stem, dot, ext = oname.rpartition('.')
                if not dot or not stem:
                    stem, dot, ext = oname, '', ''
                okind = 'dir' if orig['kind'] == 'dir' else 'file'
                if kind == 'cousin':
                    name = fit_name((stem[:5] + 'x' * max(0, 5 - len(stem[:5])) + 'more%d' % (tdraw[2] % 3)) + dot + ext, opts, avoided)
                    tw = fit_name(twin_name(name, tdraw[2]), opts, avoided)
                    if okind == 'dir':
                        add(join(parent, tw), 'dir')
                    elif add(join(parent, tw), 'file', content={'seed': idx + 500000, 'size': 7}):
                        files.append({'seed': idx + 500000, 'size': 7})
                else:
                    up = ''.join(c if (c.isascii() and (c.isalnum() or c == '_')) else '_' for c in stem.upper())[:5]
                    name = '%s%03d' % (up, tdraw[2] % 2) + ((dot + ext.upper()[:3]) if okind == 'file' else '')
                kind = okind
            else:
                kind = 'file'
        if kind == 'twin':
            # a sibling whose name collides with an existing entry's name after ISO9660 mangling
            cands = [e for e in tree if opts['boot'] is None or e['path'] != opts['boot']['file']]
            if cands:
                orig = cands[psel % len(cands)]
                parent, _, oname = orig['path'].rpartition('/')
                name = fit_name(twin_name(oname, tdraw[2]), opts, avoided)
                kind = 'dir' if orig['kind'] == 'dir' else 'file'
            else:
                kind = 'file'
        depth = parent.count('/') + 1 if parent else 0
        if kind == 'dir' and depth >= 9:
            kind = 'file'
        path = join(parent, name)
        if kind == 'dir':
            add(path, 'dir')
        elif kind == 'symlink':
            how, fixed, ref = tdraw
            target = fixed
            if how == 'sibling':
                sibs = [e['path'].rsplit('/', 1)[-1] for e in tree if e['path'].rpartition('/')[0] == parent]
                target = sibs[ref % len(sibs)] if sibs else 'missing-sibling'
            if opts['udf'] and any(udf_len(c) > 255 for c in target.split('/')):
                avoided['avoided:udf-symlink-component>255-bytes'] += 1
                target = '/'.join(c if udf_len(c) <= 255 else c[:120] for c in target.split('/'))
            add(path, 'symlink', target=target)
        else:
            ckind, size, ref, flip = cdraw
            spec = {'seed': idx, 'size': size}
            if ckind == 'empty':
                spec = {'seed': idx, 'size': 0}
            elif ckind == 'big':
                spec = {'seed': idx, 'size': 33001}
            elif ckind in ('collA', 'collB'):
                # whichever half of the murmur3-colliding pair the tree does not hold yet
                have = {f.get('hex') for f in files}
                first, second = (COLL_A, COLL_B) if ckind == 'collA' else (COLL_B, COLL_A)
                spec = {'hex': (second if first.hex() in have and second.hex() not in have else first).hex()}
            elif ckind in ('dup', 'neardup') and files:
                spec = dict(files[ref % len(files)])
                if ckind == 'neardup' and 'hex' not in spec and spec['size'] > 0:
                    spec['flip'] = flip
            if add(path, 'file', content=spec):
                files.append(spec)
    if d.get('fill'):
        (k, n), delta = d['fill']
        fdir = 'zfill'
        if fdir not in used:
            used.add(fdir)
            tree.append({'path': fdir, 'kind': 'dir'})
            for i in range(k + delta):
                if n == 'iso':
                    nm = 'fi%04d.a' % i                 # identifier FI0000.A;1: 10 bytes -> a 44-byte record without Rock Ridge
                else:
                    nm = ('f%03d' % i) + 'x' * (n - 4) if n >= 4 else None
                if nm is None:
                    break
                pth = fdir + '/' + nm
                used.add(pth)
                tree.append({'path': pth, 'kind': 'file', 'content': {'seed': 700000 + i, 'size': (0, 1, 3)[i % 3]}})
    # patterns are made from the names actually present
    names = sorted({e['path'].rsplit('/', 1)[-1] for e in tree})

    def mkpat(p):
        style, ref, fixed = p
        nm = names[ref % len(names)] if names else 'x'
        if any(c in nm for c in '*?[]'):
            style = 'fixed'
        if style == 'exact':
            pat = nm
        elif style == 'ext':
            pat = '*' + nm[nm.rfind('.'):] if '.' in nm[1:] else nm
        elif style == 'prefix':
            pat = nm[:3] + '*'
        else:
            pat = fixed
        if pat.startswith('-'):
            # argparse reads "-hide -dash" as a missing argument (clean usage error): not expressible
            avoided['avoided:pattern-with-leading-dash'] += 1
            pat = '?' + pat[1:]
        return pat
    protected = []
    if opts['boot']:
        # excluding or hiding the boot image (or a file named like the catalog) is outside the documented domain
        protected = opts['boot']['file'].split('/') + opts['boot']['catalog'].split('/')
    for k in ('hide', 'hide_joliet', 'hide_udf', 'hidden', 'exclude', 'exclude_old'):
        pats = sorted({mkpat(p) for p in d[k]})
        keep = [p for p in pats if k == 'hidden' or not any(fnmatch_any([p], c) for c in protected)]
        if len(keep) != len(pats):
            avoided['avoided:pattern-matching-boot-image'] += len(pats) - len(keep)
        opts[k] = keep
    if not opts['joliet']:
        opts['hide_joliet'] = []
    if not opts['udf']:
        opts['hide_udf'] = []
    if d.get('spell'):
        opts['spell'] = d['spell']
    return {'tree': tree, 'options': opts}, avoided


# ----------------------------------------------------------------------------------------
# model of what the tools document

def fnmatch_any(patterns, name):
    import fnmatch
    return any(fnmatch.fnmatchcase(name, p) for p in patterns)


def model_mangle(name, level, is_dir):
    """Independent, deliberately simple model of ISO9660 name mangling - used only to
    classify a tree as 'has a mangling collision', never as an oracle."""
    if level == 4:
        return name
    up = name.upper()
    if is_dir:
        return re.sub('[^A-Z0-9_]', '_', up)[:8 if level == 1 else 31]
    base, dot, ext = up.rpartition('.')
    if not dot or not (1 <= len(ext) <= 3) or re.search('[^A-Z0-9_]', ext):
        base, ext = up, ''
    return re.sub('[^A-Z0-9_]', '_', base)[:8 if level == 1 else 30] + '.' + ext


def opt_defaults(o):
    o = dict(o)
    for k, v in (('iso_level', 1), ('rr', None), ('joliet', False), ('udf', False), ('dups', False), ('boot', None),
                 ('hide', []), ('hide_joliet', []), ('hide_udf', []), ('hidden', []), ('exclude', []),
                 ('exclude_old', []), ('volid', ''), ('iso_extract', False)):
        o.setdefault(k, v)
    return o


def analyse(case):
    """Model: which entries each view must show, plus classification."""
    o = opt_defaults(case['options'])
    tree = case['tree']
    level = o['iso_level']
    excl = o['exclude'] + o['exclude_old']
    info = {}
    kinds = {e['path']: e['kind'] for e in tree}
    for e in tree:
        comps = e['path'].split('/')
        excluded = any(fnmatch_any(excl, c) for c in comps)
        # directories nested deeper than 7 (root = level 1) cannot exist without Rock Ridge
        ndirs = len(comps) if e['kind'] == 'dir' else len(comps) - 1
        deep = ndirs > 7
        info[e['path']] = {'entry': e, 'name': comps[-1], 'excluded': excluded, 'deep': deep, 'depth': len(comps)}
    has_children = set()
    for p in info:
        par = p.rpartition('/')[0]
        if par:
            has_children.add(par)
    dupcount = collections.Counter()
    for e in tree:
        if e['kind'] == 'file' and not info[e['path']]['excluded']:
            dupcount[content_bytes(e['content'])] += 1
    sizes = collections.Counter()
    for b, n in dupcount.items():
        sizes[len(b)] += n

    def hidden_by(patterns, path):
        """documented: a matching file is hidden; a matching directory hides its contents"""
        comps = path.split('/')
        for i in range(len(comps)):
            if fnmatch_any(patterns, comps[i]):
                sub = '/'.join(comps[:i + 1])
                return 'self' if i == len(comps) - 1 else ('in-hidden-dir' if kinds.get(sub) == 'dir' else None)
        return None

    views = {}
    want = [v for v, on in (('rockridge', o['rr']), ('joliet', o['joliet']), ('udf', o['udf'])) if on]
    dropped_deep = 0
    for v in want + ['iso']:
        pats = {'rockridge': o['hide'], 'iso': o['hide'], 'joliet': o['hide_joliet'], 'udf': o['hide_udf']}[v]
        exp = {}        # path -> node
        hid = {}        # path -> why (entries the view must NOT show because of a hide pattern)
        tol = {}        # path -> set of tolerated renderings
        opt = set()     # expected paths that may also be absent (the documentation is silent)
        for p, i in info.items():
            e = i['entry']
            if i['excluded']:
                continue
            if i['deep'] and not o['rr'] and level < 4:
                dropped_deep += (v == 'iso')
                continue
            h = hidden_by(pats, p) if pats else None
            if e['kind'] != 'dir' and i['depth'] > 7 and not o['rr'] and level < 4:
                # an entry inside a level-8 directory: legal by ECMA-119 6.8.2.1, refused by the library
                # ("Directory levels too deep"); a tool may keep it or drop it with a message, it may not crash
                opt.add(p)
            if e['kind'] == 'symlink':
                if not (o['rr'] or o['udf']):
                    continue                      # documented: "Symlink ... ignored"
                if v == 'joliet':
                    tol[p] = {'absent', 'empty-file'}
                    continue
                if v == 'udf' and not o['udf'] or v == 'rockridge' and not o['rr']:
                    continue
                if h:
                    tol[p] = {'absent', 'symlink'}
                    continue
                exp[p] = ('symlink', e['target'])
            elif e['kind'] == 'dir':
                if h:
                    hid[p] = 'dir' if h == 'self' else 'below-hidden-dir'
                    continue
                exp[p] = ('dir',)
            else:
                if h:
                    hid[p] = 'file' if h == 'self' else 'below-hidden-dir'
                    continue
                exp[p] = ('file', content_bytes(e['content']))
        views[v] = {'expected': exp, 'hidden': hid, 'tolerated': tol, 'optional': opt & set(exp)}
    # classification
    classes = ['level:%d' % level, 'rr:%s' % (o['rr'] or 'none'), 'views:%d' % len(want)]
    for k in ('joliet', 'udf', 'dups'):
        if o[k]:
            classes.append('opt:' + k)
    if o['boot']:
        classes.append('opt:boot')
        if o['boot']['info_table']:
            classes.append('opt:boot-info-table')
    for k in ('hide', 'hide_joliet', 'hide_udf', 'hidden'):
        if o[k]:
            classes.append('opt:' + k)
    if excl:
        classes.append('opt:exclude')
    if (o.get('spell') or 0) & 1 and o['udf']:
        classes.append('opt:-UDF')
    if (o.get('spell') or 0) & 2 and any(o[k] for k in ('hide', 'hide_joliet', 'hide_udf', 'hidden', 'exclude')):
        classes.append('opt:pattern-list-files')
    if o['volid']:
        classes.append('opt:volid')
    sib = collections.defaultdict(list)
    for p, i in info.items():
        sib[p.rpartition('/')[0]].append(i)
    collision = False
    for par, lst in sib.items():
        seen = collections.Counter()
        for i in lst:
            k = i['entry']['kind'] == 'dir'
            seen[(k, model_mangle(i['name'], level, k))] += 1
        if any(n > 1 for n in seen.values()):
            collision = True
    nsym = sum(1 for e in tree if e['kind'] == 'symlink')
    maxdirdepth = max([len(e['path'].split('/')) for e in tree if e['kind'] == 'dir'] or [0])
    dupc = any(n > 1 for n in dupcount.values())
    if collision:
        classes.append('tree:mangling-collision')
    if nsym:
        classes.append('tree:symlink')
        for e in tree:
            if e['kind'] == 'symlink':
                classes.append('symlink:absolute' if e['target'].startswith('/') else 'symlink:relative')
                if len(e['target']) > 150:
                    classes.append('symlink:long-target')
    if maxdirdepth > 7:
        classes.append('tree:nesting>7')
    if dupc:
        classes.append('tree:duplicate-contents')
    if any(n > 1 for n in sizes.values()):
        classes.append('tree:same-size-files')
    if any(e['kind'] == 'file' and e['content'].get('flip') for e in tree):
        classes.append('tree:near-duplicate-contents')
    hexes = {e['content'].get('hex') for e in tree if e['kind'] == 'file'}
    if COLL_A.hex() in hexes and COLL_B.hex() in hexes:
        classes.append('tree:murmur3-colliding-pair')
    if any(e['kind'] == 'file' and len(content_bytes(e['content'])) == 0 for e in tree):
        classes.append('tree:empty-file')
    if any(e['kind'] == 'dir' and e['path'] not in has_children for e in tree):
        classes.append('tree:empty-dir')
    if any(e['kind'] == 'file' and e['content'].get('size', 0) > 32768 for e in tree):
        classes.append('tree:file>32KiB')
    feats = set()
    for i in info.values():
        feats.update(name_features(i['name']))
    classes.extend('name:' + f for f in sorted(feats))
    classes.append('entries:%s' % ('1-5' if len(tree) <= 5 else '6-12' if len(tree) <= 12 else '13-25'))
    if dropped_deep:
        classes.append('model:deep-dropped-without-rr(documented)')
    nontrivial = bool(collision or nsym or maxdirdepth > 7 or dupc)
    return {'opts': o, 'info': info, 'views': views, 'want': want, 'classes': sorted(set(classes)),
            'nontrivial': nontrivial, 'sizes': sizes, 'dupcount': dupcount, 'has_children': has_children}


def name_features(name):
    f = []
    if any(ord(c) > 0xFFFF for c in name):
        f.append('astral')
    elif any(ord(c) > 127 for c in name):
        f.append('bmp-nonascii')
    u = units(name)
    if u > 64:
        f.append('>64-units')
    elif u == 64:
        f.append('=64-units')
    elif u > 31:
        f.append('>31')
    stem, dot, ext = name.rpartition('.')
    if (dot and (len(stem) > 8 or len(ext) > 3)) or (not dot and len(name) > 8):
        f.append('>8.3')
    if nbytes(name) >= 198:
        f.append('>=198-bytes')
    if name.startswith('.'):
        f.append('leading-dot')
    if name.endswith('.'):
        f.append('trailing-dot')
    if name.count('.') > 1:
        f.append('several-dots')
    if ' ' in name:
        f.append('space')
    return f


def qual(name, deep=False):
    """Short, name-free discriminator for a signature."""
    if deep:
        return 'deep'
    f = name_features(name)
    for k in ('astral', '>64-units', '=64-units', 'bmp-nonascii', 'trailing-dot'):
        if k in f:
            return k
    return 'plain'


# ----------------------------------------------------------------------------------------
# independent image readers (struct only)

SEC = 2048


def volume_descriptors(img):
    out = []
    s = 16
    while (s + 1) * SEC <= len(img):
        sec = img[s * SEC:(s + 1) * SEC]
        if sec[1:6] != b'CD001':
            break
        out.append((sec[0], sec))
        s += 1
        if sec[0] == 255:
            break
    return out, s


def sniff(img):
    """Which extensions does the image carry?  -> dict"""
    vds, after = volume_descriptors(img)
    r = {'joliet': False, 'enhanced': False, 'udf': False, 'rr_sp': False, 'rr_er': None, 'eltorito': False,
         'pvd': None, 'boot_catalog_lba': None}
    for t, sec in vds:
        if t == 1 and r['pvd'] is None:
            r['pvd'] = sec
        elif t == 2:
            if sec[88:91] in (b'%/@', b'%/C', b'%/E'):
                r['joliet'] = True
            elif sec[6] == 2:
                r['enhanced'] = True
        elif t == 0 and sec[7:30] == b'EL TORITO SPECIFICATION':
            r['eltorito'] = True
            r['boot_catalog_lba'], = struct.unpack_from('<L', sec, 0x47)
    for s in range(16, min(16 + 64, len(img) // SEC)):
        sec = img[s * SEC:s * SEC + 8]
        if sec[0:1] == b'\x00' and sec[1:6] in (b'NSR02', b'NSR03'):
            r['udf'] = True
    if r['pvd'] is not None:
        root = r['pvd'][156:190]
        ext, = struct.unpack_from('<L', root, 2)
        rec0 = img[ext * SEC:ext * SEC + 256]
        if rec0 and rec0[0] >= 34:
            rec0 = rec0[:rec0[0]]
            lfi = rec0[32]
            su = rec0[33 + lfi + (1 - lfi % 2):]
            ents = susp_entries(img, su)
            if ents and ents[0][0] == b'SP' and ents[0][1][:2] == b'\xbe\xef':
                r['rr_sp'] = True
            for sig, body in ents:
                if sig == b'ER' and len(body) >= 4:
                    r['rr_er'] = bytes(body[4:4 + body[0]])
    return r


def susp_entries(img, su, depth=0):
    out = []
    i = 0
    ce = None
    while i + 4 <= len(su):
        sig = bytes(su[i:i + 2])
        ln = su[i + 2]
        if ln < 4 or i + ln > len(su) or not sig.isalpha():
            break
        body = su[i + 4:i + ln]
        if sig == b'CE' and len(body) >= 24:
            ce = (struct.unpack_from('<L', body, 0)[0], struct.unpack_from('<L', body, 8)[0], struct.unpack_from('<L', body, 16)[0])
        elif sig == b'ST':
            break
        else:
            out.append((sig, body))
        i += ln
    if ce and depth < 8:
        blk, off, ln = ce
        out.extend(susp_entries(img, img[blk * SEC + off:blk * SEC + off + ln], depth + 1))
    return out


def walk_iso(img, pvd):
    """Plain ISO9660 walk from the PVD root.  -> list of (dirpath, [records]) where a record is
    dict(ident, flags, extent, size, isdir, relocated)."""
    root = pvd[156:190]
    ext, = struct.unpack_from('<L', root, 2)
    size, = struct.unpack_from('<L', root, 10)
    out = []
    seen = set()
    todo = collections.deque([('', ext, size)])
    while todo:
        path, ext, size = todo.popleft()
        if ext in seen or len(seen) > 5000:
            continue
        seen.add(ext)
        data = img[ext * SEC:ext * SEC + size]
        recs = []
        off = 0
        while off < len(data):
            ln = data[off]
            if ln == 0:
                off = (off // SEC + 1) * SEC
                continue
            rec = data[off:off + ln]
            off += ln
            if len(rec) < 34:
                break
            lfi = rec[32]
            ident = bytes(rec[33:33 + lfi])
            if ident in (b'\x00', b'\x01'):
                continue
            r = {'ident': ident, 'flags': rec[25], 'extent': struct.unpack_from('<L', rec, 2)[0] + rec[1],
                 'size': struct.unpack_from('<L', rec, 10)[0], 'isdir': bool(rec[25] & 2)}
            su = rec[33 + lfi + (1 - lfi % 2):]
            # RRIP 4.1.5.1: a record carrying CL is the placeholder of a relocated directory
            r['relocated'] = bool(su) and any(sig == b'CL' for sig, _ in susp_entries(img, su))
            recs.append(r)
            if r['isdir']:
                todo.append((path + '/' + ident.decode('utf-8', 'surrogateescape'), r['extent'], r['size']))
        out.append((path or '/', recs))
    return out


def legal_ident(ident, level, is_dir, rr):
    """(verdict, reason) - vf.legal when importable, else a small local predicate; plus the
    length limits the tool's man page states."""
    try:
        from vf import legal
        ok, why = (legal.legal_iso_dir if is_dir else legal.legal_iso_file)(ident, level)
    except ImportError:
        ok, why = _local_legal(ident, level, is_dir)
    if ok is False:
        return False, why
    if level == 4:
        if len(ident) > 207:
            return False, 'longer than 207'
        return True, 'ok'
    if is_dir:
        if len(ident) > 31:
            return False, 'directory longer than 31'
        return True, 'ok'
    body = ident.rpartition(b';')[0] if b';' in ident else ident
    name, dot, ext = body.rpartition(b'.')
    if not dot:
        name, ext = body, b''
    if len(name) + len(ext) > 30:
        return False, 'name+extension longer than 30'
    if b';' not in ident or not ident.rpartition(b';')[2].isdigit():
        return False, 'no version number'
    if not dot:
        return False, 'no separator 1'
    return True, 'ok'


_D = frozenset(b'ABCDEFGHIJKLMNOPQRSTUVWXYZ0123456789_')


def _local_legal(ident, level, is_dir):
    if not ident or b'/' in ident:
        return False, 'not a path component'
    if level == 4:
        return True, 'ok'
    if is_dir:
        if any(c not in _D for c in ident):
            return False, 'not d-characters'
        if level == 1 and len(ident) > 8:
            return False, 'longer than 8'
        return True, 'ok'
    body, semi, ver = ident.rpartition(b';')
    if not semi:
        body, ver = ident, b'1'
    if not ver.isdigit() or not 1 <= int(ver) <= 32767:
        return False, 'version not 1-32767'
    name, dot, ext = body.rpartition(b'.')
    if not dot:
        name, ext = body, b''
    if any(c not in _D for c in name + ext):
        return False, 'not d-characters'
    if level == 1 and (len(name) > 8 or len(ext) > 3):
        return False, 'not 8.3'
    return True, 'ok'


def looks_like_boot_catalog(b):
    return len(b) >= 64 and b[0] == 1 and b[30:32] == b'\x55\xaa'


# ----------------------------------------------------------------------------------------
# running the tools

_TB_FRAME = re.compile(r'^\s*File "([^"]+)", line \d+, in (\S+)', re.M)


def tool_env(home):
    return {'PATH': os.environ.get('PATH', '/usr/bin:/bin'), 'PYTHONPATH': REPO, 'PYTHONDONTWRITEBYTECODE': '1',
            'PYTHONHASHSEED': '0', 'LC_ALL': 'C.UTF-8', 'LANG': 'C.UTF-8', 'PYTHONUTF8': '1', 'TZ': 'UTC', 'HOME': home}


def run_tool(argv, cwd):
    try:
        p = subprocess.run(argv, cwd=cwd, env=tool_env(cwd), stdin=subprocess.DEVNULL, stdout=subprocess.PIPE,
                           stderr=subprocess.PIPE, timeout=TIMEOUT)
    except subprocess.TimeoutExpired:
        return None, '', 'timeout'
    return p.returncode, p.stdout.decode('utf-8', 'replace'), p.stderr.decode('utf-8', 'replace')


def traceback_signature(stderr):
    """'<ExceptionType>@<api>><innermost function inside the repo>' from a Python traceback on
    stderr, or None when there is no traceback."""
    if 'Traceback (most recent call last)' not in stderr:
        return None
    frames = _TB_FRAME.findall(stderr)
    exc = 'UnknownError'
    for line in reversed(stderr.strip().splitlines()):
        m = re.match(r'^([A-Za-z_][\w\.]*)(: |$)', line)
        if m and not line.startswith(' '):
            exc = m.group(1).rsplit('.', 1)[-1]
            break
    inrepo = [(f, fn) for f, fn in frames if f.startswith(REPO + os.sep) or '/pycdlib/' in f or '/tools/pycdlib-' in f]
    lib = [(f, fn) for f, fn in inrepo if '/tools/pycdlib-' not in f]
    if lib:
        api, inner = lib[0][1], lib[-1][1]
        where = api if api == inner else '%s>%s' % (api, inner)
    elif inrepo:
        where = '%s:%s' % (os.path.basename(inrepo[-1][0]), inrepo[-1][1])
    else:
        where = 'outside-repo'
    return '%s@%s' % (exc, where)


def geniso_argv(o, out, src):
    a = [PY, os.path.join(REPO, 'tools', 'pycdlib-genisoimage'), '-o', out, '-iso-level', str(o['iso_level'])]
    if o['rr']:
        a.append('-' + o['rr'])
    if o['joliet']:
        a.append('-J')
    spell = o.get('spell') or 0
    if o['udf']:
        a.append('-UDF' if spell & 1 else '-udf')      # the two documented spellings
    if o['dups']:
        a.append('-scan-for-duplicates')
    if o['volid']:
        a += ['-V', o['volid']]
    b = o['boot']
    if b:
        a += ['-b', b['file'], '-c', b['catalog'], '-no-emul-boot']
        if b.get('load_size') is not None:
            a += ['-boot-load-size', str(b['load_size'])]
        if b.get('info_table'):
            a.append('-boot-info-table')
    for flag, key in (('-hide', 'hide'), ('-hide-joliet', 'hide_joliet'), ('-hide-udf', 'hide_udf'), ('-hidden', 'hidden'),
                      ('-m', 'exclude'), ('-x', 'exclude_old')):
        pats = o[key]
        listflag = {'-hide': '-hide-list', '-hide-joliet': '-hide-joliet-list', '-hide-udf': '-hide-udf-list', '-hidden': '-hidden-list', '-m': '-exclude-list'}.get(flag)
        if spell & 2 and listflag and pats and all(p and p == p.strip() and '\n' not in p and '\r' not in p for p in pats):
            # the same patterns, given in a file (one per line) instead of on the command line
            lst = '%s.%s.lst' % (out, key)
            with open(lst, 'w', encoding='utf-8') as f:
                f.write(''.join(p + '\n' for p in pats))
            a += [listflag, lst]
            continue
        for p in pats:
            a += [flag, p]
    a.append(src)
    return a


def shell_repro(case):
    """Shell commands reproducing a case (for reports)."""
    o = opt_defaults(case['options'])
    import shlex
    lines = ['mkdir -p /tmp/c20r/%s && cd /tmp/c20r' % ROOTNAME]
    for e in case['tree']:
        p = shlex.quote(ROOTNAME + '/' + e['path'])
        if e['kind'] == 'dir':
            lines.append('mkdir -p %s' % p)
        elif e['kind'] == 'symlink':
            lines.append('ln -s %s %s' % (shlex.quote(e['target']), p))
        else:
            b = content_bytes(e['content'])
            if len(b) <= 24:
                lines.append("printf '%s' > %s" % (''.join('\\%03o' % c for c in b), p))
            else:
                lines.append('head -c %d /dev/zero > %s   # (any %d bytes)' % (len(b), p, len(b)))
    argv = geniso_argv(o, 'out.iso', ROOTNAME)
    lines.append('PYTHONPATH=%s %s' % (REPO, ' '.join(shlex.quote(x) for x in argv)))
    for v in analyse(case)['want']:
        lines.append('mkdir x_%s && PYTHONPATH=%s %s %s/tools/pycdlib-extract-files -path-type %s -extract-to x_%s out.iso'
                     % (v, REPO, PY, REPO, v, v))
    return '\n'.join(lines)


def materialise(case, src):
    os.mkdir(src)
    order = sorted(case['tree'], key=lambda e: (e['path'].count('/'), e['kind'] != 'dir'))
    for e in order:
        p = os.path.join(src, e['path'])
        par = os.path.dirname(p)
        if not os.path.isdir(par):
            os.makedirs(par)
        if e['kind'] == 'dir':
            if not os.path.isdir(p):
                os.mkdir(p)
        elif e['kind'] == 'symlink':
            os.symlink(e['target'], p)
        else:
            with open(p, 'wb') as f:
                f.write(content_bytes(e['content']))


def read_tree(top):
    out = {}
    for dirpath, dirnames, filenames in os.walk(top):
        rel = os.path.relpath(dirpath, top)
        rel = '' if rel == '.' else rel
        for n in list(dirnames):
            full = os.path.join(dirpath, n)
            r = (rel + '/' + n) if rel else n
            if os.path.islink(full):
                out[r] = ('symlink', os.readlink(full))
                dirnames.remove(n)
            else:
                out[r] = ('dir',)
        for n in filenames:
            full = os.path.join(dirpath, n)
            r = (rel + '/' + n) if rel else n
            if os.path.islink(full):
                out[r] = ('symlink', os.readlink(full))
            else:
                with open(full, 'rb') as f:
                    out[r] = ('file', f.read())
    return out


def _workdir():
    base = os.path.join(SCRATCH, str(os.getpid()))
    os.makedirs(base, exist_ok=True)
    return tempfile.mkdtemp(prefix='case-', dir=base)


def _cleanup_pid_dir():
    base = os.path.join(SCRATCH, str(os.getpid()))
    shutil.rmtree(base, ignore_errors=True)


def short(s, n=160):
    s = repr(s)
    return s if len(s) <= n else s[:n // 2] + '...' + s[-n // 2:]


# ----------------------------------------------------------------------------------------
# the property

def run_case(case, col, focus=None, record=True):
    """Materialise, run both tools, compare.  Never raises on an oracle failure."""
    a = analyse(case)
    o = a['opts']
    if record:
        col.case(case, a['nontrivial'], a['classes'])
    reported = set()

    def fail(sig, clause, msg):
        if sig in reported:
            return
        reported.add(sig)
        col.fail(sig, clause, msg + '\n  options: ' + canon({k: v for k, v in o.items() if v not in (None, False, [], '')}), case)

    fparts = focus.split('/') if focus else None
    only_view = fparts[1] if fparts and fparts[1] in VIEWS else None
    if fparts and fparts[1] == 'tool-exit' and fparts[2] == 'extract-files':
        only_view = fparts[3]
    stop_after_geniso = bool(fparts and fparts[1] == 'tool-exit' and fparts[2] == 'genisoimage')
    image_only = bool(fparts and fparts[1] in ('iso', 'extensions', 'boot', 'pvd'))
    iso_extract_only = bool(fparts and (fparts[1] == 'iso-extract' or fparts[1:4] == ['tool-exit', 'extract-files', 'iso']))
    if iso_extract_only:
        only_view = 'iso'

    work = _workdir()
    try:
        src = os.path.join(work, ROOTNAME)
        try:
            materialise(case, src)
        except OSError as e:
            col.inconclusive += 1
            col.bump('harness:materialise-oserror-%s' % type(e).__name__)
            return
        out = os.path.join(work, 'out.iso')
        rc, so, se = run_tool(geniso_argv(o, out, ROOTNAME), work)
        if rc is None:
            col.inconclusive += 1
            col.bump('harness:genisoimage-timeout')
            return
        if rc != 0:
            tb = traceback_signature(se)
            sig = 'C20/tool-exit/genisoimage/' + (tb if tb else 'exit-%d' % rc)
            fail(sig, 'both tools must exit 0', 'pycdlib-genisoimage exit %d\nstderr tail: %s\nstdout tail: %s'
                 % (rc, se[-700:], so[-300:]))
            return
        if stop_after_geniso:
            return
        with open(out, 'rb') as f:
            img = f.read()
        if only_view is None:
            check_image(case, a, img, fail)
        for v in a['want']:
            if image_only or (only_view and v != only_view):
                continue
            dest = os.path.join(work, 'x_' + v)
            os.mkdir(dest)
            rc, so, se = run_tool([PY, os.path.join(REPO, 'tools', 'pycdlib-extract-files'), '-path-type', v,
                                   '-extract-to', dest, out], work)
            if rc is None:
                col.inconclusive += 1
                col.bump('harness:extract-timeout')
                continue
            if rc != 0:
                tb = traceback_signature(se)
                sig = 'C20/tool-exit/extract-files/%s/%s' % (v, tb if tb else 'exit-%d' % rc)
                fail(sig, 'both tools must exit 0', 'pycdlib-extract-files -path-type %s exit %d\nstderr tail: %s\nstdout tail: %s'
                     % (v, rc, se[-700:], so[-200:]))
                continue
            compare_view(case, a, v, read_tree(dest), fail, col if record else None)
        if o['iso_extract'] and not image_only and only_view in (None, 'iso'):
            dest = os.path.join(work, 'x_iso')
            os.mkdir(dest)
            rc, so, se = run_tool([PY, os.path.join(REPO, 'tools', 'pycdlib-extract-files'), '-path-type', 'iso',
                                   '-extract-to', dest, out], work)
            if rc is None:
                col.inconclusive += 1
            elif rc != 0:
                tb = traceback_signature(se)
                fail('C20/tool-exit/extract-files/iso/%s' % (tb if tb else 'exit-%d' % rc), 'both tools must exit 0',
                     'pycdlib-extract-files -path-type iso exit %d\nstderr tail: %s' % (rc, se[-700:]))
            else:
                compare_iso_extract(a, img, read_tree(dest), fail)
    finally:
        shutil.rmtree(work, ignore_errors=True)


def dup_context(a, path):
    """Is `path` a file that -scan-for-duplicates may have linked to another one?"""
    o = a['opts']
    e = a['info'][path]['entry']
    if not o['dups'] or e['kind'] != 'file':
        return None
    b = content_bytes(e['content'])
    if a['dupcount'][b] > 1:
        return 'identical-contents'
    if 'hex' in e['content']:
        return 'murmur3-collision'
    if a['sizes'][len(b)] > 1:
        return 'same-size'
    return None


def node_eq(exp, got, mask=None):
    if exp[0] != got[0]:
        return False
    if exp[0] == 'file' and mask:
        lo, hi = mask
        return len(exp[1]) == len(got[1]) and exp[1][:lo] == got[1][:lo] and exp[1][hi:] == got[1][hi:]
    return exp == got


def compare_view(case, a, v, got, fail, col):
    o = a['opts']
    vw = a['views'][v]
    exp, hid, tol = vw['expected'], vw['hidden'], vw['tolerated']
    info = a['info']
    boot = o['boot']
    gotdirs = collections.defaultdict(set)
    for p in got:
        gotdirs[p.rpartition('/')[0]].add(p)
    extra = [p for p in got if p not in exp]
    # the boot catalogue: documented to be inserted into the output tree at the -c path
    if boot:
        cat = boot['catalog']
        cats = [p for p in extra if got[p][0] == 'file' and looks_like_boot_catalog(got[p][1])]
        if cat in cats:
            extra.remove(cat)
        else:
            others = [p for p in cats]
            for p in others:
                extra.remove(p)
            fail('C20/%s/boot-catalog/%s' % (v, 'misplaced' if others else 'missing'), 'same relative paths (boot catalog at the -c path)',
                 'view %s: boot catalog requested at %s, found at %s' % (v, short(cat), short(others)))
    # extras the documentation allows (measured, never failed)
    for p in list(extra):
        g = got[p]
        if p == 'rr_moved' and v == 'rockridge' and g[0] == 'dir' and p not in info and \
                any(i['deep'] and not i['excluded'] for i in info.values()):
            # documented: "It seems to be impossible to completely hide the RR_MOVED directory from the Rock Ridge tree"
            if col is not None:
                col.bump('measured:rockridge-rr_moved-visible')
            extra.remove(p)
        elif p in tol:
            r = 'symlink' if g[0] == 'symlink' else ('empty-file' if g == ('file', b'') else g[0])
            if r in tol[p]:
                if col is not None:
                    col.bump('measured:%s-symlink-as-%s' % (v, r))
                extra.remove(p)
    for p, node in sorted(exp.items()):
        i = info[p]
        kind = node[0]
        if p not in got:
            par = p.rpartition('/')[0]
            if par and par not in got:
                continue            # reported once, for the topmost missing directory
            if p in vw['optional']:
                if col is not None:
                    col.bump('measured:%s-entry-in-level-8-directory-dropped' % v)
                continue
            sibs_extra = [x for x in extra if x.rpartition('/')[0] == par and x not in info]
            what = 'name-altered' if sibs_extra else 'missing'
            q = qual(i['name'], kind == 'dir' and i['deep'])
            if kind == 'dir' and p not in a['has_children'] and q != 'deep':
                q = 'empty-dir'
            dc = dup_context(a, p)
            sig = 'C20/%s/%s/%s/%s' % (v, what, kind, q)
            if dc == 'identical-contents' and what == 'missing':
                sig += '/dup-linked'
            fail(sig, 'same relative paths', 'view %s: source %s %s is not in the extracted tree%s'
                 % (v, kind, short(p), ('; unexpected siblings: ' + short(sorted(sibs_extra)[:3])) if sibs_extra else ''))
            continue
        g = got[p]
        mask = (8, 64) if boot and boot.get('info_table') and p == boot['file'] else None
        if node_eq(node, g, mask):
            continue
        if v == 'udf' and kind == 'symlink' and g[0] == 'symlink' and udf_norm(g[1]) == udf_norm(node[1]):
            # ECMA-167 path components cannot carry a doubled or a trailing slash: 'sub/' comes back as 'sub', which leads to the same place
            continue
        if g[0] != kind:
            fail('C20/%s/kind-mismatch/%s-as-%s' % (v, kind, g[0]), 'same relative paths',
                 'view %s: %s is a %s in the source and a %s after extraction' % (v, short(p), kind, g[0]))
        elif kind == 'file':
            dc = dup_context(a, p)
            if dc:
                fail('C20/duplicates/content-changed/%s' % dc, 'duplicate-content linking never changes what any path reads',
                     'view %s: %s reads %d bytes %s, source has %d bytes %s (-scan-for-duplicates, %s)'
                     % (v, short(p), len(g[1]), short(g[1][:16]), len(node[1]), short(node[1][:16]), dc))
            else:
                fail('C20/%s/content-mismatch/%s' % (v, 'boot-file' if boot and p == boot['file'] else qual(i['name'])), 'same file contents',
                     'view %s: %s reads %d bytes %s, source has %d bytes %s'
                     % (v, short(p), len(g[1]), short(g[1][:16]), len(node[1]), short(node[1][:16])))
        elif kind == 'symlink':
            fail('C20/%s/symlink-target-mismatch/%s' % (v, target_class(node[1])), 'same symbolic links',
                 'view %s: symlink %s -> %s, source -> %s' % (v, short(p), short(g[1]), short(node[1])))
    for p in sorted(extra):
        g = got[p]
        par = p.rpartition('/')[0]
        if par and (par not in exp and par not in tol) and par in got and par != 'rr_moved':
            # below something already reported
            continue
        if p in hid:
            if hid[p] == 'below-hidden-dir':
                continue
            e = info[p]['entry']
            dc = dup_context(a, p) if e['kind'] == 'file' else None
            sig = 'C20/%s/hide-not-applied/%s' % (v, hid[p])
            if dc == 'identical-contents':
                sig += '/dup-linked'
            fail(sig, 'hide patterns (documented: hidden from the %s directory)' % v,
                 'view %s: %s %s matches a hide pattern but was extracted' % (v, e['kind'], short(p)))
            continue
        if p in info and info[p]['excluded']:
            fail('C20/%s/exclude-not-applied/%s' % (v, info[p]['entry']['kind']), 'exclude patterns',
                 'view %s: %s matches an exclude pattern but was extracted' % (v, short(p)))
            continue
        if p in info and info[p]['entry']['kind'] == 'symlink':
            fail('C20/%s/unexpected/symlink-rendered-as-%s' % (v, g[0]), 'same symbolic links',
                 'view %s: source symlink %s (not representable / not requested here) extracted as %s' % (v, short(p), g[0]))
            continue
        if p not in info and any(x.rpartition('/')[0] == par and x not in got for x in exp):
            continue                # the other half of a name-altered pair
        fail('C20/%s/unexpected/%s' % (v, g[0]), 'same relative paths',
             'view %s: extracted %s %s does not exist in the source tree' % (v, g[0], short(p)))
    if col is not None:
        for p in tol:
            if p not in got and v == 'joliet':
                col.bump('measured:joliet-symlink-as-absent')


def target_class(t):
    if len(t) > 150:
        return 'long'
    if any(ord(c) > 127 for c in t):
        return 'non-ascii'
    if t.startswith('/'):
        return 'absolute'
    return 'relative'


def check_image(case, a, img, fail):
    o = a['opts']
    level = o['iso_level']
    s = sniff(img)
    if s['pvd'] is None:
        fail('C20/extensions/no-primary-volume-descriptor', 'image structure', 'no PVD at sector 16..')
        return
    # "The extension and level options produce images with exactly those extensions"
    for name, have, want in (('joliet', s['joliet'], bool(o['joliet'])),
                             ('udf', s['udf'], bool(o['udf'])),
                             ('rockridge', s['rr_sp'] and s['rr_er'] is not None, bool(o['rr'])),
                             ('level4-enhanced-vd', s['enhanced'], level == 4),
                             ('eltorito', s['eltorito'], bool(o['boot']))):
        if have != want:
            fail('C20/extensions/%s/%s' % (name, 'missing' if want else 'unrequested'), 'exactly those extensions',
                 'image %s the %s structures (SP=%r ER=%r) but the option was %s'
                 % ('lacks' if want else 'carries', name, s['rr_sp'], s['rr_er'], 'given' if want else 'not given'))
    if o['rr'] and s['rr_sp'] != (s['rr_er'] is not None):
        fail('C20/extensions/rockridge/partial', 'exactly those extensions', 'SP=%r ER=%r' % (s['rr_sp'], s['rr_er']))
    if o['volid'] and s['pvd'][40:72] != o['volid'].encode().ljust(32):
        fail('C20/pvd/volid-mismatch', '-V', 'PVD volume id %r, -V %r' % (s['pvd'][40:72], o['volid']))
    # plain ISO9660 view
    dirs = walk_iso(img, s['pvd'])
    exp = a['views']['iso']['expected']
    info = a['info']
    want_files = collections.Counter(n[1] for n in exp.values() if n[0] == 'file')
    nsym = sum(1 for n in exp.values() if n[0] == 'symlink') + len(a['views']['iso']['tolerated'])
    got_files = collections.Counter()
    hidden_files = collections.Counter()
    hidden_dirs = 0
    boot = o['boot']
    masked_boot = None
    if boot and boot.get('info_table'):
        masked_boot = content_bytes({'seed': 999983, 'size': 2048})
    catalogs = 0
    for path, recs in dirs:
        seen = collections.Counter(r['ident'] for r in recs)
        dup = [i for i, n in seen.items() if n > 1]
        if dup:
            fail('C20/iso/duplicate-identifier', 'distinct identifier', 'ISO directory %s holds %s more than once' % (short(path), short(dup[0])))
        for r in recs:
            isdir = r['isdir'] or r['relocated']
            ok, why = legal_ident(r['ident'], level, isdir, bool(o['rr']))
            if ok is False:
                fail('C20/iso/illegal-identifier/level%d/%s/%s' % (level, 'dir' if isdir else 'file', why.replace(' ', '-')),
                     'legal identifier', 'ISO directory %s: identifier %s is not legal at level %d: %s' % (short(path), short(r['ident']), level, why))
            if r['relocated']:
                continue
            if r['isdir']:
                if r['flags'] & 1:
                    hidden_dirs += 1
                continue
            data = img[r['extent'] * SEC:r['extent'] * SEC + r['size']]
            if boot and looks_like_boot_catalog(data) and data not in want_files:
                catalogs += 1
                continue
            if masked_boot is not None and len(data) == 2048 and data[:8] == masked_boot[:8] and data[64:] == masked_boot[64:]:
                data = masked_boot
            got_files[data] += 1
            if r['flags'] & 1:
                hidden_files[data] += 1
    hid = a['views']['iso']['hidden']
    opt_dir = collections.Counter()      # files below a directory that matches -hide (documented: hidden)
    hid_self = collections.Counter()     # files that match -hide themselves
    for p, why in hid.items():
        e = info[p]['entry']
        if e['kind'] == 'file':
            (hid_self if why == 'file' else opt_dir)[content_bytes(e['content'])] += 1
    opt_files = collections.Counter(n[1] for p, n in exp.items() if n[0] == 'file' and p in a['views']['iso']['optional'])
    deep_files = collections.Counter(n[1] for p, n in exp.items() if n[0] == 'file' and info[p]['deep'] and not o['rr'])
    for b in set(want_files) | set(got_files):
        w, g = want_files[b], got_files[b]
        slack = nsym if b == b'' else 0
        if w - opt_files[b] <= g <= w + slack:
            continue
        if g > w and opt_dir[b] and g <= w + slack + opt_dir[b]:
            fail('C20/iso/hide-not-applied/below-hidden-dir', 'hide patterns (documented: the contents of a matching directory are hidden)',
                 'ISO view: %d file records hold content %s, %d expected; %d such files lie below a directory matching -hide %s'
                 % (g, short(b[:16]), w, opt_dir[b], short(o['hide'])))
            continue
        if g > w and hid_self[b] and g <= w + slack + opt_dir[b] + hid_self[b]:
            linked = o['dups'] and a['dupcount'][b] > 1
            fail('C20/iso/hide-not-applied/file' + ('/dup-linked' if linked else ''), 'hide patterns',
                 'ISO view: %d file records hold content %s, %d expected; %d such files match -hide %s'
                 % (g, short(b[:16]), w, hid_self[b], short(o['hide'])))
            continue
        if g < w and w - g <= deep_files[b]:
            fail('C20/iso/file-count/missing/below-deep-dir', 'every source file appears exactly once (level 4: nesting is not limited)',
                 'ISO view: content %s (%d bytes) is held by %d source files but by %d ISO file records; %d of them lie below a directory '
                 'nested deeper than 7' % (short(b[:16]), len(b), w, g, deep_files[b]))
            continue
        dc = None
        if o['dups']:
            dc = 'murmur3-collision' if b in (COLL_A, COLL_B) else ('same-size' if a['sizes'][len(b)] > 1 else None)
        if dc and b in want_files:
            fail('C20/duplicates/content-changed/%s' % dc, 'duplicate-content linking never changes what any path reads',
                 'ISO view: content %s (%d bytes) is held by %d source files but read from %d ISO records' % (short(b[:16]), len(b), w, g))
        else:
            kind = 'empty' if b == b'' else 'data'
            fail('C20/iso/file-count/%s/%s' % ('missing' if g < w else 'extra', kind), 'every source file appears exactly once',
                 'ISO view: content %s (%d bytes) is held by %d source files but by %d ISO file records' % (short(b[:16]), len(b), w, g))
    if boot and catalogs != 1:
        fail('C20/iso/boot-catalog-count', 'El Torito', 'ISO view holds %d boot catalog files, expected 1' % catalogs)
    # -hidden: existence bit on matching files and directories (counted; no name mapping needed)
    pats = o['hidden']
    want_hidden = collections.Counter()
    want_hidden_dirs = 0
    for p, n in exp.items():
        if fnmatch_any(pats, info[p]['name']):
            if n[0] == 'file':
                want_hidden[n[1]] += 1
            elif n[0] == 'dir':
                want_hidden_dirs += 1
    sym_hidden = sum(1 for p, n in exp.items() if n[0] == 'symlink' and fnmatch_any(pats, info[p]['name']))
    sym_hidden += sum(1 for p in a['views']['iso']['tolerated'] if fnmatch_any(pats, info[p]['name']))
    opt_hidden_dirs = sum(1 for p, why in hid.items() if info[p]['entry']['kind'] == 'dir' and fnmatch_any(pats, info[p]['name']))
    opt_hidden_files = collections.Counter()
    for p, why in hid.items():
        if info[p]['entry']['kind'] == 'file' and fnmatch_any(pats, info[p]['name']):
            opt_hidden_files[content_bytes(info[p]['entry']['content'])] += 1
    for b in set(want_hidden) | set(hidden_files):
        w, g = want_hidden[b], hidden_files[b]
        if w <= g <= w + (sym_hidden if b == b'' else 0) + opt_hidden_files[b]:
            continue
        if got_files[b] == want_files[b]:
            fail('C20/iso/hidden-flag/%s' % ('missing' if g < w else 'unrequested'), '-hidden sets the existence bit on matching entries',
                 'ISO view: %d file records with content %s carry the hidden bit, %d source files match -hidden %s'
                 % (g, short(b[:12]), w, short(pats)))
    if not want_hidden_dirs <= hidden_dirs <= want_hidden_dirs + opt_hidden_dirs:
        fail('C20/iso/hidden-flag/dir-%s' % ('missing' if hidden_dirs < want_hidden_dirs else 'unrequested'),
             '-hidden sets the existence bit on matching entries',
             'ISO view: %d directory records carry the hidden bit, %d source directories match -hidden %s' % (hidden_dirs, want_hidden_dirs, short(pats)))
    # El Torito: initial entry describes the boot file
    if boot and s['eltorito'] and s['boot_catalog_lba']:
        cat = img[s['boot_catalog_lba'] * SEC:(s['boot_catalog_lba'] + 1) * SEC]
        if not looks_like_boot_catalog(cat):
            fail('C20/boot/catalog-invalid', 'El Torito', 'boot record points at sector %d which is no boot catalog' % s['boot_catalog_lba'])
        else:
            ind, media, seg, _st, _u, count, lba = struct.unpack_from('<BBHBBHL', cat, 32)
            bf = content_bytes({'seed': 999983, 'size': 2048})
            data = img[lba * SEC:lba * SEC + 2048]
            if ind != 0x88 or media != 0:
                fail('C20/boot/initial-entry', '-b -no-emul-boot', 'initial entry: indicator %#x media %d' % (ind, media))
            if data[:8] != bf[:8] or data[64:] != bf[64:] or (not boot.get('info_table') and data != bf):
                fail('C20/boot/initial-entry-lba', '-b', 'initial entry LBA %d does not hold the boot file' % lba)
            wantc = boot['load_size'] if boot.get('load_size') is not None else 4
            if count != wantc:
                fail('C20/boot/load-size/%s' % ('default' if boot.get('load_size') is None else 'explicit'),
                     '-boot-load-size (default: load the entire boot file)',
                     'initial entry sector count %d, expected %d (boot file is 2048 bytes = 4 virtual sectors; -boot-load-size %r)'
                     % (count, wantc, boot.get('load_size')))
            if boot.get('info_table'):
                pv, fl, ln, ck = struct.unpack_from('<LLLL', data, 8)
                words = struct.unpack_from('<%dL' % ((2048 - 64) // 4), bf, 64)
                if (pv, fl, ln, ck) != (16, lba, 2048, sum(words) & _M) or data[24:64] != bytes(40):
                    fail('C20/boot/info-table', '-boot-info-table', 'table pvd=%d lba=%d len=%d csum=%#x, expected 16 %d 2048 %#x'
                         % (pv, fl, ln, ck, lba, sum(words) & _M))
            elif data[8:64] != bf[8:64]:
                fail('C20/boot/info-table-unrequested', '-boot-info-table', 'boot file bytes 8..63 altered without -boot-info-table')


def compare_iso_extract(a, img, got, fail):
    s = sniff(img)
    if s['pvd'] is None:
        return
    want = {}
    placeholders = set()
    for path, recs in walk_iso(img, s['pvd']):
        for r in recs:
            p = (path.rstrip('/') + '/' + r['ident'].decode('utf-8', 'surrogateescape')).lstrip('/')
            want[p] = ('dir',) if r['isdir'] else ('file', img[r['extent'] * SEC:r['extent'] * SEC + r['size']])
            if r['relocated']:
                placeholders.add(p)
    for p, n in sorted(want.items()):
        if p in placeholders:
            continue    # placeholder of a relocated directory (the directory itself is below RR_MOVED): silent
        if p not in got:
            fail('C20/iso-extract/missing/%s' % n[0], 'extract-files -path-type iso shows the ISO9660 view',
                 'ISO record %s (%s) was not extracted' % (short(p), n[0]))
        elif n == ('file', b'') and got[p][0] == 'symlink' and a['opts']['rr']:
            continue        # a Rock Ridge symlink extracted as a symlink: the statement is silent, tolerated
        elif got[p][0] != n[0] or (n[0] == 'file' and got[p][1] != n[1]):
            fail('C20/iso-extract/mismatch/%s' % n[0], 'extract-files -path-type iso shows the ISO9660 view',
                 'ISO record %s extracted as %s with different content' % (short(p), got[p][0]))
    for p in sorted(got):
        if p not in want and p not in placeholders:
            fail('C20/iso-extract/unexpected/%s' % got[p][0], 'extract-files -path-type iso shows the ISO9660 view',
                 'extracted %s has no ISO record' % short(p))


# ----------------------------------------------------------------------------------------
# campaign interface

def shard(seed, tier, shard_no, nshards):
    col = Collector()
    n = CASES[tier]

    seen = set()

    # Hypothesis repeats (mostly its simplest) examples; every execution costs up to five
    # subprocesses, so repeats are skipped and generation continues until n distinct cases ran.
    @hseed(seed * 64 + shard_no)
    @settings(max_examples=4 * n, database=None, deadline=None, phases=[Phase.generate],
              suppress_health_check=list(HealthCheck), report_multiple_bugs=False)
    @given(draw_st)
    def t(d):
        if len(seen) >= n:
            return
        case, avoided = build_case(d)
        h = case_hash(case)
        if h in seen:
            col.bump('generator:repeated-draw-skipped')
            return
        seen.add(h)
        for k, v in avoided.items():
            col.bump(k, v)
        run_case(case, col)

    try:
        t()
    finally:
        _cleanup_pid_dir()
    return col.result()


def replay(case, col):
    try:
        run_case(case, col)
    finally:
        _cleanup_pid_dir()


def _prune(tree, opts):
    """Keep the tree closed under 'parent directory exists' and keep the boot file."""
    dirs = {e['path'] for e in tree if e['kind'] == 'dir'}
    out = []
    for e in sorted(tree, key=lambda e: e['path'].count('/')):
        par = e['path'].rpartition('/')[0]
        if par and par not in dirs:
            if e['kind'] == 'dir':
                dirs.discard(e['path'])
            continue
        out.append(e)
    # removing a directory may orphan deeper ones: iterate to a fixpoint
    if len(out) != len(tree):
        return _prune(out, opts)
    return out


_SHRINK_TRIALS_LEFT = [1280]      # per process: a first run on a defective tree may meet dozens of signatures


def shrink(case, sig, budget=64, threads=16):
    """Greedy delta debugging over tree entries (chunks of every size) and options.  Every
    trial costs subprocess time, so the number of trials is bounded and the candidates of a
    round are evaluated concurrently (the work is in child processes)."""
    from concurrent.futures import ThreadPoolExecutor
    left = [min(budget, _SHRINK_TRIALS_LEFT[0])]
    _SHRINK_TRIALS_LEFT[0] -= left[0]
    if left[0] <= 0:
        return None

    def holds(c):
        if c['options'].get('boot') and not any(e['path'] == c['options']['boot']['file'] for e in c['tree']):
            return False
        if not c['tree']:
            return False
        col = Collector()
        run_case(c, col, focus=sig, record=False)
        return sig in col.failures

    def candidates(cur):
        o = cur['options']
        out = []
        for k, off in (('boot', None), ('udf', False), ('joliet', False), ('rr', None), ('dups', False), ('hide', []),
                       ('hide_joliet', []), ('hide_udf', []), ('hidden', []), ('exclude', []), ('exclude_old', []),
                       ('volid', ''), ('iso_extract', False)):
            if o.get(k) in (off, None, False, [], ''):
                continue
            t = {'tree': cur['tree'], 'options': dict(o, **{k: off})}
            if k == 'boot':
                t['tree'] = [e for e in cur['tree'] if e['path'] != o['boot']['file']]
            out.append(t)
        tree = cur['tree']
        n = len(tree)
        chunk = n // 2
        seen = set()
        while chunk >= 1:
            for i in range(0, n, chunk):
                cand = _prune(tree[:i] + tree[i + chunk:], o)
                key = canon(cand)
                if cand and len(cand) < n and key not in seen:
                    seen.add(key)
                    out.append({'tree': cand, 'options': o})
            chunk //= 2
        small = [dict(e, content={'seed': e['content']['seed'], 'size': 5})
                 if e['kind'] == 'file' and 'hex' not in e['content'] and e['content']['size'] > 8 and not e['content'].get('flip')
                 and not (o.get('boot') and e['path'] == o['boot']['file']) else e for e in tree]
        if small != tree:
            out.append({'tree': small, 'options': o})
        if o.get('iso_level', 1) != 1:
            out.append({'tree': tree, 'options': dict(o, iso_level=1)})
        out.sort(key=lambda c: len(canon(c)))
        return out

    try:
        with ThreadPoolExecutor(threads) as pool:
            if not holds(case):
                return None
            cur = {'tree': list(case['tree']), 'options': dict(case['options'])}
            while left[0] > 0:
                cands = candidates(cur)[:left[0]]
                if not cands:
                    break
                left[0] -= len(cands)
                verdicts = list(pool.map(holds, cands))
                good = [c for c, ok in zip(cands, verdicts) if ok]
                if not good:
                    break
                cur = good[0]       # the smallest candidate that still shows the signature
            return cur
    finally:
        _cleanup_pid_dir()
