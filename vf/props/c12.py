"""C12 Hybrid (MBR/GPT/APM) boot data is consistent with the image it describes.

G: hybrid profile: geometry sectors 1..63 x heads 1..256 (small geometries reach > 1024
   cylinders with small images), partition entry 1..4, offset, type, mbr id, efi/mac combinations
   with 0xef El Torito entries of different sizes, edits that move the boot files after
   add_isohybrid, both consistency modes, optional reopen.
O: vf.indep.hybrid (no pycdlib code) against facts taken from the independent ISO9660/El Torito
   reader and the reference model: 0x55AA; exactly one active partition, the requested entry; its
   CHS/LBA fields consistent with the geometry and covering the cylinder-padded image; boot file
   address == 4 * boot file sector; mbr id / partition type as requested; image padded to whole
   cylinders; with efi/mac: GPT header and array CRCs, primary/backup mirror, EFI/Mac partitions
   delimiting exactly the El Torito images, APM entries; and the bytes from 32 KiB to the end of the
   ISO9660 volume equal the non-hybrid image of the same history.
"""
from hypothesis import strategies as st

from vf import shim, gen
from vf.engine import Run
from vf.indep import iso9660, hybrid as ihyb
from vf.indep.image import Image
from vf.propbase import EngineProperty
from vf.props.c05 import first_diff, region

ID = 'C12'
LEVEL = 'exploration'
RULE = ('images = final write of generated programs from the hybrid profile (2048-byte isolinux-signature boot file as initial entry, 0-2 EFI entries, add_isohybrid with drawn '
        'geometry / partition entry / offset / type / mbr id / efi / mac, then edits). Non-trivial = geometry differs from 32x64, or a partition offset/entry != default, '
        'or efi/mac requested, or an edit after add_isohybrid moved the boot file, or > 1024 cylinders. Distinct = distinct canonical program JSON.')
ASSUMPTIONS = [
    'the hybrid decoder (vf/indep/hybrid.py) follows syslinux isohybrid.c and the UEFI GPT layout; validated by its own image-mutation self-test',
    'facts (ISO size, boot file sector, El Torito EFI/Mac image ranges) come from the independent ISO9660/El Torito reader, request parameters from the reference model',
    'programs in which add_isohybrid is refused or skipped are counted as trivial',
]
SHARDS = {'quick': 16, 'thorough': 16}
CASES = {'quick': 110, 'thorough': 4000}


def strategy(tier):
    def own(p):
        # the GPT/APM family is this property's own business: never steer around it here
        return dict(p, profile='hybrid', avoid=[a for a in p.get('avoid', []) if a != 'hybrid-gpt'])
    return st.tuples(st.one_of(gen.hybrid(reopen_ok=False), gen.hybrid(reopen_ok=False), gen.hybrid(reopen_ok=True)).map(own), st.none())


def oracle(program, aux):
    shim.install('UTC')
    failures = []
    run = Run(program)
    run.run_all()
    run.stats = {'c01_domain': 0, 'not_hybrid': 0}
    for pr in run.problems:
        if '/accepted-but-must-refuse/isohybrid-present' in pr.sig:
            # a hybrid boot sector without the El Torito entries it describes cannot be "a boot-file address equal to four
            # times the boot file's sector"
            failures.append(('C12/' + pr.sig, 'mbr', 'step %d: %s' % (pr.step, pr.msg)))
    img = None if (run.dead or run.problems) else run.write()
    if img is None:
        run.stats['c01_domain'] += 1
        run.close()
        return run, failures
    m = run.model
    hy = m.hybrid
    if hy is None or m.boot is None:
        run.stats['not_hybrid'] += 1
        h = ihyb.read_hybrid(Image(img))
        if h is not None and m.hybrid is None and any(p['status'] == 0x80 for p in h['mbr']['parts']):
            failures.append(('C12/hybrid-mbr-on-non-hybrid-image', 'rm_isohybrid', 'the image has an active MBR partition although isohybrid was not requested / was removed'))
        run.close()
        return run, failures
    info = iso9660.read_iso(img)
    el = info.get('eltorito') or {}
    vol = info.get('volume_size') or 0
    if 'initial' not in el or not vol:
        run.stats['c01_domain'] += 1
        run.close()
        return run, failures
    efi = bool(hy.get('efi')) or bool(hy.get('mac'))
    mac = bool(hy.get('mac'))
    ef_entries = []
    got = [el['initial']] + [e for s in el.get('sections', []) for e in s['entries']]
    plats = [el['validation']['platform']] + [s['platform'] for s in el.get('sections', []) for _ in s['entries']]
    for g, pl, w in zip(got, plats, m.boot['entries']):
        if pl == 0xef:
            b = m.blobs.get(w['blob'])
            ef_entries.append((g['rba'], g['sector_count']))
    kw = dict(iso_sectors=vol, boot_file_sector=el['initial']['rba'], geometry_sectors=hy['geometry_sectors'], geometry_heads=hy['geometry_heads'],
              part_entry=hy['part_entry'], part_offset=hy['part_offset'], efi=efi, mac=mac)
    if hy.get('mbr_id') is not None:
        kw['mbr_id'] = hy['mbr_id']
    pt = hy.get('part_type')
    kw['part_type'] = pt if pt is not None else (0 if efi else 0x17)
    if efi and ef_entries:
        kw['efi_image'] = ef_entries[0]
    if mac and len(ef_entries) > 1:
        kw['mac_image'] = ef_entries[1]
    image = Image(img)
    h = ihyb.read_hybrid(image)
    run.hinfo = h
    if h is None:
        failures.append(('C12/no-hybrid-mbr', 'mbr-signature', 'add_isohybrid was applied but the system area holds no MBR'))
        run.close()
        return run, failures
    fs = ihyb.validate_hybrid(image, h, **kw)
    if efi and len(ef_entries) > 1:
        # Interpretation: which of several 0xef images is "the EFI one" (and which "the Mac one") is not
        # stated (the library takes them in layout order, not catalogue order); any assignment of distinct
        # 0xef El Torito images that the partitions delimit exactly is accepted.
        import itertools
        for a_, b_ in itertools.permutations(range(len(ef_entries)), 2):
            kw2 = dict(kw, efi_image=ef_entries[a_])
            if mac:
                kw2['mac_image'] = ef_entries[b_]
            fs2 = ihyb.validate_hybrid(image, h, **kw2)
            if len(fs2) < len(fs):
                fs = fs2
    gpt = 'gpt' if efi else 'mbr-only'
    for clause, msg in fs:
        failures.append(('C12/%s/%s' % (clause, gpt), clause, msg[:400]))
    # otherwise an unchanged, valid ISO: differential against the same history without add_isohybrid
    # (calls that had to be refused because of the hybridization - rm_eltorito - are left out as well)
    gone = set(run.ops[i].get('n') for i in run.expected_refusals)
    plain = dict(program, ops=[o for o in program['ops'] if o['k'] not in ('add_hybrid', 'rm_hybrid') and o.get('n') not in gone])
    r2 = Run(plain)
    r2.run_all()
    img2 = None if (r2.dead or r2.problems) else r2.write()
    r2.close()
    if img2 is not None:
        a, b = img[32768:vol * 2048], img2[32768:]
        if efi:
            # the backup GPT legitimately lives in the padding; compare the ISO9660 volume only
            pass
        off = first_diff(a, b)
        if off is not None:
            reg = region(img, 32768 + off) if 32768 + off < len(img) else 'past-end'
            failures.append(('C12/iso-part-differs-from-non-hybrid/%s/%s' % (reg, gpt), 'unchanged-iso',
                             'bytes from 32 KiB on differ from the non-hybrid image of the same history at volume offset %d (sector %d, %s); lengths %d vs %d'
                             % (32768 + off, (32768 + off) // 2048, reg, len(a), len(b))))
    for clause, msg in info['findings']:
        if clause in ('vd-terminator', 'both-endian', 'dir-dot', 'dir-dotdot', 'pt-content', 'pt-order', 'pt-extent', 'unreadable', 'dir-record-packing'):
            failures.append(('C12/iso-invalid/%s' % clause, 'valid-iso', msg[:300]))
    run.close()
    return run, failures


def extra_classes(run):
    cl = set()
    hy = run.model.hybrid
    if not hy:
        return cl
    if (hy['geometry_sectors'], hy['geometry_heads']) != (32, 64):
        cl.add('non-default-geometry')
    if hy['part_offset'] or hy['part_entry'] != 1:
        cl.add('non-default-partition')
    if hy.get('efi') or hy.get('mac'):
        cl.add('efi-or-mac')
    h = getattr(run, 'hinfo', None)
    ops = run.program['ops']
    idx = [i for i, o in enumerate(ops) if o['k'] == 'add_hybrid']
    if idx and any(i > idx[0] and ops[i]['k'] in ('add_fp', 'add_dir', 'rm_file', 'add_link') for i in run.applied):
        cl.add('edit-after-add_isohybrid')
    return cl


def nontrivial(run, cl):
    return run.model.hybrid is not None and bool(cl & {'non-default-geometry', 'non-default-partition', 'efi-or-mac', 'edit-after-add_isohybrid'}) and not run.stats.get('c01_domain')


PROP = EngineProperty(ID, oracle, nontrivial, extra_classes)
shard = PROP.shard_fn(strategy, CASES)
replay = PROP.replay
shrink = PROP.shrink
