"""C19 Recorded timestamps denote the instant they were made from.

G: (zone, instant) pairs.  Zones are POSIX TZ strings built from every quarter-hour
   offset -12:00..+14:00 with/without a DST rule, and the named zones of the system
   tzdata; instants are integers (plus a fractional part) in 1970..2099 with boundary
   bias (year ends, leap days, DST transitions of the drawn zone found by bisection).
O: independent decode of the recorded bytes: timegm(local fields) - offset == floor(t),
   for DirectoryRecordDate, VolumeDescriptorDate, RRTFRecord (7 and 17 byte forms) and
   UDFTimestamp; parse-then-record identity; whole-image form (PVD dates, root record
   date, RR TF of the root '.', UDF file entry times).
"""
import calendar
import io
import math
import os
import struct
import time
import zoneinfo

from hypothesis import given, settings, seed as hseed, strategies as st, HealthCheck, Phase

from vf import shim
from vf.runner import Collector, exc_signature

ID = 'C19'
LEVEL = 'exploration'
RULE = ('cases = (TZ setting, instant in 1970..2099) drawn by Hypothesis; zones are POSIX strings for every '
        'quarter-hour offset -12:00..+14:00 with/without DST rules plus tzdata names; instants are biased to '
        'year ends, leap days and the DST transitions of the drawn zone (found by bisection). Non-trivial = '
        'zone offset at the instant != 0, or local calendar date != UTC date, or instant within 1 h of an '
        'offset change. Distinct = distinct (zone, instant) pairs.')
ASSUMPTIONS = [
    'time.localtime/gmtime of the C library are correct (used only to learn the true UTC offset of a zone)',
    'zones whose offset at the drawn instant is not a multiple of 15 minutes are skipped and counted (statement excludes them)',
    'VolumeDescriptorDate.new(0.0) is the documented "not specified" sentinel and is excluded',
]
SHARDS = {'quick': 16, 'thorough': 16}
CASES = {'quick': 8000, 'thorough': 150000}
IMAGE_EVERY = {'quick': 10, 'thorough': 10}

T_MAX = 4102444799  # 2099-12-31 23:59:59 UTC
_ZONES = sorted(z for z in zoneinfo.available_timezones() if not z.startswith(('posix/', 'right/', 'Etc/')) and z not in ('localtime', 'Factory'))


def posix_zone(q, dst, south, dst_extra_q, rule):
    """q = UTC offset east in quarter hours.  POSIX sign is west-positive."""
    def fmt(qq):
        sign = '-' if qq > 0 else ('+' if qq < 0 else '')
        a = abs(qq)
        return '%s%d:%02d' % (sign, a // 4, (a % 4) * 15) if a % 4 else '%s%d' % (sign, a // 4)
    s = 'VST' + fmt(q)
    if dst:
        s += 'VDT'
        if dst_extra_q != 4:
            s += fmt(q + dst_extra_q)
        rules = [('M3.2.0', 'M11.1.0'), ('M3.5.0/1', 'M10.5.0/2'), ('M4.1.0/3', 'M9.4.6/0'), ('J60/2', 'J300/2')][rule]
        a, b = rules
        if south:
            a, b = b, a
        s += ',%s,%s' % (a, b)
    return s


zone_st = st.one_of(
    st.builds(posix_zone, st.integers(-48, 56), st.booleans(), st.booleans(), st.sampled_from([4, 4, 2, 8]), st.integers(0, 3)),
    st.sampled_from(_ZONES) if _ZONES else st.just('UTC'),
    st.sampled_from(['UTC', 'Asia/Kolkata', 'Asia/Kathmandu', 'Australia/Lord_Howe', 'Pacific/Chatham', 'Pacific/Kiritimati',
                     'America/St_Johns', 'Pacific/Apia', 'Asia/Tehran', 'Europe/London', 'America/New_York', 'Australia/Adelaide']),
)

instant_st = st.one_of(
    st.tuples(st.just('raw'), st.integers(1, T_MAX), st.integers(0, 999)),
    st.tuples(st.just('year'), st.integers(1970, 2099), st.integers(-50400 - 3, 50400 + 3)),
    st.tuples(st.just('leap'), st.integers(1970, 2099), st.integers(-90000, 180000)),
    st.tuples(st.just('dst'), st.integers(1970, 2099), st.integers(0, 1), st.integers(-3700, 3700)),
    st.tuples(st.just('edge'), st.sampled_from([1, 2, 59, 60, 86399, 86400, T_MAX, T_MAX - 1, 2**31 - 1, 2**31, 2**31 + 1, 951782400, 951868800])),
)

case_st = st.tuples(zone_st, instant_st)


def utcoff(t):
    lt = time.localtime(t)
    return calendar.timegm(lt[:6]) - int(math.floor(t))


def find_transition(year, which):
    """Bisect for the which-th UTC-offset change inside `year` under the current TZ."""
    lo = calendar.timegm((year, 1, 1, 0, 0, 0))
    hi = calendar.timegm((year + 1, 1, 1, 0, 0, 0))
    # sample month by month to find intervals where the offset changes
    pts = [lo + i * (hi - lo) // 24 for i in range(25)]
    offs = [utcoff(p) for p in pts]
    changes = [(pts[i], pts[i + 1]) for i in range(24) if offs[i] != offs[i + 1]]
    if not changes:
        return None
    a, b = changes[which % len(changes)]
    oa = utcoff(a)
    while b - a > 1:
        m = (a + b) // 2
        if utcoff(m) == oa:
            a = m
        else:
            b = m
    return b


def resolve_instant(spec):
    kind = spec[0]
    if kind == 'raw':
        return spec[1] + spec[2] / 1000.0
    if kind == 'year':
        return calendar.timegm((spec[1], 1, 1, 0, 0, 0)) + spec[2]
    if kind == 'leap':
        return calendar.timegm((spec[1], 2, 28, 0, 0, 0)) + spec[2]
    if kind == 'dst':
        tr = find_transition(spec[1], spec[2])
        if tr is None:
            return calendar.timegm((spec[1], 7, 1, 12, 0, 0)) + spec[3]
        return tr + spec[3]
    return spec[1]


def dec_dr7(b):
    y, mo, d, h, mi, s, off = struct.unpack('=BBBBBBb', b)
    return calendar.timegm((1900 + y, mo, d, h, mi, s)) - off * 900, off * 900


def dec_vd17(b):
    txt = b[:16].decode('ascii')
    y, mo, d, h, mi, s, hs = int(txt[0:4]), int(txt[4:6]), int(txt[6:8]), int(txt[8:10]), int(txt[10:12]), int(txt[12:14]), int(txt[14:16])
    off, = struct.unpack('=b', b[16:17])
    if not (1 <= mo <= 12 and 1 <= d <= 31 and h < 24 and mi < 60 and s < 60 and hs < 100):
        raise ValueError('field out of range in %r' % (b,))
    return calendar.timegm((y, mo, d, h, mi, s)) - off * 900, off * 900


def dec_udf(b):
    tt, y, mo, d, h, mi, s, cs, hus, us = struct.unpack('<HhBBBBBBBB', b)
    typ = tt >> 12
    tz = tt & 0xfff
    if tz & 0x800:
        tz -= 0x1000
    if typ != 1:
        raise ValueError('UDF timestamp type %d, expected 1 (local time)' % typ)
    if tz == -2047:
        raise ValueError('UDF timestamp carries no offset')
    return calendar.timegm((y, mo, d, h, mi, s)) - tz * 60, tz * 60


def check_one(zone, t, col, case, with_image):
    import pycdlib
    from pycdlib import dates, rockridge, udf
    want = int(math.floor(t))
    shim.set_tz(zone)
    true_off = utcoff(t)

    def verdict(name, fn):
        try:
            got, off = fn()
        except Exception as e:  # decoding/recording blew up
            col.fail('C19/%s/exception/%s' % (name, exc_signature(e)), name, '%s: %r zone=%s t=%r' % (name, e, zone, t), case)
            return
        if got != want:
            col.fail('C19/%s/wrong-instant' % name, name,
                     '%s: decoded %d, expected %d (diff %d s); recorded offset %d s, true offset %d s; TZ=%s t=%r'
                     % (name, got, want, got - want, off, true_off, zone, t), case)

    def dr7():
        d = dates.DirectoryRecordDate(); d.new(t); b = d.record()
        p = dates.DirectoryRecordDate(); p.parse(b)
        if p.record() != b:
            raise AssertionError('parse/record not identity')
        return dec_dr7(b)

    def vd17():
        d = dates.VolumeDescriptorDate(); d.new(t); b = d.record()
        p = dates.VolumeDescriptorDate(); p.parse(b)
        if p.record() != b:
            raise AssertionError('parse/record not identity: %r -> %r' % (b, p.record()))
        return dec_vd17(b)

    def tf(flags, longform):
        def run():
            r = rockridge.RRTFRecord(); r.new(flags | (0x80 if longform else 0), t); b = r.record()
            p = rockridge.RRTFRecord(); p.parse(b)
            if p.record() != b:
                raise AssertionError('parse/record not identity')
            if b[:2] != b'TF' or b[2] != len(b):
                raise AssertionError('bad TF header')
            n = bin(flags & 0x7f).count('1')
            sz = 17 if longform else 7
            if len(b) != 5 + n * sz:
                raise AssertionError('TF length %d for %d stamps' % (len(b), n))
            res = None
            for i in range(n):
                chunk = b[5 + i * sz: 5 + (i + 1) * sz]
                res = dec_vd17(chunk) if longform else dec_dr7(chunk)
                if res[0] != want:
                    return res
            return res
        return run

    def udfts():
        d = udf.UDFTimestamp(); d.new(t); b = d.record()
        p = udf.UDFTimestamp(); p.parse(b)
        if p.record() != b:
            raise AssertionError('parse/record not identity')
        return dec_udf(b)

    def enc7(inst, off15):
        tm = time.gmtime(inst + off15 * 900)
        return struct.pack('=BBBBBBb', tm.tm_year - 1900, tm.tm_mon, tm.tm_mday, tm.tm_hour, tm.tm_min, tm.tm_sec, off15)

    def enc17(inst, off15, hs):
        tm = time.gmtime(inst + off15 * 900)
        return ('%04d%02d%02d%02d%02d%02d%02d' % (tm.tm_year, tm.tm_mon, tm.tm_mday, tm.tm_hour, tm.tm_min, tm.tm_sec, hs)).encode() + struct.pack('=b', off15)

    def tf_foreign(longform):
        # a TF entry as another tool recorded it: any subset of the seven stamps, every stamp a *different* instant and
        # its own offset; parsing and re-recording has to give the same bytes, so every stamp stays in its slot
        def run():
            h = (want * 2654435761 + (17 if longform else 7)) & 0xffffffff
            flags = (h >> 5) & 0x7f or 0x06
            slots = [i for i in range(7) if flags & (1 << i)]
            parts = []
            insts = []
            for k, i in enumerate(slots):
                inst = want + (k * 86461 + i * 3607) % 40000000
                off15 = ((h >> (3 * k)) % 105) - 48
                insts.append(inst)
                parts.append(enc17(inst, off15, (h >> k) % 100) if longform else enc7(inst, off15))
            b = b'TF' + bytes([5 + len(b''.join(parts)), 1, flags | (0x80 if longform else 0)]) + b''.join(parts)
            p = rockridge.RRTFRecord(); p.parse(b)
            out = p.record()
            if out != b:
                sz = 17 if longform else 7
                moved = [k for k in range(len(slots)) if out[5 + k * sz:5 + (k + 1) * sz] != parts[k]]
                raise AssertionError('a parsed TF entry with flags %#x is re-recorded differently (stamps %s of %d changed)' % (flags, moved, len(slots)))
            return want, 0
        return run

    verdict('dirrecord-date', dr7)
    verdict('voldesc-date', vd17)
    verdict('rr-tf-foreign-7', tf_foreign(False))
    verdict('rr-tf-foreign-17', tf_foreign(True))
    verdict('rr-tf-7', tf(0x0e, False))
    verdict('rr-tf-17', tf(0x0e, True))
    verdict('udf-timestamp', udfts)

    if with_image:
        def image():
            shim.set_now(t)
            shim.reset(0)
            iso = pycdlib.PyCdlib()
            iso.new(interchange_level=3, rock_ridge='1.09', udf='2.60', joliet=3)
            iso.add_fp(io.BytesIO(b'x'), 1, '/A.;1', rr_name='a', joliet_path='/a', udf_path='/a')
            out = io.BytesIO()
            iso.write_fp(out)
            iso.close()
            img = out.getvalue()
            pvd = img[16 * 2048:17 * 2048]
            results = []
            results.append(('pvd-creation', dec_vd17(pvd[813:830])))
            results.append(('pvd-modification', dec_vd17(pvd[830:847])))
            results.append(('pvd-effective', dec_vd17(pvd[864:881])))
            results.append(('root-record', dec_dr7(pvd[156 + 18:156 + 25])))
            root_ext, = struct.unpack_from('<L', pvd, 156 + 2)
            rootdir = img[root_ext * 2048:(root_ext + 1) * 2048]
            # "." record: find its TF in the system use area
            ln = rootdir[0]
            rec = rootdir[:ln]
            results.append(('dot-record', dec_dr7(rec[18:25])))
            su = rec[33 + rec[32] + (1 - rec[32] % 2):]
            i = 0
            while i + 4 <= len(su):
                sig = su[i:i + 2]
                l = su[i + 2]
                if l < 4:
                    break
                if sig == b'TF':
                    flags = su[i + 4]
                    n = bin(flags & 0x7f).count('1')
                    sz = 17 if flags & 0x80 else 7
                    for k in range(n):
                        ch = su[i + 5 + k * sz:i + 5 + (k + 1) * sz]
                        results.append(('dot-TF%d' % k, dec_vd17(ch) if sz == 17 else dec_dr7(ch)))
                i += l
            # UDF: walk sectors for File Entry tags (261) and read their three timestamps
            nfe = 0
            for sec in range(257, len(img) // 2048):
                s = img[sec * 2048:(sec + 1) * 2048]
                tag, = struct.unpack_from('<H', s, 0)
                if tag == 261 and sum(s[:4] + s[5:16]) % 256 == s[4]:
                    for k, off in enumerate((72, 84, 96)):
                        results.append(('udf-fe%d-ts%d' % (nfe, k), dec_udf(s[off:off + 12])))
                    nfe += 1
            if nfe < 2:
                raise AssertionError('expected >= 2 UDF file entries in the image, found %d' % nfe)
            for name, (got, off) in results:
                if got != want:
                    raise AssertionError('image field %s decodes to %d, expected %d (offset %d, true %d)' % (name, got, want, off, true_off))
            return want, true_off
        try:
            image()
        except AssertionError as e:
            fld = str(e).split()[2] if str(e).startswith('image field') else 'structure'
            fld = ''.join(c for c in fld if not c.isdigit())
            col.fail('C19/image/%s' % fld, 'image', '%s; TZ=%s t=%r' % (e, zone, t), case)
        except Exception as e:
            col.fail('C19/image/exception/%s' % exc_signature(e), 'image', '%r; TZ=%s t=%r' % (e, zone, t), case)
        finally:
            shim.set_now(shim.DEFAULT_NOW)


def run_case(case, col, with_image=True):
    zone, spec = case
    zone = str(zone)
    shim.set_tz(zone)
    t = resolve_instant(tuple(spec))
    if t < 1 or t > T_MAX:
        col.bump('skipped-out-of-range')
        return
    off = utcoff(t)
    if off % 900 != 0:
        col.bump('skipped-offset-not-multiple-of-15min')
        return
    lt, gt = time.localtime(t), time.gmtime(t)
    near = any(utcoff(t + d) != off for d in (-3600, 3600) if t + d >= 0)
    nontriv = off != 0 or lt[:3] != gt[:3] or near
    classes = ['kind:' + spec[0], 'offset-nonzero' if off else 'offset-zero']
    if lt[:3] != gt[:3]:
        classes.append('local-date!=utc-date')
    if lt.tm_year != gt.tm_year:
        classes.append('local-year!=utc-year')
    if near:
        classes.append('within-1h-of-offset-change')
    if off % 3600:
        classes.append('offset-not-whole-hour')
    if '/' in zone or zone == 'UTC':
        classes.append('zone:named')
    else:
        classes.append('zone:posix')
    col.case([zone, list(spec)], nontriv, classes)
    check_one(zone, t, col, [zone, list(spec)], with_image)


def shard(seed, tier, shard_no, nshards):
    shim.install('UTC')
    col = Collector()
    n = CASES[tier]
    every = IMAGE_EVERY[tier]
    counter = [0]

    @hseed(seed * 64 + shard_no)
    @settings(max_examples=n, database=None, deadline=None, phases=[Phase.generate],
              suppress_health_check=list(HealthCheck), report_multiple_bugs=False)
    @given(case_st)
    def t(case):
        counter[0] += 1
        run_case(case, col, with_image=(counter[0] % every == 0))

    t()
    shim.set_tz('UTC')
    return col.result()


def replay(case, col):
    shim.install('UTC')
    run_case((case[0], tuple(case[1])), col, with_image=True)
    shim.set_tz('UTC')
