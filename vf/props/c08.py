"""C08 Rock Ridge fidelity for an independent SUSP/RRIP reader.

G: Rock Ridge configurations (1.09/1.10/1.12, with and without XA); names of every length class
   up to > 1000 bytes, symlink targets from a grammar (absolute, '.', '..', empty and 248..600
   byte components, 40 components), trees deeper than eight levels (relocation), explicit POSIX
   modes, removal histories, many entries per directory (several continuation sectors).
O: vf.indep.iso9660 recovers for every entry the NM-joined name, PX mode (when one was given),
   PX link count (directories: 2 + number of sub-directories of the physical directory; files >= 1),
   SL-reassembled target and the logical tree (CL/RE/PL resolved) == the reference model; and the
   system-use areas are well formed (lengths add up, CE areas inside their sector and disjoint,
   CE/CL/PL land on the intended area/directory, ER names the version asked for, SP only in root '.').
"""
from hypothesis import strategies as st

from vf import shim, gen
from vf.engine import Run, model_view, diff_views
from vf.indep import iso9660
from vf.indep.views import iso_views
from vf.propbase import EngineProperty

ID = 'C08'
LEVEL = 'exploration'
RULE = ('images = final write of generated programs on Rock Ridge configurations only (profiles growshrink/deep/mixed/links weighted to long names, symlinks and relocation; '
        'with and without reopen generations). Non-trivial = a name or target is split between the record and a continuation area, or relocation occurs, '
        'or a continuation sector is shared by >= 2 entries. Distinct = distinct canonical program JSON.')
ASSUMPTIONS = [
    'the independent SUSP/RRIP reader is my reading of SUSP 1.12 / RRIP 1.12 (IEEE P1281/P1282)',
    'Interpretation (link count): the user never gives a link count; the POSIX count a reader of the physical hierarchy computes is required for directories (2 + sub-directories, relocation placeholders included), >= 1 for files',
    'PX mode is compared only when the edit gave a mode explicitly',
]
SHARDS = {'quick': 16, 'thorough': 16}
CASES = {'quick': 150, 'thorough': 5000}
SU_CLAUSES = {'su-length', 'su-version', 'su-sp', 'su-er', 'su-ce-bounds', 'su-ce-overlap', 'su-ce-last', 'su-ce-loop', 'su-both-endian', 'su-unknown',
              'rr-px-len', 'rr-nm', 'rr-sl', 'rr-sl-continue', 'rr-cl-target', 'rr-pl-target', 'rr-re', 'rr-dup-name', 'rr-depth', 'unreadable'}


def strategy(tier):
    cfg = gen.cfg_st(rr=st.sampled_from(['1.09', '1.10', '1.12']))
    profs = [gen.mixed(True, cfg), gen.growshrink(cfg, True), gen.growshrink(cfg, False), gen.deep(gen.cfg_st(rr=st.sampled_from(['1.09', '1.10', '1.12']), level=st.sampled_from([1, 2, 3, 3])), True),
             gen.deep(gen.cfg_st(rr=st.sampled_from(['1.09', '1.10', '1.12']), level=st.sampled_from([1, 2, 3])), False), gen.links(cfg, True),
             gen.cegap(cfg, True), gen.cegap(cfg, False), gen.symsplit(cfg, True), gen.reloctwins(None, True), gen.readd(cfg, True), gen.symcomps(cfg, True), gen.symcomps(cfg, False), gen.rrfull(None, True), gen.rrfull(None, False)]
    names = ['mixed', 'growshrink', 'growshrink', 'deep', 'deep', 'links', 'cegap', 'cegap', 'symsplit', 'reloctwins', 'readd', 'symcomps', 'symcomps', 'rrfull', 'rrfull']
    return st.tuples(st.one_of(*[p.map(lambda x, n=n: dict(x, profile=n)) for p, n in zip(profs, names)]), st.none())


def oracle(program, aux):
    shim.install('UTC')
    failures = []
    shim.set_tick(len(program['ops']) % 2 == 1)      # a moving clock in half of the cases (nothing here compares bytes across runs)
    run = Run(program)
    run.run_all()
    run.stats = {'c01_domain': 0}
    for pr in run.problems:
        if '/accepted-but-must-refuse/old-path-is-a-symlink' in pr.sig:
            # the new name would be recorded with the mode of a symbolic link and no target
            failures.append(('C08/' + pr.sig, 'rr-sl', 'step %d: %s' % (pr.step, pr.msg)))
    img = None if (run.dead or run.problems) else run.write()
    if img is None:
        run.stats['c01_domain'] += 1
        run.close()
        return run, failures
    m = run.model
    info = iso9660.read_iso(img)
    run.info = info
    for clause, msg in info['findings']:
        if clause in SU_CLAUSES:
            failures.append(('C08/%s' % clause, clause, msg[:500]))
    rr = info.get('rr')
    if rr is None:
        failures.append(('C08/no-rock-ridge', 'su-sp', 'the image of a Rock Ridge configuration has no SP entry in the root "." record'))
        run.close()
        return run, failures
    want_id = b'IEEE_P1282' if m.rr == '1.12' else b'RRIP_1991A'
    if m.generation == 0 and rr.get('er_id') != want_id:
        failures.append(('C08/er-id/%s' % m.rr, 'su-er', 'ER identifies %r, Rock Ridge %s was asked for (%r)' % (rr.get('er_id'), m.rr, want_id)))
    want_px = 44 if m.rr == '1.12' else 36
    tree = info['trees']['iso']
    # PX length and link counts over the physical hierarchy
    for p, e in tree.items():
        if e['type'] != 'dir' or 'recs' not in e:
            continue
        nsub = 0
        for c in e['children']:
            ce = tree[c]
            if ce['type'] == 'dir' or (ce.get('susp') or {}).get('cl') is not None:
                nsub += 1
        expect = 2 + nsub
        e['expect_links'] = expect
    for p, e in tree.items():
        recs = []
        if p != '/':
            recs.append(('entry', e.get('susp')))
        if e['type'] == 'dir' and 'recs' in e:
            recs.append(('dot', e.get('dot_su')))
            recs.append(('dotdot', e.get('dotdot_su')))
        for which, su in recs:
            if not su:
                continue
            px = su.get('px')
            if px is None:
                failures.append(('C08/px-missing/%s' % which, 'rr-px', '%s record of %r carries no PX entry' % (which, p[:80])))
                continue
            if m.generation == 0 and px['len'] != want_px:
                failures.append(('C08/px-length/%s' % m.rr, 'rr-px-len', '%s record of %r has a %d-byte PX entry, Rock Ridge %s uses %d' % (which, p[:80], px['len'], m.rr, want_px)))
            if e['type'] == 'dir' and 'expect_links' in e and (su.get('cl') is None):
                if which in ('entry', 'dot'):
                    exp = e['expect_links']
                else:
                    par = tree.get(e['parent']) if e['parent'] else e
                    exp = (par or {}).get('expect_links')
                if exp is not None and px['links'] != exp:
                    reloc = 'relocated' if (e.get('susp') or {}).get('re') else ('rr_moved' if any((tree[c].get('susp') or {}).get('re') for c in e['children']) else 'plain')
                    failures.append(('C08/px-links/dir/%s/%s' % (which, reloc), 'rr-px-links',
                                     '%s record of directory %r says %d links, its physical directory implies %d' % (which, p[:80], px['links'], exp)))
            if which == 'dotdot' and e['type'] == 'dir' and m.generation == 0 and su.get('pl') is None:
                # '..' describes the parent directory: the same mode as the parent's own '.' record
                par = tree.get(e['parent']) if e['parent'] else e
                ppx = ((par or {}).get('dot_su') or {}).get('px')
                if ppx is not None and ppx['mode'] != px['mode']:
                    failures.append(('C08/px-mode/dotdot/%s' % ('below-root' if (e['parent'] in ('/', None, '')) else 'deeper'), 'rr-px',
                                     "'..' record of %r has mode %o, the '.' record of its parent has %o" % (p[:80], px['mode'], ppx['mode'])))
            if px['mode'] & 0o170000 == 0:
                failures.append(('C08/px-mode/no-file-type/%s' % which, 'rr-px', '%s record of %r has PX mode %o: no file type' % (which, p[:80], px['mode'])))
            elif e['type'] == 'file' and px['links'] < 1:
                failures.append(('C08/px-links/file', 'rr-px-links', 'file %r has link count %d' % (p[:80], px['links'])))
    # logical tree and attributes against the model
    got = iso_views(img, info)
    want = model_view(m)
    for ns, path, a, b in diff_views({'rr': got.get('rr')}, {'rr': want.get('rr')}):
        kind = 'missing' if a is None else ('extra' if b is None else ('type' if a[0] != b[0] else ('target' if a[4] != b[4] else ('mode' if (b[5] is not None and a[5] != b[5]) else ('hidden' if a[3] != b[3] else 'content')))))
        failures.append(('C08/logical-tree/%s/%s' % (kind, m.role('rr', path)), 'rr-tree',
                         'Rock Ridge path %r: independent reader finds %r, the edits imply %r' % ((path or '')[:90], a, b)))
    run.close()
    return run, failures


def extra_classes(run):
    cl = set()
    info = getattr(run, 'info', None)
    if not info or not info.get('rr'):
        return cl
    sect = {}
    for blk, off, ln, owner in info.get('ce_areas', []):
        sect.setdefault(blk, set()).add(owner)
    if any(len(v) >= 2 for v in sect.values()):
        cl.add('shared-continuation-sector')
    if len(sect) >= 3:
        cl.add('>=3-continuation-sectors')
    tree = info['trees']['iso']
    for p, e in tree.items():
        su = e.get('susp') or {}
        if su.get('ce') and (su.get('nm_count', 0) > 1 or su.get('sl') is not None):
            cl.add('name-or-target-split-into-continuation')
        if su.get('cl') is not None:
            cl.add('relocation-placeholder')
    return cl


def nontrivial(run, cl):
    return bool(cl & {'shared-continuation-sector', 'name-or-target-split-into-continuation', 'relocation-placeholder', 'relocation'}) and not run.stats.get('c01_domain')


PROP = EngineProperty(ID, oracle, nontrivial, extra_classes)
shard = PROP.shard_fn(strategy, CASES)
replay = PROP.replay
shrink = PROP.shrink
