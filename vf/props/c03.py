"""C03 Written images are structurally valid ISO9660 for an independent reader.

G: programs from all profiles (+ duplicate PVDs, level-4 enhanced descriptor, XA, directories
   spanning many sectors; thorough: path tables > 4 KiB); the written image is the object under test.
O: vf.indep.iso9660 (shares no code with pycdlib) must report no finding for the clauses of the
   statement, and the tree + contents it recovers must equal what the library API reports
   for the same image (physical ISO9660 tree when nothing is relocated, Joliet tree always).
"""
from hypothesis import strategies as st

from vf import shim, gen
from vf.engine import Run, open_image, api_view, diff_views
from vf.indep import iso9660
from vf.indep.views import iso_views
from vf.propbase import EngineProperty
from vf.runner import exc_signature

ID = 'C03'
LEVEL = 'exploration'
RULE = ('images = final write of a generated program (profiles mixed/growshrink/deep/links/boot/hybrid; thorough adds manydirs). '
        'Non-trivial = the image has >= 3 directory levels, or a directory spanning > 1 sector, or > 1 PVD, or an enhanced (level 4) descriptor, or XA records. '
        'Distinct = distinct canonical program JSON.')
ASSUMPTIONS = [
    'the independent reader (vf/indep/iso9660.py) is my reading of ECMA-119; it is cross-checked by image-mutation tests (tools/mutate_images.py)',
    'Interpretation (sorting): byte order of identifiers is required (pycdlib documents that it does not implement ECMA-119 9.3 exactly); a pair that is byte-ordered but not 9.3-ordered is the known finding C03 ecma-9.3-order',
    'images the library cannot master or reopen are C01 findings and only counted here',
]
SHARDS = {'quick': 16, 'thorough': 16}
CASES = {'quick': 170, 'thorough': 5000}

CLAUSES = {'vd-terminator', 'both-endian', 'vd-root-record', 'vd-sizes-agree', 'vd-duplicate-pvd', 'vd-enhanced', 'vd-no-pvd', 'vd-block-size',
           'dir-record-packing', 'dir-size', 'dir-bounds', 'dir-dot', 'dir-dotdot', 'dir-order', 'dir-order-ecma', 'dir-order-ecma-version', 'dup-ident', 'multi-extent',
           'dir-cycle', 'pt-bounds', 'pt-size', 'pt-content', 'pt-order', 'pt-extent', 'pt-parent', 'pt-le-be-agree', 'name-encoding', 'unreadable'}


def strategy(tier):
    w = {'mixed': 4, 'growshrink': 3, 'deep': 3, 'links': 2, 'boot': 2, 'hybrid': 1, 'exactfill': 6, 'ptedge': 2, 'samename': 1, 'reloctwins': 1, 'rrfull': 1}
    if tier == 'thorough':
        w['manydirs'] = 1
    base = gen.any_profile(reopen_ok=False, weights=w, with_manydirs=(tier == 'thorough'))       # (in effect uniform, see gen.weighted)
    # directories that grow over several sectors and shrink again get a real share (the detection of seed C03-i - 7 hits per
    # run - did not survive an unrelated change of the random stream)
    more = gen.growshrink(reopen_ok=False).map(lambda p: dict(p, profile='growshrink'))
    return st.tuples(gen.weighted([(base, 10), (more, 3)]), st.none())


def tree_of(msg):
    head = msg.split(':', 1)[0]
    return head if head in ('iso', 'joliet') else 'vd'


def oracle(program, aux):
    shim.install('UTC')
    failures = []
    shim.set_tick(len(program['ops']) % 2 == 1)      # a moving clock in half of the cases (nothing here compares bytes across runs)
    run = Run(program)
    run.run_all()
    run.stats = {'c01_domain': 0}
    img = None if (run.dead or run.problems) else run.write()
    if img is None:
        run.stats['c01_domain'] += 1
        run.close()
        return run, failures
    info = iso9660.read_iso(img)
    run.info = info
    for clause, msg in info['findings']:
        if clause in CLAUSES:
            failures.append(('C03/%s/%s' % (clause, tree_of(msg)), clause, msg[:500]))
    new = open_image(img)
    if isinstance(new, Exception):
        run.stats['c01_domain'] += 1
    else:
        try:
            relocs = bool(run.model.relocated_dirs())
            got = api_view(new, run.model.has, False, 8192, physical_iso=not relocs)
            want = iso_views(img, info)
            want.pop('rr', None)
            if relocs:
                want.pop('iso', None)
                run.stats['physical_iso_view_skipped_relocation'] = 1
            got = {k: v for k, v in got.items() if k in ('iso', 'jol')}
            for ns, path, a, b in diff_views(got, want):
                kind = 'only-reader' if a is None else ('only-api' if b is None else 'differs')
                failures.append(('C03/indep-vs-api/%s/%s' % (ns, kind), 'reader-vs-api',
                                 'namespace %s path %r: library API reports %r, independent reader finds %r' % (ns, (path or '')[:80], a, b)))
        except Exception as e:  # noqa
            failures.append(('C03/api-view/' + exc_signature(e), 'view-raised', 'library API raised %s: %s while listing its own image' % (type(e).__name__, e)))
        try:
            new.close()
        except Exception:
            pass
    run.close()
    return run, failures


def extra_classes(run):
    cl = set()
    info = getattr(run, 'info', None)
    if not info:
        return cl
    t = info.get('trees', {}).get('iso') or {}
    if any(p.count('/') >= 3 for p in t):
        cl.add('depth>=3')
    if any(e['type'] == 'dir' and e['length'] > 2048 for e in t.values()):
        cl.add('multi-sector-directory')
    jt = info.get('trees', {}).get('joliet') or {}
    if any(e['type'] == 'dir' and e['length'] > 2048 for e in jt.values()):
        cl.add('multi-sector-joliet-directory')
    if len(info.get('pvds', [])) > 1:
        cl.add('multiple-pvd')
    if any(s.get('kind') == 'enhanced' for s in info.get('svds', [])):
        cl.add('enhanced-vd')
    if info.get('xa'):
        cl.add('xa')
    if info.get('pvds') and info['pvds'][0]['pt_size'] > 4096:
        cl.add('path-table>4KiB')
    return cl


NT = {'depth>=3', 'multi-sector-directory', 'multi-sector-joliet-directory', 'multiple-pvd', 'enhanced-vd', 'xa'}


def nontrivial(run, cl):
    return bool(cl & NT)


PROP = EngineProperty(ID, oracle, nontrivial, extra_classes)
shard = PROP.shard_fn(strategy, CASES)
replay = PROP.replay
shrink = PROP.shrink
