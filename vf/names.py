"""Constructive name generation: every name embeds the op's serial number in fixed-width
base 36, so two different ops can never produce the same name in one directory (any
sub-sequence of a program is therefore still a valid program).  All names are legal for
their namespace/level *by construction*; boundary lengths are requested through `size`.
"""

B36 = '0123456789ABCDEFGHIJKLMNOPQRSTUVWXYZ'
D1 = 'ABCDEFGHIJKLMNOPQRSTUVWXYZ0123456789_'
L4EXTRA = 'abcxyz -+=,!#$%&()@^`{}~'

UNI_BMP = 'éüΩЖ中文あא€'
UNI_ASTRAL = '\U0001f600\U00010348'
# sequences that are not in Unicode normal form C (a base letter plus a combining mark that has a precomposed form, conjoining
# Hangul jamo, a singleton): a name is the code units that were given, not a normal form of them
UNI_NOT_NFC = ['e\u0301', 'A\u030a', '\u1112\u1161\u11ab', '\u212b', 'o\u0308', 'n\u0303']


def b36(n, width=3):
    s = ''
    for _ in range(width):
        s = B36[n % 36] + s
        n //= 36
    return s


def _fill(alpha, n, salt):
    return ''.join(alpha[(salt * 7 + i * 11 + (i * i) % 5) % len(alpha)] for i in range(n))


def iso_file(serial, level, size, lead, salt=0, version=1, cap=None):
    """ISO9660 file identifier.  size: 0 minimal, 1 medium, 2 the level's maximum, 3 no
    extension, 4 empty name part ('.EXT')."""
    p = D1[lead % 37]
    core = p + b36(serial)
    if level == 1:
        name_len, ext_len = [(4, 0), (6, 2), (8, 3), (8, 0), (0, 3)][size % 5]
        if size % 5 in (0, 1):
            # vary record lengths finely so that directory sectors get filled to every boundary
            name_len = 4 + (salt // 3) % 5
            ext_len = (salt // 17) % 4
        if size % 5 == 4:
            # name empty: the serial must live in the extension (3 chars exactly)
            return '.%s;%d' % (b36(serial), version)
        name = (core + _fill(D1, 8, salt))[:max(name_len, 4)]
        ext = _fill(D1, ext_len, salt + 3)
    else:
        total = [6, 14, 30, 30, 12][size % 5]
        if level == 4:
            total = [6, 20, 100, 180, 12][size % 5]
        if size % 5 in (0, 1):
            total += (salt // 3) % 9          # fine-grained record lengths (sector-filling boundaries)
        if cap is not None:
            total = min(total, cap)
        alpha = D1 if level < 4 else D1 + L4EXTRA
        if size % 5 == 3:
            name = (core + _fill(alpha, total, salt))[:max(4, total)]
            ext = ''
        elif size % 5 == 4:
            name = ''
            ext = (core + _fill(alpha, total, salt))[:max(4, total - 1)]
        else:
            ext_len = min([0, 3, 8][salt % 3], max(0, total - 5))
            name = (core + _fill(alpha, total, salt))[:max(4, total - ext_len - 1)]
            ext = _fill(alpha, ext_len, salt + 3)
    if level == 4:
        name = name.rstrip(' ')
        ext = ext.strip(' ')
    return '%s.%s;%d' % (name, ext, version)


def iso_dir(serial, level, size, lead, salt=0, cap=None):
    p = D1[lead % 37]
    core = p + b36(serial)
    if level == 1:
        n = [4, 6, 8][size % 3]
        return (core + _fill(D1, 8, salt))[:n]
    if level == 4:
        n = [4, 16, 31, 120, 207][size % 5]
        if cap is not None:
            n = min(n, cap)
        return (core + _fill(D1 + L4EXTRA, n, salt))[:n].rstrip(' ')
    n = [4, 12, 31, 31, 207][size % 5]
    if cap is not None:
        n = min(n, cap)
    return (core + _fill(D1, n, salt))[:n]


def rr_name(serial, size, lead, salt=0):
    """Rock Ridge (POSIX) name, utf-8; sizes straddle the NM (250) and continuation limits."""
    alpha = 'abcdefghijklmnopqrstuvwxyzABCDEFGHIJKLMNOPQRSTUVWXYZ0123456789._- '
    p = alpha[lead % 62]
    n = [5, 12, 20, 100, 180, 249, 250, 251, 400, 600, 1100][size % 11]
    if size % 11 in (1, 2, 3, 4, 8):
        n += (salt // 5) % 41                 # fine-grained continuation-area lengths (block-filling boundaries)
    s = (p + b36(serial).lower() + _fill(alpha, n, salt))[:n]
    if salt % 5 == 4 and n >= 12:
        s = s[:6] + UNI_BMP[salt % len(UNI_BMP)] + s[7:]
    return s.rstrip(' ') or ('r' + b36(serial))


def joliet_name(serial, size, lead, salt=0):
    """Joliet name: <= 64 UTF-16 code units (BMP and astral characters mixed in)."""
    alpha = 'abcdefghijklmnopqrstuvwxyzABCDEFGHIJKLMNOPQRSTUVWXYZ0123456789._- '
    p = alpha[lead % 62]
    n = [5, 12, 30, 63, 64][size % 5]
    s = (p + b36(serial).lower() + _fill(alpha, n, salt))[:n]
    if salt % 4 == 3:
        ins = UNI_BMP[salt % len(UNI_BMP)] if salt % 8 != 7 else UNI_ASTRAL[salt % 2]
        if salt % 16 == 11:
            ins = UNI_NOT_NFC[(salt // 16) % len(UNI_NOT_NFC)]
        s = s[:5] + ins + s[5:]
    elif salt % 4 == 2 and n >= 30:
        # mostly non-ASCII: many UTF-8 bytes per UTF-16 unit
        body = ''.join(UNI_BMP[(salt + i) % len(UNI_BMP)] for i in range(n - 6))
        s = s[:5] + body
    while len(s.encode('utf-16_be')) // 2 > 64:
        s = s[:-1]
    return s.rstrip(' .') or ('j' + b36(serial))


def udf_name(serial, size, lead, salt=0):
    alpha = 'abcdefghijklmnopqrstuvwxyzABCDEFGHIJKLMNOPQRSTUVWXYZ0123456789._- '
    p = alpha[lead % 62]
    if salt % 4 == 3:
        # UCS-2 name (needs 16-bit compression id): <= 127 units
        n = [5, 12, 60, 126, 127][size % 5]
        s = (p + b36(serial).lower() + UNI_BMP[salt % len(UNI_BMP)] + _fill(alpha, n, salt))[:n]
    elif salt % 4 == 2:
        n = [5, 12, 100, 253, 254][size % 5]
        s = (p + b36(serial).lower() + 'é' + _fill(alpha, n, salt))[:n]
    else:
        n = [5, 12, 100, 253, 254][size % 5]
        s = (p + b36(serial).lower() + _fill(alpha, n, salt))[:n]
    return s.rstrip(' ') or ('u' + b36(serial))


def exact_iso_file(serial, total_len, lead):
    """File identifier of exactly total_len characters (incl. '.;1'), legal at every level for
    7 <= total_len <= 11 (name part 4..8 characters, empty extension)."""
    n = max(4, total_len - 3)
    core = D1[lead % 37] + b36(serial)
    return (core + _fill(D1, n, serial))[:n] + '.;1'


def exact_plain(serial, n, lead):
    """Joliet/UDF/Rock Ridge name of exactly n ASCII characters (n >= 4)."""
    alpha = 'abcdefghijklmnopqrstuvwxyz0123456789'
    n = max(4, n)
    return (alpha[lead % 26] + b36(serial).lower() + _fill(alpha, n, serial))[:n]


def exact_iso_dir(serial, total_len, lead):
    """Directory identifier of exactly total_len characters (4 <= total_len <= 8 is legal at every level)."""
    n = max(4, total_len)
    core = D1[lead % 37] + b36(serial)
    return (core + _fill(D1, n, serial))[:n]
