"""> 4 GiB (multi-extent) files without 4 GiB of memory or disk: a mostly-zero pattern source,
a sparse sink that doubles as the image file for re-opening, and a streaming verifier."""
import io
import struct

MIB = 1 << 20
PAGE = 4096


def pattern(fid, off, n, size):
    """Bytes [off, off+n) of pattern file `fid` of `size` bytes: zero except a 16-byte marker
    (fid, offset) at every MiB boundary and in the last 16 bytes."""
    n = max(0, min(n, size - off))
    out = bytearray(n)
    first = (off // MIB) * MIB
    m = first
    while m < off + n:
        mk = struct.pack('<QQ', fid, m)
        lo, hi = max(m, off), min(m + 16, off + n, size)
        if lo < hi:
            out[lo - off:hi - off] = mk[lo - m:hi - m]
        m += MIB
    tail = size - 16
    if tail >= 0:
        mk = struct.pack('<QQ', fid ^ 0xffffffff, size)
        lo, hi = max(tail, off), min(size, off + n)
        if lo < hi:
            out[lo - off:hi - off] = mk[lo - tail:hi - tail]
    return bytes(out)


class PatternSource(io.RawIOBase):
    mode = 'rb'

    def __init__(self, fid, size):
        super().__init__()
        self.fid, self.size, self.pos = fid, size, 0

    def readable(self):
        return True

    def seekable(self):
        return True

    def read(self, n=-1):
        if n is None or n < 0:
            n = self.size - self.pos
        n = min(n, 1 << 26)
        d = pattern(self.fid, self.pos, n, self.size)
        self.pos += len(d)
        return d

    def readinto(self, b):
        d = self.read(len(b))
        b[:len(d)] = d
        return len(d)

    def seek(self, off, whence=0):
        self.pos = off if whence == 0 else (self.pos + off if whence == 1 else self.size + off)
        return self.pos

    def tell(self):
        return self.pos


class SparseFile(io.RawIOBase):
    """Read/write/seek file object that stores only non-zero 4 KiB pages."""
    def __init__(self):
        super().__init__()
        self.pages = {}
        self.size = 0
        self.pos = 0

    def readable(self):
        return True

    def writable(self):
        return True

    def seekable(self):
        return True

    def write(self, data):
        data = bytes(data)
        n = len(data)
        if n and data.count(0) != n:
            off = self.pos
            i = 0
            while i < n:
                pg, po = divmod(off + i, PAGE)
                take = min(PAGE - po, n - i)
                chunk = data[i:i + take]
                if chunk.count(0) != take or pg in self.pages:
                    page = bytearray(self.pages.get(pg, bytes(PAGE)))
                    page[po:po + take] = chunk
                    self.pages[pg] = bytes(page)
                i += take
        elif n:
            # all zero: clear any page content we overwrite
            off = self.pos
            for pg in range(off // PAGE, (off + n - 1) // PAGE + 1):
                if pg in self.pages:
                    page = bytearray(self.pages[pg])
                    lo = max(off, pg * PAGE) - pg * PAGE
                    hi = min(off + n, (pg + 1) * PAGE) - pg * PAGE
                    page[lo:hi] = bytes(hi - lo)
                    self.pages[pg] = bytes(page)
        self.pos += n
        self.size = max(self.size, self.pos)
        return n

    def read(self, n=-1):
        if n is None or n < 0:
            n = self.size - self.pos
        n = max(0, min(n, self.size - self.pos, 1 << 26))
        out = bytearray(n)
        off = self.pos
        for pg in range(off // PAGE, (off + n - 1) // PAGE + 1) if n else ():
            page = self.pages.get(pg)
            if page is not None:
                lo = max(off, pg * PAGE)
                hi = min(off + n, (pg + 1) * PAGE)
                out[lo - off:hi - off] = page[lo - pg * PAGE:hi - pg * PAGE]
        self.pos += n
        return bytes(out)

    def readinto(self, b):
        d = self.read(len(b))
        b[:len(d)] = d
        return len(d)

    def seek(self, off, whence=0):
        self.pos = off if whence == 0 else (self.pos + off if whence == 1 else self.size + off)
        return self.pos

    def tell(self):
        return self.pos

    def truncate(self, size=None):
        self.size = self.pos if size is None else size
        return self.size


class VerifySink(io.RawIOBase):
    """Write-only sink comparing the stream with pattern file `fid` on the fly."""
    def __init__(self, fid, size):
        super().__init__()
        self.fid, self.size, self.pos = fid, size, 0
        self.first_bad = None

    def writable(self):
        return True

    def write(self, data):
        data = bytes(data)
        if self.first_bad is None:
            want = pattern(self.fid, self.pos, len(data), self.size)
            if data != want:
                if len(want) != len(data):
                    self.first_bad = self.pos + min(len(want), len(data))
                else:
                    i = 0
                    while data[i] == want[i]:
                        i += 1
                    self.first_bad = self.pos + i
        self.pos += len(data)
        return len(data)
