"""Verification framework for clalancette/pycdlib (property-based testing / fuzzing).

Importing this package puts /repo's *working tree* first on sys.path so that every
check exercises the current sources, never an installed copy.
"""
import os
import sys

REPO = os.environ.get('VERIF_REPO', '/repo')
VERIF = os.path.dirname(os.path.dirname(os.path.abspath(__file__)))

if REPO not in sys.path:
    sys.path.insert(0, REPO)
_deps = os.path.join(VERIF, '.deps')
if os.path.isdir(_deps) and _deps not in sys.path:
    sys.path.append(_deps)
