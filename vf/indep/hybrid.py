"""Independent decoder/validator for the "isohybrid" system area of an ISO image.

Covers the MBR (syslinux isohybrid.c layout), the primary GPT (header at 512-byte LBA 1 +
partition array), the backup GPT at the end of the image, and the Apple Partition Map
(2048-byte blocks 1..n).  Written from isohybrid.c semantics, the UEFI specification (GPT)
and Inside Macintosh: Devices (APM).  Shares no code with pycdlib; CRC-32 is derived bit by
bit here (no literal table, no zlib/binascii).

`read_hybrid` reports context-free complaints (signatures, CRCs, primary/backup relation,
APM map structure); `validate_hybrid` adds the checks that need facts from the ISO 9660 /
El Torito side.  Neither raises on garbage: problems become ('unreadable', ...) findings.
"""
import struct

from vf.indep.image import Image, Findings  # noqa: F401  (Image re-exported for callers)

LBA = 512
HFS_GUID = bytes.fromhex('005346480000aa11aa11003065' '43ecac')   # Apple HFS+, as stored on disk
APM_BLOCK = 2048
GPT_MAX_ARRAY = 4 << 20          # refuse to read absurd partition arrays
APM_MAX_ENTRIES = 64
ZERO16 = b'\x00' * 16


def _crc_table():
    tab = []
    for n in range(256):
        c = n
        for _ in range(8):
            c = (c >> 1) ^ 0xEDB88320 if c & 1 else c >> 1
        tab.append(c)
    return tab


_TAB = _crc_table()


def crc32(data):
    """CRC-32 (IEEE 802.3, reflected, poly 0xEDB88320, init/xorout 0xFFFFFFFF)."""
    c = 0xFFFFFFFF
    for b in data:
        c = (c >> 8) ^ _TAB[(c ^ b) & 0xFF]
    return c ^ 0xFFFFFFFF


def _chs(b):
    """3 MBR CHS bytes -> (cylinder, head, sector)."""
    return (((b[1] & 0xC0) << 2) | b[2], b[0], b[1] & 0x3F)


def _read_mbr(raw, fields):
    rba, mbr_id, zero2 = struct.unpack_from('<QLH', raw, 432)
    fields += [(0, 32, 'mbr.header'), (32, 400, 'mbr.code'), (432, 8, 'mbr.rba'),
               (440, 4, 'mbr.id'), (444, 2, 'mbr.zero'), (510, 2, 'mbr.signature')]
    parts = []
    for i in range(4):
        off = 446 + 16 * i
        e = raw[off:off + 16]
        lba, count = struct.unpack_from('<LL', e, 8)
        parts.append({'index': i + 1, 'status': e[0], 'type': e[4], 'chs_start': _chs(e[1:4]),
                      'chs_end': _chs(e[5:8]), 'lba': lba, 'count': count, 'raw': bytes(e)})
        p = 'mbr.part%d.' % (i + 1)
        fields += [(off, 1, p + 'status'), (off + 1, 3, p + 'chs_start'), (off + 4, 1, p + 'type'),
                   (off + 5, 3, p + 'chs_end'), (off + 8, 4, p + 'lba'), (off + 12, 4, p + 'count')]
    return {'rba': rba, 'mbr_id': mbr_id, 'zero2': zero2, 'header': bytes(raw[:32]),
            'signature_ok': raw[510:512] == b'\x55\xaa', 'parts': parts}


def _gpt_entries(arr, esize):
    out = []
    if esize < 128:
        return out
    for i in range(len(arr) // esize):
        e = arr[i * esize:(i + 1) * esize]
        if e[:16] == ZERO16:
            continue
        first, last, attrs = struct.unpack_from('<QQQ', e, 32)
        name = e[56:128].decode('utf-16-le', 'replace').split('\x00')[0]
        out.append({'index': i, 'type_guid': bytes(e[:16]), 'part_guid': bytes(e[16:32]),
                    'first_lba': first, 'last_lba': last, 'attrs': attrs, 'name': name})
    return out


def _read_gpt(img, lba, F, fields, tag):
    """Header at `lba` plus the array it points to.  Returns (hdr, entries, raw_array) or None
    when there is no 'EFI PART' signature there."""
    off = lba * LBA
    raw = img.read(off, LBA)
    if len(raw) < 92:
        F.add('unreadable', '%s GPT header at LBA %d: short read (%d bytes)' % (tag, lba, len(raw)))
        return None
    (sig, rev, hsize, hcrc, resv, cur, bak, first, last, guid, elba, num, esize,
     ecrc) = struct.unpack_from('<8sLLLLQQQQ16sQLLL', raw, 0)
    if sig != b'EFI PART':
        return None
    p = 'gpt.%s.' % tag
    for o, n, k in ((0, 8, 'signature'), (8, 4, 'revision'), (12, 4, 'header_size'),
                    (16, 4, 'header_crc'), (24, 8, 'current_lba'), (32, 8, 'backup_lba'),
                    (40, 8, 'first_usable'), (48, 8, 'last_usable'), (56, 16, 'disk_guid'),
                    (72, 8, 'entries_lba'), (80, 4, 'num_entries'), (84, 4, 'entry_size'),
                    (88, 4, 'entries_crc')):
        fields.append((off + o, n, p + k))
    h = {'lba': lba, 'current_lba': cur, 'backup_lba': bak, 'first_usable': first,
         'last_usable': last, 'disk_guid': bytes(guid), 'entries_lba': elba, 'num_entries': num,
         'entry_size': esize, 'entries_crc': ecrc, 'header_crc': hcrc, 'header_size': hsize,
         'revision': rev, 'reserved': resv, 'crc_ok': False, 'entries_crc_ok': False}
    if rev != 0x00010000 or hsize != 92:
        F.add('gpt-signature', '%s GPT header: revision 0x%08x, header size %d (want 0x00010000, 92)'
              % (tag, rev, hsize))
    if 92 <= hsize <= len(raw):
        calc = crc32(raw[:16] + b'\x00\x00\x00\x00' + raw[20:hsize])
        h['crc_ok'] = calc == hcrc
        if not h['crc_ok']:
            F.add('gpt-header-crc', '%s GPT header CRC recorded 0x%08x, computed 0x%08x over %d bytes'
                  % (tag, hcrc, calc, hsize))
    else:
        F.add('gpt-header-crc', '%s GPT header size %d: CRC cannot be computed' % (tag, hsize))
    total = num * esize
    arr = b''
    if total == 0 or total > GPT_MAX_ARRAY or esize < 128:
        F.add('gpt-array-crc', '%s GPT array: %d entries of %d bytes is not a usable array' % (tag, num, esize))
    else:
        arr = img.read(elba * LBA, total)
        if len(arr) < total:
            F.add('unreadable', '%s GPT array at LBA %d: wanted %d bytes, got %d' % (tag, elba, total, len(arr)))
            arr = b''
        else:
            calc = crc32(arr)
            h['entries_crc_ok'] = calc == ecrc
            if not h['entries_crc_ok']:
                F.add('gpt-array-crc', '%s GPT array CRC recorded 0x%08x, computed 0x%08x over %d*%d bytes at LBA %d'
                      % (tag, ecrc, calc, num, esize, elba))
            fields.append((elba * LBA, total, p + 'array'))
    return h, _gpt_entries(arr, esize), arr


def _mirror(pri, bak, arr_p, arr_b, last_lba, F):
    def bad(msg):
        F.add('gpt-mirror', msg)
    if pri['current_lba'] != 1:
        bad('primary.current_lba is %d, want 1' % pri['current_lba'])
    if pri['backup_lba'] != last_lba:
        bad('primary.backup_lba is %d, last LBA of the image is %d' % (pri['backup_lba'], last_lba))
    if bak['current_lba'] != last_lba:
        bad('backup.current_lba is %d, last LBA of the image is %d' % (bak['current_lba'], last_lba))
    if bak['backup_lba'] != pri['current_lba']:
        bad('backup.backup_lba is %d, primary.current_lba is %d' % (bak['backup_lba'], pri['current_lba']))
    if bak['disk_guid'] != pri['disk_guid']:
        bad('disk GUID differs: primary %s backup %s' % (pri['disk_guid'].hex(), bak['disk_guid'].hex()))
    for k in ('first_usable', 'last_usable', 'num_entries', 'entry_size'):
        if pri[k] != bak[k]:
            bad('%s differs: primary %d backup %d' % (k, pri[k], bak[k]))
    if arr_p != arr_b:
        n = next((i for i in range(min(len(arr_p), len(arr_b))) if arr_p[i] != arr_b[i]), min(len(arr_p), len(arr_b)))
        es = pri['entry_size'] or 128
        bad('partition arrays differ, first at byte %d (entry %d, byte %d of the entry)' % (n, n // es, n % es))
    nlba = -(-(bak['num_entries'] * bak['entry_size']) // LBA)
    if bak['entries_lba'] + nlba != bak['current_lba']:
        bad('backup array at LBA %d (+%d LBAs) does not end just before the backup header at LBA %d'
            % (bak['entries_lba'], nlba, bak['current_lba']))


def _read_apm(img, mbr_header, F, fields):
    bs = APM_BLOCK
    first = img.read(bs, 512)
    if first[:2] != b'PM':
        return None
    entries = []
    want = 1
    i = 0
    while i < want and i < APM_MAX_ENTRIES:
        off = bs * (i + 1)
        raw = img.read(off, 512)
        if len(raw) < 136:
            F.add('unreadable', 'APM entry %d at byte %d: short read' % (i + 1, off))
            break
        sig, _pad, mapn, start, count, name, typ, dstart, dcount, status = struct.unpack_from('>2sHLLL32s32sLLL', raw, 0)
        if sig != b'PM':
            F.add('apm-signature', 'APM entry %d at byte %d has signature %r, map says %d entries' % (i + 1, off, sig, want))
            break
        entries.append({'index': i + 1, 'map_entries': mapn, 'start_block': start, 'block_count': count,
                        'name': name.split(b'\x00')[0].decode('latin-1'),
                        'type': typ.split(b'\x00')[0].decode('latin-1'),
                        'data_start': dstart, 'data_count': dcount, 'status': status, 'raw': bytes(raw)})
        p = 'apm.%d.' % (i + 1)
        fields += [(off, 2, p + 'signature'), (off + 4, 4, p + 'map_entries'), (off + 8, 4, p + 'start_block'),
                   (off + 12, 4, p + 'block_count'), (off + 16, 32, p + 'name'), (off + 48, 32, p + 'type')]
        if i == 0:
            want = mapn
        i += 1
    if want > APM_MAX_ENTRIES or want < 1:
        F.add('apm-map-count', 'APM map_entries %d is not plausible' % want)
    for e in entries:
        if e['map_entries'] != entries[0]['map_entries']:
            F.add('apm-map-count', 'APM entry %d says %d map entries, entry 1 says %d'
                  % (e['index'], e['map_entries'], entries[0]['map_entries']))
    ddm_bs = struct.unpack_from('>H', mbr_header, 2)[0] if mbr_header[:2] == b'ER' else None
    return {'entries': entries, 'block_size': bs, 'ddm_block_size': ddm_bs}


def read_hybrid(img):
    """Decode the hybrid system area.  None when there is nothing hybrid-like in the first 512
    bytes (short image, or all four partition entries zero and rba 0).  A partition table
    without the 55 AA signature is still decoded (signature_ok False, finding 'mbr-signature')."""
    F = Findings()
    fields = []
    try:
        raw = img.read(0, 512)
        if len(raw) < 512:
            return None
        mbr = _read_mbr(raw, fields)
        if mbr['rba'] == 0 and raw[446:510] == b'\x00' * 64:
            return None
        info = {'findings': F, 'mbr': mbr, 'gpt': None, 'apm': None, 'fields': fields}
        if not mbr['signature_ok']:
            F.add('mbr-signature', 'bytes 510..511 are %s, want 55aa' % raw[510:512].hex())
        last_lba = img.size // LBA - 1
        info['last_lba'] = last_lba
        got = _read_gpt(img, 1, F, fields, 'primary')
        if got is not None:
            pri, ents_p, arr_p = got
            gpt = {'primary': pri, 'backup': None, 'entries_primary': ents_p, 'entries_backup': []}
            info['gpt'] = gpt
            gotb = _read_gpt(img, last_lba, F, fields, 'backup') if last_lba > 1 else None
            if gotb is None:
                F.add('gpt-signature', 'no backup GPT header ("EFI PART") at the last LBA %d' % last_lba)
            else:
                gpt['backup'], gpt['entries_backup'], arr_b = gotb
                _mirror(pri, gpt['backup'], arr_p, arr_b, last_lba, F)
        info['apm'] = _read_apm(img, mbr['header'], F, fields)
        return info
    except (struct.error, IndexError, ValueError, TypeError, OverflowError, MemoryError, OSError) as e:
        F.add('unreadable', 'read_hybrid: %s: %s' % (type(e).__name__, e))
        return {'findings': F, 'mbr': None, 'gpt': None, 'apm': None, 'fields': fields}


def _ceil_to(n, m):
    return -(-n // m) * m


def _check_mbr(img, mbr, F, a):
    parts = mbr['parts']
    if not mbr['signature_ok'] and 'mbr-signature' not in F.clauses():
        F.add('mbr-signature', 'no 55aa at byte 510')
    if mbr['rba'] != 4 * a['boot_file_sector']:
        F.add('mbr-rba', 'rba is %d, boot file is at sector %d (want %d)' % (mbr['rba'], a['boot_file_sector'], 4 * a['boot_file_sector']))
    if a['mbr_id'] is not None and mbr['mbr_id'] != a['mbr_id']:
        F.add('mbr-id', 'mbr id is 0x%08x, requested 0x%08x' % (mbr['mbr_id'], a['mbr_id']))
    active = [p for p in parts if p['status'] == 0x80]
    if len(active) != 1:
        F.add('mbr-one-active', '%d partition entries have status 0x80 (entries %s), want exactly one (entry %d)'
              % (len(active), [p['index'] for p in active], a['part_entry']))
    elif active[0]['index'] != a['part_entry']:
        F.add('mbr-one-active', 'the active entry is number %d, requested %d' % (active[0]['index'], a['part_entry']))
    for p in parts:
        if p['status'] == 0x80 or p['raw'] == ZERO16:
            continue
        if a['efi'] and p['index'] == 2 and p['status'] == 0 and p['type'] == 0xEF:
            continue
        if a['mac'] and p['index'] == 3 and p['status'] == 0 and p['type'] == 0:
            continue
        F.add('mbr-one-active', 'entry %d is neither active, empty, nor an expected EFI/Mac entry: %s' % (p['index'], p['raw'].hex()))
    heads, sectors = a['geometry_heads'], a['geometry_sectors']
    cyl = heads * sectors * LBA
    if not active:
        return
    p = active[0]
    if a['part_type'] is not None and p['type'] != a['part_type']:
        F.add('mbr-part-type', 'partition type is 0x%02x, want 0x%02x' % (p['type'], a['part_type']))
    off = a['part_offset']
    g = []
    if p['lba'] != off:
        g.append('start LBA %d != part_offset %d' % (p['lba'], off))
    if (p['lba'] + p['count']) * LBA != img.size:
        g.append('LBA %d + count %d = %d sectors, image has %d (%d bytes)' % (p['lba'], p['count'], p['lba'] + p['count'], img.size // LBA, img.size))
    ncyl = img.size // cyl
    want_end = (min(ncyl, 1024) - 1, heads - 1, sectors)
    if p['chs_end'] != want_end:
        g.append('end CHS %r, want %r (%d cylinders of %d heads x %d sectors)' % (p['chs_end'], want_end, ncyl, heads, sectors))
    sc = off // (heads * sectors)
    want_start = ((off // sectors) % heads, off % sectors + 1)
    if p['chs_start'][1:] != want_start or p['chs_start'][0] not in (sc & 0x3FF, min(sc, 1023)):
        g.append('start CHS %r, want cylinder %d head %d sector %d' % (p['chs_start'], sc, want_start[0], want_start[1]))
    for m in g:
        F.add('mbr-geometry', m)


def _check_range(F, clause, what, entries, image, unit_is_block=False, type_guid=None):
    first, n512 = image
    if type_guid is not None:    # the Mac partition is told apart from the EFI one by its HFS type GUID
        entries = [e for e in entries if e['type_guid'] == type_guid]
        what += ' (entries of type %s only)' % type_guid.hex()
    if unit_is_block:
        ok = [e for e in entries if e['start_block'] == first and e['block_count'] * 4 in (_ceil_to(n512, 4), n512 - n512 % 4)
              and e['block_count'] > 0]
        have = [(e['index'], e['start_block'], e['block_count']) for e in entries]
        want = 'start_block %d, block_count %d' % (first, -(-n512 // 4))
    else:
        ok = [e for e in entries if e['first_lba'] == 4 * first and e['last_lba'] == 4 * first + n512 - 1]
        have = [(e['index'], e['first_lba'], e['last_lba']) for e in entries]
        want = '[%d, %d]' % (4 * first, 4 * first + n512 - 1)
    if not ok:
        F.add(clause, '%s: no entry delimits %s (image at sector %d, %d x 512 bytes); entries: %r' % (what, want, first, n512, have))


def validate_hybrid(img, info, *, iso_sectors, boot_file_sector, geometry_sectors, geometry_heads,
                    part_entry=1, part_offset=0, part_type=None, mbr_id=None, efi=False, mac=False,
                    efi_image=None, mac_image=None):
    """Check `info` (from read_hybrid) against facts known from the ISO 9660 / El Torito side.
    Returns a new Findings: the context-free ones of `info` followed by the contextual ones."""
    F = Findings()
    a = dict(boot_file_sector=boot_file_sector, geometry_sectors=geometry_sectors, geometry_heads=geometry_heads,
             part_entry=part_entry, part_offset=part_offset, part_type=part_type, mbr_id=mbr_id, efi=efi, mac=mac)
    try:
        if info is None:
            F.add('mbr-signature', 'no hybrid system area (no 55aa / empty partition table and rba 0)')
            return F
        F.extend(info['findings'])
        if info.get('mbr') is None:
            if 'unreadable' not in F.clauses():
                F.add('unreadable', 'no MBR decoded')
            return F
        if geometry_heads < 1 or geometry_sectors < 1:
            F.add('mbr-geometry', 'caller geometry %dx%d is not usable' % (geometry_heads, geometry_sectors))
            return F
        _check_mbr(img, info['mbr'], F, a)
        cyl = geometry_heads * geometry_sectors * LBA
        iso_bytes = iso_sectors * 2048
        gpt = info.get('gpt')
        allowed = {_ceil_to(iso_bytes, cyl)}
        if efi:   # room for the backup GPT may legitimately add padding (isohybrid.c does)
            gbytes = LBA + 128 * 128
            if gpt and gpt['backup'] and 0 < gpt['backup']['num_entries'] * gpt['backup']['entry_size'] <= GPT_MAX_ARRAY:
                gbytes = LBA + _ceil_to(gpt['backup']['num_entries'] * gpt['backup']['entry_size'], LBA)
            allowed |= {_ceil_to(iso_bytes + gbytes, cyl), _ceil_to(iso_bytes, cyl) + _ceil_to(gbytes, cyl)}
        if img.size % cyl or img.size not in allowed:
            F.add('pad-cylinder', 'image is %d bytes; ISO is %d bytes, cylinder %d bytes (%dx%dx512): want %s'
                  % (img.size, iso_bytes, cyl, geometry_heads, geometry_sectors, sorted(allowed)))
        if efi:
            if gpt is None:
                F.add('gpt-signature', 'efi requested but there is no "EFI PART" header at LBA 1')
            else:
                last_lba = img.size // LBA - 1
                bak = gpt['backup']
                start = min(bak['entries_lba'], bak['lba']) * LBA if bak else (last_lba - 32) * LBA
                if start < iso_bytes:
                    F.add('gpt-backup-overlaps-iso', 'backup GPT occupies [%d, %d) but the ISO volume extends to byte %d: '
                          '%d bytes of volume space (sectors %d..%d) are overwritten'
                          % (start, img.size, iso_bytes, iso_bytes - start, start // 2048, iso_sectors - 1))
                for tag, ents in (('primary', gpt['entries_primary']), ('backup', gpt['entries_backup'])):
                    if tag == 'backup' and bak is None:
                        continue
                    if efi_image is not None:
                        _check_range(F, 'gpt-efi-partition', tag + ' GPT, EFI image', ents, efi_image)
                    if mac and mac_image is not None:
                        _check_range(F, 'gpt-mac-partition', tag + ' GPT, Mac image', ents, mac_image, type_guid=HFS_GUID)
            mparts = info['mbr']['parts']
            if efi_image is not None and not any(p['type'] == 0xEF and p['lba'] == 4 * efi_image[0] and p['count'] == efi_image[1] for p in mparts):
                F.add('mbr-efi-partition', 'no MBR entry of type 0xef with lba %d count %d; entries: %r'
                      % (4 * efi_image[0], efi_image[1], [(p['index'], p['status'], p['type'], p['lba'], p['count']) for p in mparts]))
            if mac and mac_image is not None and not any(p['status'] == 0 and p['type'] != 0xEF and p['lba'] == 4 * mac_image[0] and p['count'] == mac_image[1] for p in mparts):
                F.add('mbr-mac-partition', 'no inactive non-0xef MBR entry with lba %d count %d; entries: %r'
                      % (4 * mac_image[0], mac_image[1], [(p['index'], p['status'], p['type'], p['lba'], p['count']) for p in mparts]))
        if mac:
            apm = info.get('apm')
            if apm is None or not apm['entries']:
                F.add('apm-signature', 'mac requested but there is no "PM" entry at byte %d' % APM_BLOCK)
            else:
                ents = apm['entries']
                if len(ents) != ents[0]['map_entries']:
                    F.add('apm-map-count', 'map says %d entries, %d readable' % (ents[0]['map_entries'], len(ents)))
                e0 = ents[0]
                if e0['type'] != 'Apple_partition_map' or e0['start_block'] != 1 or e0['block_count'] < len(ents):
                    F.add('apm-self-entry', 'entry 1 should describe the map itself (type Apple_partition_map, start 1, '
                          '>= %d blocks): type %r start %d count %d' % (len(ents), e0['type'], e0['start_block'], e0['block_count']))
                if efi_image is not None:
                    _check_range(F, 'apm-efi-partition', 'APM, EFI image', ents[1:], efi_image, True)
                if mac_image is not None:
                    _check_range(F, 'apm-mac-partition', 'APM, Mac image', ents[1:], mac_image, True)
    except (struct.error, IndexError, KeyError, ValueError, TypeError, OverflowError, ZeroDivisionError, OSError) as e:
        F.add('unreadable', 'validate_hybrid: %s: %s' % (type(e).__name__, e))
    return F
