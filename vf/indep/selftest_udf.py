"""Self-test of vf.indep.udf:  cd /verif && PYTHONPATH=/verif /venv/bin/python -m vf.indep.selftest_udf

(1) builds varied UDF bridge images with pycdlib, reads them back with the independent reader and
    compares the recovered tree with what was added; prints every finding.
(2) single-field corruptions of a valid image: the validator must complain (and never raise/hang).
(3) random field fuzzing: the validator must never raise and must stay fast.
Exit status 1 if the tree comparison fails, the reader raises, or a mutation is not detected.
"""
import collections
import io
import random
import struct
import sys
import time

import pycdlib

from vf.indep.image import Image
from vf.indep import udf as U

BS = 2048


# ------------------------------------------------------------------ (1) image builder + model
class Build:
    """Drives pycdlib and keeps the expected UDF tree: path -> ('dir',) | ('file', bytes) | ('symlink', target)."""

    def __init__(self, rr='1.09', joliet=3, const_random=False):
        self.rr, self.joliet, self.n = rr, joliet, 0
        self.model = {'/': ('dir',)}
        self.iso = pycdlib.PyCdlib()
        self._grb = random.getrandbits
        if const_random:                      # makes main and reserve PVD identical (see report)
            random.getrandbits = lambda k: 0x1234567
        try:
            self.iso.new(interchange_level=3, udf='2.60', rock_ridge=rr, joliet=joliet)
        finally:
            random.getrandbits = self._grb

    def _names(self, prefix, isdir):
        self.n += 1
        base = '%s%05d' % (prefix, self.n)
        kw = {'iso_path': '/' + base + ('' if isdir else '.;1')}
        if self.rr:
            kw['rr_name'] = base.lower()
        if self.joliet:
            kw['joliet_path'] = '/' + base.lower()
        return kw

    def file(self, path, data, udf_only=False):
        kw = {} if udf_only else self._names('F', False)
        self.iso.add_fp(io.BytesIO(data), len(data), udf_path=path, **kw)
        self.model[path] = ('file', data)
        return kw

    def dir(self, path, udf_only=False):
        kw = {} if udf_only else self._names('D', True)
        self.iso.add_directory(udf_path=path, **kw)
        self.model[path] = ('dir',)
        return kw

    def symlink(self, path, target, udf_only=False):
        if udf_only or not self.rr:
            self.iso.add_symlink(udf_symlink_path=path, udf_target=target)
        else:
            self.n += 1
            base = 'S%05d' % self.n
            self.iso.add_symlink(symlink_path='/' + base + '.;1', rr_symlink_name=base.lower(), rr_path=target,
                                 udf_symlink_path=path, udf_target=target)
        self.model[path] = ('symlink', target)

    def link(self, old, new):
        self.iso.add_hard_link(udf_old_path=old, udf_new_path=new)
        self.model[new] = self.model[old]

    def rm_file(self, path):
        self.iso.rm_file(udf_path=path)
        del self.model[path]

    def rm_dir(self, path):
        self.iso.rm_directory(udf_path=path)
        del self.model[path]

    def write(self):
        out = io.BytesIO()
        self.iso.write_fp(out)
        return out.getvalue()

    def reopen(self):
        data = self.write()
        self.iso.close()
        self.iso = pycdlib.PyCdlib()
        self.iso.open_fp(io.BytesIO(data))


def c_empty(b):
    pass


def c_basic(b):
    b.file('/foo', b'hello')
    b.dir('/dir1')
    b.file('/dir1/bar', b'x' * 5000)
    b.symlink('/sym', 'foo')


def c_zero_len(b):
    b.file('/empty', b'')
    b.file('/one', b'1')
    b.file('/exact', b'e' * 2048)
    b.file('/exact2', b'f' * 4096)
    b.file('/plus', b'g' * 2049)


def c_nested(b):
    p = ''
    for i in range(7):
        p += '/d%d' % i
        b.dir(p)
        b.file(p + '/f', ('level %d' % i).encode())


def c_wide(b):
    b.dir('/big')
    for i in range(70):
        b.file('/big/' + ('n%03d_' % i) + 'x' * 95, ('file %d' % i).encode() * (i + 1))


def c_wide_root(b):
    for i in range(70):
        b.file('/' + ('r%03d_' % i) + 'y' * 95, b'r%d' % i, udf_only=True)
    b.dir('/after')
    b.file('/after/z', b'zz')


def c_boundary(b):
    # FID sizes chosen so that descriptors start exactly on / straddle the 2048 byte boundary
    b.dir('/b')
    for i in range(40):
        b.file('/b/' + 'k%02d' % i + 'q' * (i % 9), b'd%d' % i, udf_only=True)
    for i in range(12):
        b.dir('/b/sub%02d' % i, udf_only=True)


def c_exact_fill(b):
    # parent FID is 40 bytes; 13-char names give 52-byte FIDs; the last FID of the first block is sized
    # so that the block is filled exactly and the next FID starts at offset 2048
    b.dir('/e')
    total, i = 40, 0
    while 2048 - (total + 52) >= 44:
        b.file('/e/' + 'n%012d' % i, b'%d' % i, udf_only=True)
        total += 52
        i += 1
    b.file('/e/' + 'z' * (2048 - total - 39), b'last of block', udf_only=True)
    for j in range(3):
        b.file('/e/next%d' % j, b'next block %d' % j, udf_only=True)


def c_unicode(b):
    b.file('/café', b'latin1 name')
    b.file('/日本語', b'ucs2 name')
    b.dir('/дир')
    b.file('/дир/файл.txt', b'cyrillic')
    b.symlink('/リンク', 'дир/файл.txt', udf_only=True)


def c_symlinks(b):
    b.dir('/d')
    b.file('/d/t', b'target')
    b.symlink('/abs', '/d/t', udf_only=True)
    b.symlink('/rel', 'd/t')
    b.symlink('/d/up', '../d/./t', udf_only=True)
    b.symlink('/dot', '.', udf_only=True)
    b.symlink('/long', '/'.join(['component%02d' % i for i in range(40)]), udf_only=True)


def c_rm_file(b):
    c_basic(b)
    b.rm_file('/foo')


def c_rm_all(b):
    c_basic(b)
    b.rm_file('/dir1/bar')
    b.rm_dir('/dir1')
    b.rm_file('/foo')
    b.iso.rm_hard_link(udf_path='/sym')      # rm_file(udf_path=) refuses symlinks ("Cannot remove a directory")
    del b.model['/sym']


def c_rm_dir(b):
    b.dir('/a')
    b.dir('/a/b')
    b.dir('/c')
    b.rm_dir('/a/b')
    b.file('/a/f', b'ff')


def c_rm_wide(b):
    c_wide(b)
    for i in range(0, 70, 2):
        b.rm_file('/big/' + ('n%03d_' % i) + 'x' * 95)


def c_rm_shrink(b):
    c_wide(b)
    for i in range(3, 70):
        b.rm_file('/big/' + ('n%03d_' % i) + 'x' * 95)


def c_reopen(b):
    c_basic(b)
    b.reopen()


def c_reopen_edit(b):
    c_basic(b)
    b.reopen()
    b.file('/new', b'n' * 3000)
    b.dir('/dir2')
    b.rm_file('/foo')


def c_reopen_wide(b):
    c_wide(b)
    b.reopen()
    b.file('/big/extra', b'extra')


def c_hardlink(b):
    b.file('/a', b'shared content')
    b.link('/a', '/b')
    b.dir('/d')
    b.link('/a', '/d/c')


def c_many_dirs(b):
    for i in range(30):
        b.dir('/dir%02d' % i, udf_only=(i % 2 == 1))
        b.file('/dir%02d/f' % i, b'%d' % i, udf_only=True)


def c_big_file(b):
    b.file('/big', bytes(range(256)) * 4 * 700)       # 700 KiB
    b.file('/small', b's')


def c_udf_only(b):
    b.dir('/u', udf_only=True)
    b.file('/u/f', b'udf only', udf_only=True)
    b.symlink('/u/s', 'f', udf_only=True)


def c_mixed(b):
    rnd = random.Random(7)
    dirs = ['']
    for i in range(25):
        d = rnd.choice(dirs) + '/m%d' % i
        b.dir(d, udf_only=True)
        dirs.append(d)
    for i in range(60):
        b.file(rnd.choice(dirs) + '/f%d' % i + 'w' * rnd.randrange(0, 60), rnd.randbytes(rnd.choice([0, 1, 2047, 2048, 2049, 9000])), udf_only=True)


def c_dup_name(b):
    # known defect candidate: pycdlib accepts the same UDF name twice
    b.file('/same', b'first')
    try:
        b.iso.add_fp(io.BytesIO(b'second'), 6, udf_path='/same')
        b.note = 'duplicate UDF name accepted by add_fp'
    except pycdlib.pycdlibexception.PyCdlibException as e:
        b.note = 'duplicate refused: %s' % e


CASES = [
    ('empty', c_empty, {}), ('empty-norr', c_empty, {'rr': None}), ('empty-nojoliet', c_empty, {'joliet': None}),
    ('basic', c_basic, {}), ('basic-norr-nojoliet', c_basic, {'rr': None, 'joliet': None}), ('basic-rr112', c_basic, {'rr': '1.12'}),
    ('zero-len', c_zero_len, {}), ('nested', c_nested, {}), ('wide', c_wide, {}), ('wide-root', c_wide_root, {}),
    ('boundary', c_boundary, {}), ('exact-fill', c_exact_fill, {}), ('unicode', c_unicode, {}),
    ('symlinks', c_symlinks, {}), ('rm-file', c_rm_file, {}), ('rm-all', c_rm_all, {}), ('rm-dir', c_rm_dir, {}),
    ('rm-wide', c_rm_wide, {}), ('rm-shrink', c_rm_shrink, {}), ('reopen', c_reopen, {}), ('reopen-edit', c_reopen_edit, {}),
    ('reopen-wide', c_reopen_wide, {}), ('hardlink', c_hardlink, {}), ('many-dirs', c_many_dirs, {}),
    ('big-file', c_big_file, {}), ('udf-only', c_udf_only, {'rr': None, 'joliet': None}), ('mixed', c_mixed, {}),
    ('mixed-norr', c_mixed, {'rr': None}), ('dup-name', c_dup_name, {}), ('unicode-norr', c_unicode, {'rr': None, 'joliet': None}),
]


def compare(img, info, model):
    """Returns a list of differences between the recovered tree and the model."""
    diffs = []
    tree = info['tree']
    for p in sorted(set(model) | set(tree)):
        if p not in tree:
            diffs.append('missing in image: %r' % p)
            continue
        if p not in model:
            diffs.append('unexpected in image: %r (%s)' % (p, tree[p]['type']))
            continue
        e, m = tree[p], model[p]
        if e['type'] != m[0]:
            diffs.append('%r: type %s, expected %s' % (p, e['type'], m[0]))
            continue
        if p != '/' and e['name'] != p.rsplit('/', 1)[1]:
            diffs.append('%r: name %r' % (p, e['name']))
        if m[0] == 'file' and U.file_bytes(img, e) != m[1]:
            diffs.append('%r: content differs (%d bytes read, %d expected)' % (p, len(U.file_bytes(img, e)), len(m[1])))
        if m[0] == 'symlink' and e['target'] != m[1]:
            diffs.append('%r: target %r, expected %r' % (p, e['target'], m[1]))
    return diffs


def part1():
    print('== (1) pycdlib-written images ==')
    bad = 0
    by_clause = collections.OrderedDict()
    for name, fn, kw in CASES:
        b = Build(**kw)
        try:
            fn(b)
            data = b.write()
        except Exception as e:                                       # pylint: disable=broad-except
            print('  %-22s BUILD FAILED: %r' % (name, e))
            continue
        img = Image(data)
        t0 = time.time()
        info = U.read_udf(img)
        dt = time.time() - t0
        if info is None:
            print('  %-22s NOT RECOGNISED AS UDF' % name)
            bad += 1
            continue
        diffs = compare(img, info, b.model) if name != 'dup-name' else []
        clauses = info['findings'].clauses()
        print('  %-22s %5d sectors %4d nodes %.3fs  tree %s  findings %s %s'
              % (name, img.nsectors, len(info['tree']), dt, 'OK' if not diffs else 'DIFFERS', clauses or '-',
                 getattr(b, 'note', '')))
        for d in diffs[:6]:
            print('        ' + d)
        bad += bool(diffs)
        offs = [e.get('fid_offset', 0) for e in info['tree'].values()]
        if name == 'exact-fill' and 2048 not in offs:
            print('        TEST WEAK: no FID starts exactly at offset 2048')
            bad += 1
        if name == 'wide' and not any(o < 2048 * k < o + e['fid_length'] for e in info['tree'].values() if 'fid_offset' in e
                                      for o in [e['fid_offset']] for k in (1, 2, 3)):
            print('        TEST WEAK: no FID straddles a block boundary')
            bad += 1
        for c, m in info['findings']:
            by_clause.setdefault(c, []).append((name, m))
        b.iso.close()
    print('  -- findings on pycdlib-written images, by clause --')
    for c, items in by_clause.items():
        cases = sorted(set(n for n, _ in items))
        print('  %-16s %3d findings in %d cases: %s' % (c, len(items), len(cases), ', '.join(cases)))
        shown = set()
        for n, m in items:
            if n not in shown and len(shown) < 4:
                shown.add(n)
                print('        [%s] %s' % (n, m))
    return bad


# ------------------------------------------------------------------ (2) mutations
def fix_tag(buf, off, length=None):
    """Recompute CRC (over the recorded CRC length) and checksum of the descriptor at off."""
    crc_len, = struct.unpack_from('<H', buf, off + 10)
    struct.pack_into('<H', buf, off + 8, U.crc_ccitt_bitwise(bytes(buf[off + 16:off + 16 + crc_len])))
    buf[off + 4] = U.tag_checksum(bytes(buf[off:off + 16]))


def baseline():
    b = Build(const_random=True)
    b.file('/foo', b'hello')
    b.file('/fob', b'world')
    b.dir('/dir1')
    b.dir('/dir1/sub')
    b.file('/dir1/bar', b'x' * 5000)
    b.symlink('/sym', 'dir1/bar')
    for i in range(30):
        b.file('/dir1/' + ('n%03d_' % i) + 'x' * 90, b'%d' % i, udf_only=True)
    data = b.write()
    b.iso.close()
    return data


def mutations(data, info):
    """Yields (name, mutated bytes, expected clause(s) or None)."""
    t = info['tree']
    n = len(data) // BS
    last = n - 1
    ps = info['partition']['start']

    def fe(p):
        return t[p]['fe_sector'] * BS

    def mut(name, expect, *edits, fix=()):
        buf = bytearray(data)
        for e in edits:
            off, fmt, val = e
            if callable(val):
                val = val(struct.unpack_from(fmt, buf, off)[0])
            struct.pack_into(fmt, buf, off, val)
        for off in fix:
            fix_tag(buf, off)
        return name, bytes(buf), expect

    inc = lambda v: v + 1
    flip = lambda v: v ^ 0x55
    A, L = 256 * BS, last * BS
    root_dir = t['/']['extents'][0][0] * BS                  # FID area of the root
    dir1_dir = t['/dir1']['extents'][0][0] * BS
    # locate FIDs of the root by walking the area with the FID length rule
    fids = {}
    pos = 0
    while pos < t['/']['length']:
        o = root_dir + pos
        l_fi, l_iu = data[o + 19], struct.unpack_from('<H', data, o + 36)[0]
        nm = data[o + 38 + l_iu:o + 38 + l_iu + l_fi]
        fids[nm[1:].decode('latin-1') if nm else '..'] = o
        pos += (38 + l_iu + l_fi + 3) & ~3
    lvid = info['lvid']['sector'] * BS
    fsd = ps * BS
    bar = fe('/dir1/bar')

    yield mut('anchor256 tag checksum', 'tag-checksum', (A + 4, 'B', flip))
    yield mut('anchor256 tag crc byte', 'tag-crc', (A + 8, 'B', flip))
    yield mut('anchor256 tag location', 'tag-location', (A + 12, '<L', 255), fix=[A])
    yield mut('anchor256 main extent location', 'anchor-mismatch', (A + 20, '<L', 48), fix=[A])
    yield mut('last anchor reserve extent length', 'anchor-mismatch', (L + 24, '<L', 16384), fix=[L])
    yield mut('last anchor zeroed', 'anchor-missing', *[(L + i, '<Q', 0) for i in range(0, 512, 8)])
    yield mut('anchor256 zeroed', 'anchor-missing', *[(A + i, '<Q', 0) for i in range(0, 512, 8)])
    yield ('image grown by one sector', data + b'\0' * BS, 'anchor-missing')
    yield ('image truncated by one sector', data[:-BS], 'anchor-missing')
    yield mut('main PVD payload byte', 'vds-mismatch', (32 * BS + 30, 'B', flip), fix=[32 * BS])
    yield mut('reserve IUVD payload byte', 'vds-mismatch', (49 * BS + 200, 'B', flip), fix=[49 * BS])
    yield mut('main PD length +1', 'vds-mismatch', (34 * BS + 192, '<L', inc), fix=[34 * BS])
    yield mut('both PD length +1', 'lvid-size', (34 * BS + 192, '<L', inc), (50 * BS + 192, '<L', inc), fix=[34 * BS, 50 * BS])
    yield mut('both PD length -5', 'partition-bounds', (34 * BS + 192, '<L', lambda v: v - 5), (50 * BS + 192, '<L', lambda v: v - 5),
              (lvid + 84, '<L', lambda v: v - 5), fix=[34 * BS, 50 * BS, lvid])
    yield mut('both PD length +2 and LVID size', 'partition-bounds', (34 * BS + 192, '<L', lambda v: v + 2),
              (50 * BS + 192, '<L', lambda v: v + 2), (lvid + 84, '<L', lambda v: v + 2), fix=[34 * BS, 50 * BS, lvid])
    yield mut('both PD start +1', None, (34 * BS + 188, '<L', inc), (50 * BS + 188, '<L', inc), fix=[34 * BS, 50 * BS])
    yield mut('main LVD tag ident', 'tag-ident', (35 * BS, '<H', 9))
    yield mut('main PD tag crc length', 'tag-crc', (34 * BS + 10, '<H', 400))
    yield mut('LVID size table +1', 'lvid-size', (lvid + 84, '<L', inc), fix=[lvid])
    yield mut('LVID num files +1', 'lvid-counts', (lvid + 88 + 32, '<L', inc), fix=[lvid])
    yield mut('LVID num dirs -1', 'lvid-counts', (lvid + 88 + 36, '<L', lambda v: v - 1), fix=[lvid])
    yield mut('LVID tag crc', 'tag-crc', (lvid + 9, 'B', flip))
    yield mut('LVID tag location', 'tag-location', (lvid + 12, '<L', inc), fix=[lvid])
    yield mut('both LVD FSD block -> terminator', 'fsd-root', (35 * BS + 252, '<L', 1), (51 * BS + 252, '<L', 1), fix=[35 * BS, 51 * BS])
    yield mut('both LVD FSD block beyond partition', 'partition-bounds', (35 * BS + 252, '<L', 100000), (51 * BS + 252, '<L', 100000),
              fix=[35 * BS, 51 * BS])
    yield mut('FSD root ICB -> a file FE', 'fsd-root', (fsd + 404, '<L', t['/foo']['lbn']), fix=[fsd])
    yield mut('FSD tag location absolute', 'tag-location', (fsd + 12, '<L', ps), fix=[fsd])
    yield mut('root FE info length +4', 'fe-info-length', (fe('/') + 56, '<Q', lambda v: v + 4), fix=[fe('/')])
    yield mut('root FE link count +1', 'dir-link-count', (fe('/') + 48, '<H', inc), fix=[fe('/')])
    yield mut('root FE extent position +1', None, (fe('/') + 180, '<L', inc), fix=[fe('/')])
    yield mut('root FE extent length +2048', 'fe-info-length', (fe('/') + 176, '<L', lambda v: v + 2048), fix=[fe('/')])
    yield mut('dir1 FE info+extent length -40', 'fe-info-length', (fe('/dir1') + 56, '<Q', lambda v: v - 40),
              (fe('/dir1') + 176, '<L', lambda v: v - 40), fix=[fe('/dir1')])
    yield mut('file FE info length +1', 'fe-info-length', (bar + 56, '<Q', inc), fix=[bar])
    yield mut('file FE info length +4096', 'fe-info-length', (bar + 56, '<Q', lambda v: v + 4096), fix=[bar])
    yield mut('file FE extent beyond partition', 'partition-bounds', (bar + 180, '<L', info['partition']['length']), fix=[bar])
    yield mut('file FE link count 0', 'dir-link-count', (bar + 48, '<H', 0), fix=[bar])
    yield mut('file FE split into 1000+4000', 'fe-extent-cover', (bar + 172, '<L', 16), (bar + 176, '<L', 1000),
              (bar + 184, '<L', 4000), (bar + 188, '<L', lambda v, p=struct.unpack_from('<L', data, bar + 180)[0]: p + 1),
              (bar + 10, '<H', lambda v: v + 8), fix=[bar])
    yield mut('file FE extent 5000 -> 5000+2048 two ADs', 'fe-info-length', (bar + 172, '<L', 16), (bar + 184, '<L', 2048),
              (bar + 188, '<L', 3), (bar + 10, '<H', lambda v: v + 8), fix=[bar])
    yield mut('file FE AD type -> inline', 'fe-info-length', (bar + 34, '<H', lambda v: v | 3), fix=[bar])
    yield mut('file FE L_AD huge', 'unreadable', (bar + 172, '<L', 0x7fffffff), fix=[bar])
    yield mut('file FE tag checksum', 'tag-checksum', (bar + 4, 'B', flip))
    yield mut('file FE tag ident 262', 'tag-ident', (bar, '<H', 262))
    yield mut('file FE tag location +1', 'tag-location', (bar + 12, '<L', inc), fix=[bar])
    yield mut('file FE body byte without CRC update', 'tag-crc', (bar + 60, 'B', flip))
    yield mut('root parent FID: parent bit cleared', 'fid-parent', (fids['..'] + 18, 'B', 2), fix=[fids['..']])
    yield mut('root parent FID -> other block', 'fid-parent', (fids['..'] + 24, '<L', t['/dir1']['lbn']), fix=[fids['..']])
    yield mut('dir1 parent FID -> itself', 'fid-parent', (dir1_dir + 24, '<L', t['/dir1']['lbn']), fix=[dir1_dir])
    yield mut('FID L_FI +1 (name absorbs a pad byte)', 'INERT', (fids['foo'] + 19, 'B', inc), fix=[fids['foo']])
    yield mut('FID L_FI +4', None, (fids['foo'] + 19, 'B', lambda v: v + 4), fix=[fids['foo']])
    yield mut('FID L_IU = 4', None, (fids['foo'] + 36, '<H', 4), fix=[fids['foo']])
    yield mut('FID compression id 9', 'name-encoding', (fids['foo'] + 38, 'B', 9), fix=[fids['foo']])
    yield mut('FID name fob -> foo', 'dup-name', (fids['fob'] + 41, 'B', ord('o')), fix=[fids['fob']])
    yield mut('FID tag location +1', 'tag-location', (fids['foo'] + 12, '<L', inc), fix=[fids['foo']])
    yield mut('FID tag crc', 'tag-crc', (fids['foo'] + 8, 'B', flip))
    yield mut('FID tag checksum', 'tag-checksum', (fids['foo'] + 4, 'B', flip))
    yield mut('FID dir1 ICB -> root FE', 'cycle', (fids['dir1'] + 24, '<L', t['/']['lbn']), fix=[fids['dir1']])
    yield mut('FID foo ICB -> beyond partition', 'partition-bounds', (fids['foo'] + 24, '<L', 5000), fix=[fids['foo']])
    yield mut('FID foo ICB -> data block', 'tag-ident', (fids['foo'] + 24, '<L', t['/dir1/bar']['extents'][0][0] - ps), fix=[fids['foo']])
    yield mut('sub-directory FE type dir -> file', 'dir-link-count', (fe('/dir1/sub') + 27, 'B', 5), fix=[fe('/dir1/sub')])
    sd = t['/sym']['extents'][0][0] * BS
    yield mut('symlink component type 9', 'unreadable', (sd, 'B', 9))
    yield mut('symlink component length overrun', 'unreadable', (sd + 1, 'B', 200))
    yield mut('NSR02 -> NSRXX', 'NOT-UDF', (20 * BS + 4, '<H', 0x5858))
    yield mut('TEA01 erased', 'vrs', (21 * BS + 1, '<L', 0))
    yield mut('BEA01 erased', 'vrs', (19 * BS + 1, '<L', 0))


def run_bounded(data, last=None):
    t0 = time.time()
    info = U.read_udf(Image(data), last)
    return info, time.time() - t0


def part2():
    print('== (2) single-field corruptions of a valid image ==')
    data = baseline()
    info, _ = run_bounded(data)
    base = list(info['findings'])
    print('  baseline: %d sectors, %d nodes, findings: %r' % (len(data) // BS, len(info['tree']), base))
    # sanity: sector numbers assumed by the mutations
    assert [a[0] for a in info['alloc'] if a[2] == 'udf-vds-main'] == [32], info['alloc']
    undetected, wrong_clause, total = [], [], 0
    for name, mdata, expect in mutations(data, info):
        total += 1
        try:
            minfo, dt = run_bounded(mdata)
        except Exception as e:                                       # pylint: disable=broad-except
            print('  RAISED   %-44s %r' % (name, e))
            undetected.append(name + ' (raised)')
            continue
        if minfo is None:
            new, clauses = ['NOT-UDF'], ['NOT-UDF']
        else:
            new = [f for f in minfo['findings'] if f not in base]
            clauses = sorted(set(c for c, _ in new))
        status = 'detected' if new else 'MISSED'
        if new and expect and expect not in clauses:
            status = 'other   '
            wrong_clause.append((name, expect, clauses))
        if not new and expect == 'INERT':
            status = 'inert   '
        elif not new:
            undetected.append(name)
        print('  %s %-44s %.3fs %s' % (status, name, dt, clauses))
    print('  %d mutations, %d undetected: %r' % (total, len(undetected), undetected))
    if wrong_clause:
        print('  detected but not by the expected clause:')
        for w in wrong_clause:
            print('     %s: expected %s, got %s' % w)
    return len(undetected)


def part3(rounds=600):
    print('== (3) random fuzzing of pointer-ish fields (never raise, never hang) ==')
    data = baseline()
    info, _ = run_bounded(data)
    fields = info['fields']
    rnd = random.Random(2026)
    worst, raised, silent = 0.0, 0, 0
    interesting = [0, 1, 2, 0xff, 0x7fffffff, 0xffffffff, 0xfffffffe, 255, 256, 257, 2047, 2048, 2049, 0x40000000, 0x80000000]
    for i in range(rounds):
        buf = bytearray(data)
        touched = []
        for _ in range(rnd.choice([1, 1, 1, 2, 3])):
            off, ln, kind = rnd.choice(fields)
            if ln > 8:
                ln = 4
            v = rnd.choice(interesting) if rnd.random() < 0.6 else rnd.getrandbits(8 * ln)
            buf[off:off + ln] = (v & ((1 << (8 * ln)) - 1)).to_bytes(ln, 'little')
            touched.append((off // BS) * BS if not kind.startswith('fid') else None)
        if rnd.random() < 0.7:                                # keep tags valid so that the parser goes deep
            for o in touched:
                if o is not None:
                    fix_tag(buf, o)
        if rnd.random() < 0.1:
            cut = rnd.randrange(257 * BS, len(buf))
            buf = buf[:cut]
        try:
            minfo, dt = run_bounded(bytes(buf))
        except Exception as e:                                       # pylint: disable=broad-except
            raised += 1
            print('  RAISED on round %d: %r' % (i, e))
            continue
        worst = max(worst, dt)
        if minfo is not None and list(minfo['findings']) == list(info['findings']) and bytes(buf) != data:
            silent += 1
    # whole-sector garbage
    for i in range(100):
        buf = bytearray(data)
        s = rnd.choice([16, 19, 20, 32, 34, 35, 48, 64, 256, 257, 258, 259, 260, 261, len(data) // BS - 1])
        buf[s * BS:(s + 1) * BS] = rnd.randbytes(BS)
        try:
            _, dt = run_bounded(bytes(buf))
            worst = max(worst, dt)
        except Exception as e:                                       # pylint: disable=broad-except
            raised += 1
            print('  RAISED on garbage sector %d: %r' % (s, e))
    print('  %d rounds, %d raised, slowest %.3fs, %d mutated images without any new finding (value unchanged or semantically inert field)'
          % (rounds + 100, raised, worst, silent))
    return raised + (worst > 5.0)


def part0():
    rnd = random.Random(1)
    for _ in range(50):
        d = rnd.randbytes(rnd.randrange(0, 600))
        assert U.crc_ccitt(d) == U.crc_ccitt_bitwise(d)
    assert U.crc_ccitt(b'123456789') == 0x31C3              # CRC-16/XMODEM check value (published catalogue value)
    print('== (0) CRC-CCITT self check OK ==')


def main():
    part0()
    bad = part1()
    bad += part2()
    bad += part3()
    print('RESULT: %s' % ('OK' if not bad else '%d problem(s)' % bad))
    return 1 if bad else 0


if __name__ == '__main__':
    sys.exit(main())
