"""Independent reader/validator for the UDF bridge (ECMA-167 3rd ed. / UDF 2.60) part of an image.

Written from the standards; shares no code or tables with pycdlib.  It starts from the volume
recognition sequence and the anchor points only and follows the standard's pointers:

    anchor -> main/reserve VDS -> PD (partition), LVD (partition maps, FSD long_ad, integrity extent)
           -> LVID, FSD -> root ICB -> (E)FE -> allocation descriptors -> FIDs -> child ICBs ...

Layouts (all little endian; part/clause of ECMA-167 in brackets):
  tag [3/7.2]       ident H, version H, checksum B, rsvd B, serial H, crc H, crc_len H, location L
  AVDP [3/10.2]     tag, main extent_ad(len L, loc L) @16, reserve extent_ad @24
  PD [3/10.5]       vdsn L @16, flags H @20, number H @22, ..., start L @188, length L @192
  LVD [3/10.6]      vdsn L @16, block size L @212, contents use long_ad @248, MT_L L @264,
                    N_PM L @268, integrity extent_ad @432, partition maps @440
  LVID [3/10.10]    time @16, type L @28, next extent_ad @32, contents use @40, N_P L @72,
                    L_IU L @76, free table @80, size table, impl use (regid 32, files L, dirs L, ...)
  FSD [4/14.1]      root ICB long_ad @400, next extent @448, system stream dir ICB @464
  ICB tag [4/14.6]  prior L, strategy H, param 2, max entries H, rsvd B, file type B @11,
                    parent lb_addr 6, flags H @18
  FE [4/14.9]       icbtag @16, link H @48, info len Q @56, blocks Q @64, times @72/84/96,
                    unique id Q @160, L_EA L @168, L_AD L @172, EAs @176, ADs
  EFE [4/14.17]     link H @48, info len Q @56, object size Q @64, blocks Q @72, times access @80,
                    modification @92, creation @104, attribute @116, unique id Q @200, L_EA L @208,
                    L_AD L @212, EAs @216, ADs
  FID [4/14.4]      version H @16, characteristics B @18, L_FI B @19, ICB long_ad @20, L_IU H @36,
                    impl use @38, identifier, padding to a multiple of 4
  short_ad [4/14.14.1] len L (top two bits: extent type), position L
  long_ad [4/14.14.2]  len L, lbn L, partition reference H, impl use 6
  path component [4/14.16.1]  type B, L_CI B, version H, identifier

Finding clauses: vrs anchor-missing anchor-mismatch tag-ident tag-checksum tag-crc tag-location
vds-mismatch partition-bounds lvid-size lvid-counts fsd-root fe-info-length fe-extent-cover
fid-parent dir-link-count name-encoding dup-name cycle unreadable.
"""
import struct
from collections import deque

from vf.indep.image import Image, Findings, SECTOR

BS = SECTOR
MAX_DIR_BYTES = 32 << 20      # a directory's FID stream larger than this is not parsed
MAX_NODES = 1 << 20           # total number of FIDs followed
MAX_SYMLINK_BYTES = 1 << 16
LEN_MASK = 0x3FFFFFFF

FT_DIR, FT_FILE, FT_SYMLINK = 4, 5, 12


def crc_ccitt_bitwise(data, crc=0):
    """CRC-CCITT, polynomial x^16+x^12+x^5+1 (0x1021), initial value 0, MSB first, no final xor."""
    for b in data:
        crc ^= b << 8
        for _ in range(8):
            crc <<= 1
            if crc & 0x10000:
                crc ^= 0x11021
    return crc & 0xFFFF


# Byte-at-a-time speed-up; the table is *computed* from the bitwise routine above, not copied.
_TABLE = [crc_ccitt_bitwise(bytes([i])) for i in range(256)]


def crc_ccitt(data):
    crc = 0
    for b in data:
        crc = ((crc << 8) & 0xFFFF) ^ _TABLE[(crc >> 8) ^ b]
    return crc


def tag_checksum(tag16):
    """ECMA-167 3/7.2.3: sum modulo 256 of bytes 0-3 and 5-15 of the tag."""
    return (sum(tag16[0:4]) + sum(tag16[5:16])) & 0xFF


def decode_cs0(raw):
    """OSTA CS0 d-characters (UDF 2.1.1) -> (str, ok).  raw includes the compression id."""
    if not raw:
        return '', False
    cid, body = raw[0], raw[1:]
    if cid == 8:
        return ''.join(chr(b) for b in body), True
    if cid == 16:
        units = [(body[i] << 8) | body[i + 1] for i in range(0, len(body) - 1, 2)]
        # 16-bit units; UDF 2.60 (2.1.1) lets them be UTF-16, so a surrogate pair is one character
        text = ''.join(chr(u) for u in units)
        try:
            text = text.encode('utf-16-be', 'surrogatepass').decode('utf-16-be')
        except UnicodeDecodeError:
            pass
        return text, len(body) % 2 == 0
    return ''.join(chr(b) for b in body), False


def _blocks(nbytes):
    return (nbytes + BS - 1) // BS


class _Reader:
    def __init__(self, img, last_sector):
        self.img = img
        self.last = img.nsectors - 1 if last_sector is None else last_sector
        self.f = Findings()
        self.alloc, self.fields = [], []
        self.anchors, self.anchor_info = [], {}
        self.partition, self.lvid = None, None
        self.parts = {}            # partition reference number -> (start, length)
        self.tree = {}
        self.fes = {}              # absolute FE sector -> parsed core entry
        self.dirs_seen = set()
        self.nodes = 0

    # ---------------------------------------------------------------- low level
    def check_tag(self, buf, abs_off, expect, loc, what):
        """Validate the tag at buf[0:16]; buf holds the descriptor.  Returns (ident, intact) or None
        when the descriptor cannot be interpreted.  intact = checksum and CRC both fine."""
        if len(buf) < 16:
            self.f.add('unreadable', '%s: short read (%d bytes)' % (what, len(buf)))
            return None
        ident, _ver, cks, _rsv, _serial, crc, crc_len, tloc = struct.unpack_from('<HHBBHHHL', buf, 0)
        if expect is not None and ident not in expect:
            self.f.add('tag-ident', '%s: tag identifier %d, expected %s' % (what, ident, '/'.join(map(str, expect))))
            return None
        intact = True
        if tag_checksum(buf[:16]) != cks:
            intact = False
            self.f.add('tag-checksum', '%s: stored %d computed %d' % (what, cks, tag_checksum(buf[:16])))
        if 16 + crc_len > len(buf):
            intact = False
            self.f.add('tag-crc', '%s: CRC length %d exceeds the %d bytes available' % (what, crc_len, len(buf) - 16))
        elif crc_ccitt(buf[16:16 + crc_len]) != crc:
            intact = False
            self.f.add('tag-crc', '%s: stored 0x%04x computed 0x%04x over %d bytes'
                       % (what, crc, crc_ccitt(buf[16:16 + crc_len]), crc_len))
        if tloc != loc:
            self.f.add('tag-location', '%s: tag location %d, recorded at %d' % (what, tloc, loc))
        if abs_off is not None:
            self.fields += [(abs_off, 2, 'tag-ident'), (abs_off + 4, 1, 'tag-checksum'), (abs_off + 8, 2, 'tag-crc'),
                            (abs_off + 10, 2, 'tag-crc-length'), (abs_off + 12, 4, 'tag-location')]
        return ident, intact

    def desc(self, sector, expect, loc, what):
        """Read the descriptor that starts at absolute sector; returns (ident, buf, intact) or None."""
        buf = self.img.sector(sector)
        if len(buf) < BS:
            self.f.add('unreadable', '%s: sector %d is outside the image' % (what, sector))
            return None
        crc_len = struct.unpack_from('<H', buf, 10)[0]
        if 16 + crc_len > BS:
            buf = self.img.read(sector * BS, 16 + crc_len)
        t = self.check_tag(buf, sector * BS, expect, loc, '%s @%d' % (what, sector))
        if t is None:
            return None
        return t[0], buf, t[1]

    def blk(self, lbn, pref, nblocks, what):
        """Partition-relative block -> absolute sector, with the partition-bounds check."""
        if pref not in self.parts:
            self.f.add('partition-bounds', '%s: partition reference %d is not in the partition map table' % (what, pref))
            if not self.parts:
                return None
            pref = sorted(self.parts)[0]
        start, length = self.parts[pref]
        if lbn + max(nblocks, 1) > length:
            self.f.add('partition-bounds', '%s: blocks [%d,%d) outside partition of %d blocks (start %d)'
                       % (what, lbn, lbn + max(nblocks, 1), length, start))
        if start + lbn + max(nblocks, 1) > self.img.nsectors:
            self.f.add('unreadable', '%s: blocks [%d,%d) lie outside the image' % (what, lbn, lbn + nblocks))
            return None
        return start + lbn

    # ---------------------------------------------------------------- volume recognition
    def vrs(self):
        """Returns True if an NSR02/NSR03 descriptor is present."""
        seq, unknown = [], []
        # Lenient scan (a damaged BEA01 must give a 'vrs' finding, not "no UDF here"): look at a
        # bounded window, skip ISO9660 descriptors, remember sectors that are not descriptors.
        for s in range(16, min(16 + 48, self.img.nsectors)):
            d = self.img.sector(s)
            ident = d[1:6]
            if ident in (b'CD001', b'CDW02'):
                continue
            if ident not in (b'BEA01', b'NSR02', b'NSR03', b'TEA01', b'BOOT2'):
                unknown.append(s)
                continue
            seq.append((ident, s))
            if ident == b'TEA01':
                break
        names = [i for i, _ in seq]
        nsr = [i for i in names if i in (b'NSR02', b'NSR03')]
        if not nsr:
            return False
        for ident, s in seq:
            self.alloc.append((s, 1, 'udf-vrs', ident.decode('ascii')))
        gaps = [s for s in unknown if seq[0][1] < s < seq[-1][1]]
        if gaps:
            self.f.add('vrs', 'sectors %r inside the extended area are not volume structure descriptors' % gaps)
        ni = names.index(nsr[0])
        if b'BEA01' not in names[:ni]:
            self.f.add('vrs', 'no BEA01 before %s: %r' % (nsr[0].decode(), names))
        if b'TEA01' not in names[ni:]:
            self.f.add('vrs', 'no TEA01 after %s: %r' % (nsr[0].decode(), names))
        for ident, s in seq:
            d = self.img.sector(s)
            if d[0] != 0 or d[6] != 1:
                self.f.add('vrs', '%s @%d: structure type %d version %d' % (ident.decode(), s, d[0], d[6]))
        return True

    # ---------------------------------------------------------------- anchors and VDS
    def read_anchors(self):
        required = [256, self.last]
        for s in [256, self.last, self.last - 256]:
            if s in self.anchor_info or s < 0:
                continue
            raw = self.img.sector(s)
            is_anchor = len(raw) == BS and struct.unpack_from('<H', raw, 0)[0] == 2
            if not is_anchor:
                if s in required:
                    self.f.add('anchor-missing', 'no anchor volume descriptor pointer at sector %d' % s)
                continue
            r = self.desc(s, (2,), s, 'anchor')
            if r is None or not r[2]:
                if s in required:
                    self.f.add('anchor-missing', 'anchor at sector %d is damaged' % s)
                continue
            buf = r[1]
            self.anchor_info[s] = struct.unpack_from('<LLLL', buf, 16)   # main len, loc, reserve len, loc
            self.anchors.append(s)
            self.alloc.append((s, 1, 'udf-anchor', None))
            o = s * BS
            self.fields += [(o + 16, 4, 'anchor-main-length'), (o + 20, 4, 'anchor-main-location'),
                            (o + 24, 4, 'anchor-reserve-length'), (o + 28, 4, 'anchor-reserve-location')]
        vals = set(self.anchor_info.values())
        if len(vals) > 1:
            self.f.add('anchor-mismatch', 'anchors disagree: %r' % (self.anchor_info,))

    def read_vds(self, loc, length, kind):
        """Returns the list of descriptors (ident, sector, buf) of one volume descriptor sequence."""
        out, hops = [], 0
        nsec = _blocks(length)
        self.alloc.append((loc, nsec, kind, None))
        s, end = loc, loc + nsec
        while s < end and len(out) < 1024:
            raw = self.img.sector(s)
            if len(raw) < BS:
                self.f.add('unreadable', '%s: sector %d outside the image' % (kind, s))
                break
            if not any(raw):
                break                                   # unrecorded sector ends the sequence [3/8.4.2]
            r = self.desc(s, (1, 3, 4, 5, 6, 7, 8), s, kind)
            if r is None:
                break
            ident, buf, _ = r
            out.append((ident, s, buf))
            if ident == 8:
                break
            if ident == 3:                              # volume descriptor pointer: continue elsewhere
                nlen, nloc = struct.unpack_from('<LL', buf, 20)
                hops += 1
                if not nlen or hops > 8:
                    break
                self.alloc.append((nloc, _blocks(nlen), kind, None))
                s, end = nloc, nloc + _blocks(nlen)
                continue
            s += 1
        return out

    def compare_vds(self, main, reserve):
        def key(d):
            ident, _s, buf = d
            ver, _c, _r, serial, _crc, crc_len = struct.unpack_from('<HBBHHH', buf, 2)
            return ident, ver, serial, crc_len, bytes(buf[16:16 + crc_len])
        a, b = [key(d) for d in main], [key(d) for d in reserve]
        if [k[0] for k in a] != [k[0] for k in b]:
            self.f.add('vds-mismatch', 'main VDS has tags %r, reserve VDS has %r' % ([k[0] for k in a], [k[0] for k in b]))
            return
        for x, y, d, e in zip(a, b, main, reserve):
            if x != y:
                diff = [i + 16 for i in range(min(len(x[4]), len(y[4]))) if x[4][i] != y[4][i]]
                self.f.add('vds-mismatch', 'descriptor tag %d differs between main @%d and reserve @%d (offsets %r)'
                           % (x[0], d[1], e[1], diff[:8] or 'tag fields'))

    def volume(self):
        """Anchors, VDS, partition, LVID.  Returns the LVD's FSD long_ad (len, lbn, pref) or None."""
        self.read_anchors()
        if not self.anchors:
            return None
        first = 256 if 256 in self.anchor_info else self.anchors[0]
        mlen, mloc, rlen, rloc = self.anchor_info[first]
        main = self.read_vds(mloc, mlen, 'udf-vds-main')
        reserve = self.read_vds(rloc, rlen, 'udf-vds-reserve') if rlen else []
        if rlen:
            self.compare_vds(main, reserve)
        if not any(d[0] in (5, 6) for d in main):
            main = reserve                              # be lenient: try to go on with the reserve copy
        pds, lvd = {}, None
        for ident, s, buf in main:
            if len(buf) < 512:
                continue
            vdsn = struct.unpack_from('<L', buf, 16)[0]
            if ident == 5:
                num = struct.unpack_from('<H', buf, 22)[0]
                if num not in pds or pds[num][0] <= vdsn:
                    pds[num] = (vdsn,) + struct.unpack_from('<LL', buf, 188) + (s,)
            elif ident == 6 and (lvd is None or lvd[0] <= vdsn):
                lvd = (vdsn, s, buf)
        if lvd is None or not pds:
            self.f.add('unreadable', 'volume descriptor sequence lacks a %s' % ('logical volume descriptor' if lvd is None else 'partition descriptor'))
            return None
        _, ls, lb = lvd
        bsize, = struct.unpack_from('<L', lb, 212)
        if bsize != BS:
            self.f.add('unreadable', 'logical block size %d is not supported' % bsize)
            return None
        fsd_len, fsd_lbn, fsd_pref = struct.unpack_from('<LLH', lb, 248)
        mt_l, n_pm = struct.unpack_from('<LL', lb, 264)
        ilen, iloc = struct.unpack_from('<LL', lb, 432)
        o = ls * BS
        self.fields += [(o + 248, 4, 'lvd-fsd-length'), (o + 252, 4, 'lvd-fsd-lbn'), (o + 256, 2, 'lvd-fsd-partref'),
                        (o + 264, 4, 'lvd-map-table-length'), (o + 268, 4, 'lvd-num-maps'),
                        (o + 432, 4, 'lvd-integrity-length'), (o + 436, 4, 'lvd-integrity-location')]
        pos, end = 440, min(440 + mt_l, len(lb))
        for ref in range(min(n_pm, 64)):
            if pos + 2 > end or lb[pos + 1] < 2 or pos + lb[pos + 1] > end:
                self.f.add('unreadable', 'LVD @%d: partition map %d overruns the map table' % (ls, ref))
                break
            mtype, mlen_ = lb[pos], lb[pos + 1]
            if mtype == 1 and mlen_ == 6:
                _vsn, pnum = struct.unpack_from('<HH', lb, pos + 2)
                if pnum in pds:
                    self.parts[ref] = pds[pnum][1:3]
                    ps = pds[pnum][3] * BS
                    self.fields += [(ps + 188, 4, 'pd-start'), (ps + 192, 4, 'pd-length')]
                else:
                    self.f.add('unreadable', 'LVD @%d: map %d names partition %d which has no descriptor' % (ls, ref, pnum))
            else:
                self.f.add('unreadable', 'LVD @%d: partition map %d of type %d is not supported' % (ls, ref, mtype))
            pos += mlen_
        if not self.parts:
            return None
        start, length = self.parts[sorted(self.parts)[0]]
        self.partition = {'start': start, 'length': length}
        if start + length > self.last:
            self.f.add('partition-bounds', 'partition [%d,%d) does not end before the last anchor sector %d'
                       % (start, start + length, self.last))
        if ilen:
            self.read_lvid(iloc, ilen)
        return fsd_len, fsd_lbn, fsd_pref

    def read_lvid(self, loc, length):
        hops = 0
        self.alloc.append((loc, _blocks(length), 'udf-lvid', None))
        s, end = loc, loc + _blocks(length)
        while s < end:
            raw = self.img.sector(s)
            if len(raw) < BS or not any(raw):
                break
            r = self.desc(s, (9, 8), s, 'logical volume integrity sequence')
            if r is None or r[0] == 8:
                break
            buf = r[1]
            n_p, l_iu = struct.unpack_from('<LL', buf, 72)
            if 80 + 8 * n_p + l_iu > len(buf) or l_iu < 46:
                self.f.add('unreadable', 'LVID @%d: %d partitions and %d bytes of implementation use do not fit' % (s, n_p, l_iu))
                break
            free = list(struct.unpack_from('<%dL' % n_p, buf, 80))
            size = list(struct.unpack_from('<%dL' % n_p, buf, 80 + 4 * n_p))
            iu = 80 + 8 * n_p
            nfiles, ndirs = struct.unpack_from('<LL', buf, iu + 32)
            self.lvid = {'num_files': nfiles, 'num_dirs': ndirs, 'size_table': size, 'free_table': free,
                         'sector': s, 'integrity_type': struct.unpack_from('<L', buf, 28)[0],
                         'unique_id': struct.unpack_from('<Q', buf, 40)[0], 'time': bytes(buf[16:28])}
            o = s * BS
            self.fields += [(o + 72, 4, 'lvid-num-partitions'), (o + 76, 4, 'lvid-impl-use-length'),
                            (o + 80, 4 * n_p, 'lvid-free-table'), (o + 80 + 4 * n_p, 4 * n_p, 'lvid-size-table'),
                            (o + iu + 32, 4, 'lvid-num-files'), (o + iu + 36, 4, 'lvid-num-dirs')]
            nlen, nloc = struct.unpack_from('<LL', buf, 32)
            if nlen and hops < 8:                       # next integrity extent [3/10.10.4]
                hops += 1
                self.alloc.append((nloc, _blocks(nlen), 'udf-lvid', None))
                s, end = nloc, nloc + _blocks(nlen)
                continue
            s += 1
        if self.lvid is None:
            self.f.add('unreadable', 'no logical volume integrity descriptor in extent (%d, %d bytes)' % (loc, length))
            return
        for ref in sorted(self.parts):
            size = self.lvid['size_table']
            if ref >= len(size) or size[ref] != self.parts[ref][1]:
                self.f.add('lvid-size', 'LVID size table %r, partition %d has length %d' % (size, ref, self.parts[ref][1]))

    # ---------------------------------------------------------------- file set
    def file_set(self, fsd_len, fsd_lbn, fsd_pref):
        """Returns the root ICB (lbn, pref) or None."""
        nblk = max(_blocks(fsd_len), 1)
        sec = self.blk(fsd_lbn, fsd_pref, nblk, 'file set descriptor sequence')
        if sec is None:
            self.f.add('fsd-root', 'LVD contents use (%d bytes at block %d) cannot be read' % (fsd_len, fsd_lbn))
            return None
        self.alloc.append((sec, nblk, 'udf-fsd', None))
        r = self.desc(sec, (256,), fsd_lbn, 'file set descriptor')
        if r is None:
            self.f.add('fsd-root', 'LVD contents use does not point at a file set descriptor (sector %d)' % sec)
            return None
        buf = r[1]
        for i in range(1, nblk):                        # rest of the sequence: more FSDs or a terminator
            raw = self.img.sector(sec + i)
            if len(raw) < BS or not any(raw):
                break
            t = self.desc(sec + i, (256, 8), fsd_lbn + i, 'file set descriptor sequence')
            if t is None or t[0] == 8:
                break
        rlen, rlbn, rpref = struct.unpack_from('<LLH', buf, 400)
        o = sec * BS
        self.fields += [(o + 400, 4, 'fsd-root-length'), (o + 404, 4, 'fsd-root-lbn'), (o + 408, 2, 'fsd-root-partref')]
        if rlen == 0:
            self.f.add('fsd-root', 'FSD @%d: root directory ICB has length 0' % sec)
            return None
        return rlbn, rpref

    # ---------------------------------------------------------------- file entries
    def read_ads(self, buf, pos, l_ad, adtype, pref, sec, what):
        """Parse allocation descriptors; returns list of (abs_sector or None, byte_len)."""
        size = {0: 8, 1: 16, 2: 20}[adtype]
        out, chain, end = [], 0, pos + l_ad
        base = sec * BS
        while pos + size <= end and len(out) < 100000:
            if adtype == 0:
                raw, lbn = struct.unpack_from('<LL', buf, pos)
                p = pref
            elif adtype == 1:
                raw, lbn, p = struct.unpack_from('<LLH', buf, pos)
            else:
                raw, _rec, _inf, lbn, p = struct.unpack_from('<LLLLH', buf, pos)
            self.fields += [(base + pos, 4, 'ad-length'), (base + pos + (12 if adtype == 2 else 4), 4, 'ad-position')]
            etype, elen = raw >> 30, raw & LEN_MASK
            pos += size
            if elen == 0:
                break                                   # [4/12.1]: a zero length descriptor terminates
            if etype == 3:                              # next extent of allocation descriptors [4/14.5]
                chain += 1
                asec = self.blk(lbn, p, 1, what + ' allocation extent') if chain <= 64 else None
                r = self.desc(asec, (258,), lbn, what + ' allocation extent descriptor') if asec is not None else None
                if r is None:
                    self.f.add('unreadable', '%s: cannot follow allocation extent at block %d' % (what, lbn))
                    break
                self.alloc.append((asec, 1, 'udf-fe', what))
                buf, base = r[1], asec * BS
                pos, end = 24, min(24 + struct.unpack_from('<L', buf, 20)[0], len(buf))
                continue
            if etype == 0:
                out.append((self.blk(lbn, p, _blocks(elen), what + ' extent'), elen))
            else:
                out.append((None, elen))                # allocated-not-recorded / not allocated: reads as zeros
        return out

    def read_fe(self, lbn, pref, path):
        """Parse the (extended) file entry at partition block lbn; returns a core entry or None."""
        what = 'FE of %s' % path
        sec = self.blk(lbn, pref, 1, what)
        if sec is None:
            return None
        if sec in self.fes:
            return self.fes[sec]
        r = self.desc(sec, (261, 266), lbn, what)
        if r is None:
            return None
        ident, buf, _ = r
        ftype = buf[16 + 11]
        flags, = struct.unpack_from('<H', buf, 16 + 18)
        link, = struct.unpack_from('<H', buf, 48)
        info_len, = struct.unpack_from('<Q', buf, 56)
        if ident == 261:
            blocks_rec, = struct.unpack_from('<Q', buf, 64)
            times = [bytes(buf[o:o + 12]) for o in (72, 84, 96)]
            uid_off, base = 160, 176
        else:
            blocks_rec, = struct.unpack_from('<Q', buf, 72)
            times = [bytes(buf[o:o + 12]) for o in (80, 92, 116, 104)]
            uid_off, base = 200, 216
        unique_id, l_ea, l_ad = struct.unpack_from('<QLL', buf, uid_off)
        o = sec * BS
        self.fields += [(o + 16 + 11, 1, 'icb-file-type'), (o + 16 + 18, 2, 'icb-flags'), (o + 48, 2, 'fe-link-count'),
                        (o + 56, 8, 'fe-info-length'), (o + uid_off + 8, 4, 'fe-ea-length'), (o + uid_off + 12, 4, 'fe-ad-length')]
        ent = {'type': {FT_DIR: 'dir', FT_SYMLINK: 'symlink'}.get(ftype, 'file'), 'fe_sector': sec, 'lbn': lbn,
               'partref': pref, 'length': info_len, 'extents': [], 'inline': None, 'link_count': link, 'target': None,
               'times': times, 'file_type': ftype, 'icb_flags': flags, 'tag_ident': ident, 'unique_id': unique_id,
               'blocks_recorded': blocks_rec, 'perms': struct.unpack_from('<L', buf, 44)[0],
               'uid': struct.unpack_from('<L', buf, 36)[0], 'gid': struct.unpack_from('<L', buf, 40)[0],
               'strategy': struct.unpack_from('<H', buf, 20)[0], 'first_path': path}
        self.fes[sec] = ent
        self.alloc.append((sec, 1, 'udf-fe', path))
        ad_pos = base + l_ea
        if ad_pos + l_ad > len(buf) or ad_pos + l_ad > BS:
            self.f.add('unreadable', '%s @%d: L_EA %d + L_AD %d overrun the logical block' % (what, sec, l_ea, l_ad))
            ent['broken'] = True
            return ent
        adtype = flags & 7
        if adtype == 3:
            ent['inline'] = bytes(buf[ad_pos:ad_pos + l_ad])
            ent['inline_offset'] = o + ad_pos
            total, nblk, cover_ok = l_ad, 0, True
        elif adtype in (0, 1, 2):
            ent['extents'] = ex = self.read_ads(buf, ad_pos, l_ad, adtype, pref, sec, what)
            total = sum(n for _, n in ex)
            nblk = sum(_blocks(n) for _, n in ex)
            cover_ok = all(n % BS == 0 for _, n in ex[:-1]) and nblk == _blocks(info_len)
            kind = 'udf-dir' if ftype == FT_DIR else 'udf-data'
            for a, n in ex:
                if a is not None:
                    self.alloc.append((a, _blocks(n), kind, path))
        else:
            self.f.add('unreadable', '%s @%d: allocation descriptor type %d' % (what, sec, adtype))
            ent['broken'] = True
            return ent
        if total != info_len:
            self.f.add('fe-info-length', '%s @%d: information length %d, allocation descriptors describe %d bytes'
                       % (what, sec, info_len, total))
        if adtype != 3 and not cover_ok:
            self.f.add('fe-extent-cover', '%s @%d: extents %r cover %d blocks, information length %d needs %d'
                       % (what, sec, [n for _, n in ent['extents']][:8], nblk, info_len, _blocks(info_len)))
        if adtype != 3 and blocks_rec != nblk:
            # ECMA-167 4/14.9.11: the number of logical blocks recorded as specified by the allocation descriptors
            self.f.add('fe-blocks-recorded', '%s @%d: Logical Blocks Recorded %d, the allocation descriptors record %d blocks'
                       % (what, sec, blocks_rec, nblk))
        if ent['type'] != 'dir' and link < 1:
            self.f.add('dir-link-count', '%s @%d: file link count %d' % (what, sec, link))
        if ent['type'] == 'symlink':
            ent['target'] = self.symlink_target(ent, what)
        return ent

    def symlink_target(self, ent, what):
        data = b''.join(iter_file_chunks(self.img, ent, limit=MAX_SYMLINK_BYTES))
        comps, pos, absolute = [], 0, False
        while pos < len(data):
            if pos + 4 > len(data) or pos + 4 + data[pos + 1] > len(data):
                self.f.add('unreadable', '%s: path component at offset %d overruns the %d bytes of symlink data' % (what, pos, len(data)))
                break
            ctype, l_ci = data[pos], data[pos + 1]
            ident = data[pos + 4:pos + 4 + l_ci]
            pos += 4 + l_ci
            if ctype == 2:
                # root of the file system: the path (re)starts there
                absolute = True
                comps = []
            elif ctype == 3:
                comps.append('..')
            elif ctype == 4:
                comps.append('.')
            elif ctype == 5:
                name, ok = decode_cs0(ident)
                if not ok:
                    self.f.add('name-encoding', '%s: path component %r is not CS0 with compression id 8 or 16' % (what, ident[:16]))
                comps.append(name)
            else:
                self.f.add('unreadable', '%s: path component type %d' % (what, ctype))
                comps.append('?type%d' % ctype)
        return ('/' if absolute else '') + '/'.join(comps)

    # ---------------------------------------------------------------- directories
    def dir_stream(self, ent, what):
        """The FID area of a directory as one byte string plus a map stream offset -> absolute offset."""
        if ent['inline'] is not None:
            return ent['inline'], [(0, len(ent['inline']), ent['inline_offset'])]
        parts, segs, pos = [], [], 0
        for a, n in ent['extents']:
            if pos + n > MAX_DIR_BYTES:
                self.f.add('unreadable', '%s: directory larger than %d bytes is not parsed' % (what, MAX_DIR_BYTES))
                break
            d = self.img.read(a * BS, n) if a is not None else b'\0' * n
            if len(d) < n:
                self.f.add('unreadable', '%s: directory extent (%r, %d) runs past the end of the image' % (what, a, n))
            parts.append(d)
            segs.append((pos, len(d), a * BS if a is not None else None))
            pos += len(d)
            if len(d) < n:
                break
        return b''.join(parts), segs

    @staticmethod
    def stream_abs(segs, off):
        for start, n, a in segs:
            if start <= off < start + n and a is not None:
                return a + off - start
        return None

    def read_dir(self, path, ent, parent, queue):
        what = 'directory %s' % path
        data, segs = self.dir_stream(ent, what)
        start = self.parts.get(ent['partref'], (0, 0))[0]
        pos = index = subdirs = 0
        names = {}
        while pos < len(data) and self.nodes < MAX_NODES:
            self.nodes += 1
            if len(data) - pos < 38:
                self.f.add('unreadable', '%s: %d trailing bytes at offset %d are too short for a FID' % (what, len(data) - pos, pos))
                break
            l_fi = data[pos + 19]
            l_iu, = struct.unpack_from('<H', data, pos + 36)
            flen = (38 + l_iu + l_fi + 3) & ~3
            ao = self.stream_abs(segs, pos)
            loc = (ao // BS - start) if ao is not None else 0
            fid = data[pos:pos + flen]
            fwhat = '%s FID #%d at offset %d' % (what, index, pos)
            if len(fid) < flen:
                self.check_tag(data[pos:pos + 38], None, (257,), loc, fwhat)
                self.f.add('unreadable', '%s: length %d overruns the directory data (%d bytes)' % (fwhat, flen, len(data)))
                break
            same_block = ao is not None and (ao % BS) + 38 <= BS
            if self.check_tag(fid, ao if same_block else None, (257,), loc, fwhat) is None:
                break
            chars = fid[18]
            ilen, ilbn, ipref = struct.unpack_from('<LLH', fid, 20)
            raw_name = bytes(fid[38 + l_iu:38 + l_iu + l_fi])
            if same_block:
                self.fields += [(ao + 18, 1, 'fid-characteristics'), (ao + 19, 1, 'fid-name-length'), (ao + 20, 4, 'fid-icb-length'),
                                (ao + 24, 4, 'fid-icb-lbn'), (ao + 28, 2, 'fid-icb-partref'), (ao + 36, 2, 'fid-impl-use-length')]
            pos += flen
            index += 1
            if chars & 8:                                                   # parent entry
                if index != 1:
                    self.f.add('fid-parent', '%s: parent FID is entry #%d, not the first' % (what, index - 1))
                if l_fi != 0:
                    self.f.add('fid-parent', '%s: parent FID has a %d byte identifier' % (what, l_fi))
                if (ilbn, ipref) != (parent['lbn'], parent['partref']):
                    self.f.add('fid-parent', "%s: parent FID points at block %d, the parent's file entry is at block %d"
                               % (what, ilbn, parent['lbn']))
                continue
            if index == 1:
                self.f.add('fid-parent', '%s: the first FID is not a parent entry (characteristics 0x%02x)' % (what, chars))
            if chars & 4:                                                   # deleted: ignore
                continue
            name, ok = decode_cs0(raw_name)
            if not ok:
                self.f.add('name-encoding', '%s: identifier %r is not CS0 with compression id 8 or 16' % (fwhat, raw_name[:24]))
            if name in names:
                names[name] += 1
                self.f.add('dup-name', '%s: name %r appears %d times' % (what, name, names[name]))
                key_name = '%s\0dup%d' % (name, names[name])
            else:
                names[name] = 1
                key_name = name
            cpath = path.rstrip('/') + '/' + key_name
            core = self.read_fe(ilbn, ipref, cpath)
            if core is None:
                continue
            child = dict(core, name=name, name_raw=raw_name, hidden=bool(chars & 1), fid_characteristics=chars,
                         fid_offset=pos - flen, fid_length=flen)
            self.tree[cpath] = child
            if child['type'] == 'dir':
                subdirs += 1
                if core['fe_sector'] in self.dirs_seen:
                    self.f.add('cycle', '%s: directory file entry @%d reached a second time' % (cpath, core['fe_sector']))
                    continue
                self.dirs_seen.add(core['fe_sector'])
                if not core.get('broken'):
                    queue.append((cpath, child, ent))
        if index == 0:
            self.f.add('fid-parent', '%s: no FIDs at all, the parent entry is missing' % what)
        if pos != ent['length']:
            self.f.add('fe-info-length', '%s: information length %d, the FIDs add up to %d bytes' % (what, ent['length'], pos))
        if ent['link_count'] != 1 + subdirs:
            self.f.add('dir-link-count', '%s: file link count %d, expected 1 + %d sub-directories'
                       % (what, ent['link_count'], subdirs))

    def walk(self, root_lbn, root_pref):
        core = self.read_fe(root_lbn, root_pref, '/')
        if core is None or core['type'] != 'dir':
            self.f.add('fsd-root', 'root directory ICB (block %d) %s' % (
                root_lbn, 'cannot be read' if core is None else 'has file type %d, not a directory' % core['file_type']))
            return
        root = dict(core, name='', name_raw=b'', hidden=False, fid_characteristics=0)
        self.tree['/'] = root
        self.dirs_seen.add(core['fe_sector'])
        queue = deque([('/', root, root)])
        while queue:
            path, ent, parent = queue.popleft()
            try:
                if not ent.get('broken'):
                    self.read_dir(path, ent, parent, queue)
            except (struct.error, IndexError, ValueError, TypeError, KeyError) as e:
                self.f.add('unreadable', 'directory %s: %r' % (path, e))

    def check_counts(self):
        if self.lvid is None or not self.tree:
            return
        ndirs = len(set(e['fe_sector'] for e in self.tree.values() if e['type'] == 'dir'))
        nfiles = len(set(e['fe_sector'] for e in self.tree.values() if e['type'] != 'dir'))
        nnames = sum(1 for e in self.tree.values() if e['type'] != 'dir')
        self.lvid['counted_files'], self.lvid['counted_dirs'], self.lvid['counted_file_names'] = nfiles, ndirs, nnames
        if self.lvid['num_files'] != nfiles:
            self.f.add('lvid-counts', 'LVID records %d files, the tree has %d (file entries; %d names)'
                       % (self.lvid['num_files'], nfiles, nnames))
        if self.lvid['num_dirs'] != ndirs:
            self.f.add('lvid-counts', 'LVID records %d directories, the tree has %d (root included)'
                       % (self.lvid['num_dirs'], ndirs))

    def run(self):
        fsd = self.volume()
        if fsd is None:
            return
        root = self.file_set(*fsd)
        if root is None:
            return
        self.walk(*root)
        self.check_counts()

    def result(self):
        return {'findings': self.f, 'anchors': sorted(self.anchors), 'anchor_extents': dict(self.anchor_info),
                'partition': self.partition, 'lvid': self.lvid, 'tree': self.tree,
                'alloc': self.alloc, 'fields': self.fields}


def read_udf(img, last_sector=None):
    """See the module docstring and the interface description in DESIGN.md 2.3.  Never raises."""
    r = _Reader(img, last_sector)
    try:
        if not r.vrs():
            return None
    except Exception as e:                                  # pylint: disable=broad-except
        r.f.add('unreadable', 'volume recognition sequence: %r' % (e,))
        return r.result()
    try:
        r.run()
    except Exception as e:                                  # pylint: disable=broad-except
        r.f.add('unreadable', 'reader stopped: %r' % (e,))
    return r.result()


def validate_udf(img, last_sector=None):
    """Convenience: (info, findings); info is None for a non-UDF image."""
    if not isinstance(img, Image):
        img = Image(img)
    info = read_udf(img, last_sector)
    return info, (info['findings'] if info is not None else Findings())


def iter_file_chunks(img, entry, chunk=1 << 20, limit=None):
    """Yield the content of a file entry piecewise (unrecorded extents read as zeros)."""
    left = entry['length'] if limit is None else min(entry['length'], limit)
    if entry.get('inline') is not None:
        yield entry['inline'][:left]
        return
    for a, n in entry['extents']:
        n = min(n, left)
        off = 0
        while off < n:
            step = min(chunk, n - off)
            d = img.read(a * BS + off, step) if a is not None else b''
            yield d + b'\0' * (step - len(d))
            off += step
        left -= n
        if left <= 0:
            break


def file_bytes(img, entry):
    return b''.join(iter_file_chunks(img, entry))
