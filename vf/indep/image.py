"""Random-access image abstraction used by the independent readers (no pycdlib code)."""

SECTOR = 2048


class Image:
    """Wraps bytes or a seekable binary file object."""

    def __init__(self, src):
        if isinstance(src, (bytes, bytearray, memoryview)):
            self._b = bytes(src)
            self._f = None
            self.size = len(self._b)
        else:
            self._b = None
            self._f = src
            src.seek(0, 2)
            self.size = src.tell()

    def read(self, off, n):
        """Bytes [off, off+n) clipped to the image (short result at the end)."""
        if off < 0 or n <= 0:
            return b''
        if self._b is not None:
            return self._b[off:off + n]
        self._f.seek(off)
        return self._f.read(n)

    def sector(self, n, count=1):
        return self.read(n * SECTOR, count * SECTOR)

    @property
    def nsectors(self):
        return self.size // SECTOR


class Findings(list):
    """List of (clause, message) well-formedness complaints."""

    def add(self, clause, msg):
        self.append((clause, msg))

    def clauses(self):
        return sorted(set(c for c, _ in self))
