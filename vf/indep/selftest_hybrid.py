"""Self-test of vf.indep.hybrid.

  cd /verif && PYTHONPATH=/verif /venv/bin/python -m vf.indep.selftest_hybrid [-v]

1. CRC-32 against the standard check value and zlib.
2. ~40 hybrid images written by pycdlib, validated; findings are REPORTED (pycdlib defects are
   expected in this tree), they do not fail the self-test.
3. Reference images: the same ISOs hybridised by `synth` below (a second, tiny writer following
   isohybrid.c, CRCs from zlib): these must validate with no finding at all.
4. Single-field mutations of clean images: each must be flagged by the expected clause.
5. Garbage / truncation: never raises.
Exit status 1 if 1, 3, 4 or 5 fail.
"""
import io
import random
import struct
import sys
import zlib

import pycdlib

from vf.indep.image import Image
from vf.indep.hybrid import read_hybrid, validate_hybrid, crc32

VERBOSE = '-v' in sys.argv


# ---------------------------------------------------------------- tiny ISO/El Torito facts
def iso_facts(b):
    """(iso_sectors, boot_file_sector, [(platform, rba, count512)] of section entries)."""
    pvd = b[16 * 2048:17 * 2048]
    assert pvd[0:6] == b'\x01CD001', 'no PVD'
    iso_sectors = struct.unpack_from('<L', pvd, 80)[0]
    br = b[17 * 2048:18 * 2048]
    assert br[0:6] == b'\x00CD001' and br[7:30] == b'EL TORITO SPECIFICATION', 'no boot record'
    cat = struct.unpack_from('<L', br, 71)[0]
    c = b[cat * 2048:(cat + 1) * 2048]
    assert c[0] == 1 and c[30:32] == b'\x55\xaa', 'bad validation entry'
    boot_sector = struct.unpack_from('<L', c, 32 + 8)[0]
    sections = []
    off = 64
    while off + 32 <= len(c) and c[off] in (0x90, 0x91):
        last = c[off] == 0x91
        plat, n = c[off + 1], struct.unpack_from('<H', c, off + 2)[0]
        off += 32
        for _ in range(n):
            cnt, rba = struct.unpack_from('<HL', c, off + 6)
            sections.append((plat, rba, cnt))
            off += 32
        if last:
            break
    return iso_sectors, boot_sector, sections


def facts_for(b, p):
    iso_sectors, boot_sector, sections = iso_facts(b)
    ef = [(rba, cnt) for plat, rba, cnt in sections if plat == 0xef]
    efi = p['efi'] or p['mac']
    ptype = p['part_type'] if p['part_type'] is not None else (0 if efi else 0x17)
    return dict(iso_sectors=iso_sectors, boot_file_sector=boot_sector, geometry_sectors=p['sectors'],
                geometry_heads=p['heads'], part_entry=p['entry'], part_offset=p['offset'], part_type=ptype,
                mbr_id=p['mbr_id'], efi=efi, mac=p['mac'], efi_image=ef[0] if efi and ef else None,
                mac_image=ef[1] if p['mac'] and len(ef) > 1 else None)


# ---------------------------------------------------------------- builders
def P(sectors=32, heads=64, entry=1, offset=0, part_type=None, mbr_id=0x12345678, efi=False, mac=False,
      efis=(), extra=(), names=('/EFI.IMG;1', '/MAC.IMG;1', '/THIRD.IMG;1')):
    return dict(sectors=sectors, heads=heads, entry=entry, offset=offset, part_type=part_type, mbr_id=mbr_id,
                efi=efi, mac=mac, efis=tuple(efis), extra=tuple(extra), names=names)


def build(p, hybrid=True):
    iso = pycdlib.PyCdlib()
    iso.new(interchange_level=3)
    boot = bytearray(2048)
    boot[0x40:0x44] = b'\xfb\xc0\x78\x70'
    iso.add_fp(io.BytesIO(bytes(boot)), 2048, '/BOOT.BIN;1')
    iso.add_eltorito('/BOOT.BIN;1', boot_load_size=4)
    for i, n in enumerate(p['efis']):
        iso.add_fp(io.BytesIO(bytes([0x45 + i]) * n), n, p['names'][i])
        iso.add_eltorito(p['names'][i], efi=True, platform_id=0xef)
    for i, n in enumerate(p['extra']):
        iso.add_fp(io.BytesIO(bytes([0x61 + i]) * n), n, '/X%d.DAT;1' % i)
    if hybrid:
        iso.add_isohybrid(part_entry=p['entry'], mbr_id=p['mbr_id'], part_offset=p['offset'],
                          geometry_sectors=p['sectors'], geometry_heads=p['heads'], part_type=p['part_type'],
                          mac=p['mac'], efi=True if p['efi'] else None)
    out = io.BytesIO()
    iso.write_fp(out)
    iso.close()
    return out.getvalue()


BASIC = bytes.fromhex('a2a0d0ebe5b9334487c068b6b72699c7')
HFS = bytes.fromhex('005346480000aa11aa11003065 43ecac'.replace(' ', ''))


def chs3(c, h, s):
    return bytes([h, s | ((c & 0x300) >> 2), c & 0xff])


def synth(iso, f, room=True):
    """Hybridise a plain ISO following isohybrid.c; `f` are the facts (as for validate_hybrid)."""
    heads, sectors, off = f['geometry_heads'], f['geometry_sectors'], f['part_offset']
    cyl = heads * sectors * 512
    need = len(iso) + ((512 + 128 * 128) if f['efi'] and room else 0)
    size = -(-need // cyl) * cyl
    b = bytearray(iso) + bytearray(size - len(iso))
    c = size // cyl
    cc = min(c, 1024)
    b[0:32] = (b'ER\x08\x00\x00\x00\x90\x90' + bytes(24)) if f['mac'] else (b'\x33\xed' + b'\x90' * 30)
    b[32:432] = bytes(400)
    struct.pack_into('<LLLH', b, 432, 4 * f['boot_file_sector'], 0, f['mbr_id'] or 0xdeadbeef, 0)
    b[446:510] = bytes(64)
    e = 446 + 16 * (f['part_entry'] - 1)
    sc = off // (heads * sectors)
    b[e:e + 16] = (b'\x80' + chs3(sc, (off // sectors) % heads, off % sectors + 1) + bytes([f['part_type']])
                   + chs3(cc - 1, heads - 1, sectors) + struct.pack('<LL', off, c * heads * sectors - off))
    if f['efi']:
        b[462:478] = b'\x00\xfe\xff\xff\xef\xfe\xff\xff' + struct.pack('<LL', 4 * f['efi_image'][0], f['efi_image'][1])
    if f['mac']:
        b[478:494] = b'\x00\xfe\xff\xff\x00\xfe\xff\xff' + struct.pack('<LL', 4 * f['mac_image'][0], f['mac_image'][1])
    b[510:512] = b'\x55\xaa'
    if f['efi']:
        rnd = random.Random(1)
        guid = lambda: bytes(rnd.getrandbits(8) for _ in range(16))
        hole = 14 if f['mac'] else 0
        parts = [(BASIC, 0, len(iso) // 512 - 1, 'ISOHybrid ISO'),
                 (BASIC, 4 * f['efi_image'][0], 4 * f['efi_image'][0] + f['efi_image'][1] - 1, 'ISOHybrid')]
        if f['mac']:
            parts.append((HFS, 4 * f['mac_image'][0], 4 * f['mac_image'][0] + f['mac_image'][1] - 1, 'ISOHybrid'))
        arr = b''.join(struct.pack('<16s16sQQQ72s', t, guid(), a, z, 0, n.encode('utf-16-le')) for t, a, z, n in parts)
        arr += bytes(128 * 128 - len(arr))
        last = size // 512 - 1
        dguid = guid()
        for cur, alt, elba in ((1, last, 2 + hole), (last, 1, last - 32)):
            h = bytearray(struct.pack('<8sLLLLQQQQ16sQLLL', b'EFI PART', 0x10000, 92, 0, 0, cur, alt, 34 + hole,
                                      size // 512 - 34 - hole, dguid, elba, 128, 128, zlib.crc32(arr)))
            struct.pack_into('<L', h, 16, zlib.crc32(bytes(h)))
            b[cur * 512:cur * 512 + 512] = bytes(h) + bytes(512 - 92)
            b[elba * 512:elba * 512 + len(arr)] = arr
    if f['mac']:
        apm = [(1, 16, b'Apple', b'Apple_partition_map', 3),
               (f['efi_image'][0], f['efi_image'][1] // 4, b'EFI', b'Apple_HFS', 0x33),
               (f['mac_image'][0], f['mac_image'][1] // 4, b'EFI', b'Apple_HFS', 0x33)]
        for i, (st, n, name, typ, status) in enumerate(apm):
            b[2048 * (i + 1):2048 * (i + 2)] = struct.pack('>2sHLLL32s32sLLL', b'PM', 0, 3, st, n, name, typ, 0, n, status).ljust(2048, b'\0')
    return bytes(b)


def check(b, f):
    img = Image(b)
    return validate_hybrid(img, read_hybrid(img), **f)


# ---------------------------------------------------------------- pycdlib-written images
K = 1024
CASES = [
    P(), P(extra=(700 * K,)), P(sectors=63, heads=255), P(sectors=63, heads=256), P(sectors=1, heads=1),
    P(sectors=1, heads=1, extra=(600 * K,)),                      # > 1024 cylinders
    P(sectors=2, heads=3, extra=(5000,)), P(sectors=17, heads=4), P(sectors=63, heads=16, extra=(3 * K * K,)),
    P(sectors=2, heads=1, extra=(1200 * K,)),                     # > 1024 cylinders, cylinder 1 KiB
    P(entry=2), P(entry=3), P(entry=4, part_type=0x83), P(part_type=0), P(part_type=0xef),
    P(offset=4), P(offset=64, sectors=32, heads=64), P(offset=2048, extra=(2 * K * K,)), P(offset=5, sectors=3, heads=2),
    P(mbr_id=None), P(mbr_id=0), P(mbr_id=0xffffffff),
    P(efi=True, efis=(5000,)), P(efi=True, efis=(2048,)), P(efi=True, efis=(5000, 9000)),
    P(efi=True, efis=(9000, 5000)), P(efi=True, efis=(5000,), extra=(100 * K,)),
    P(efi=True, efis=(40000,), sectors=1, heads=1), P(efi=True, efis=(5000,), sectors=63, heads=255),
    P(efi=True, efis=(5000,), sectors=4, heads=4, extra=(30 * K,)), P(efi=True, efis=(5000,), entry=2),
    P(efi=True, efis=(5000,), entry=3, offset=4), P(efi=True, efis=(5000,), extra=(480 * 2048,)),   # 4 KiB of padding
    P(efi=True, efis=(5000, 70000), names=('/ZEFI.IMG;1', '/AMAC.IMG;1', '/T.IMG;1')),
    P(mac=True, efis=(5000, 9000)), P(mac=True, efis=(9000, 5000)), P(mac=True, efis=(2048, 2048)),
    P(mac=True, efis=(5000, 9000), extra=(300 * K,), sectors=16, heads=16), P(mac=True, efis=(5000, 9000), entry=3),
    P(mac=True, efi=True, efis=(5000, 9000), entry=4), P(mac=True, efis=(5000,)),
    P(mac=True, efis=(5000, 9000), names=('/ZEFI.IMG;1', '/AMAC.IMG;1', '/T.IMG;1')),
]


def pdesc(p):
    d = P()
    return ' '.join('%s=%s' % (k, ('0x%x' % v if k in ('mbr_id', 'part_type') and v is not None else v))
                    for k, v in p.items() if v != d[k]) or 'defaults'


def run_pycdlib_cases():
    print('== pycdlib-written images (%d)' % len(CASES))
    by_clause = {}
    for n, p in enumerate(CASES):
        try:
            b = build(p)
            f = facts_for(b, p)
            F = check(b, f)
        except Exception as e:  # pylint: disable=broad-except
            print('  #%02d %-60s EXCEPTION %s: %s' % (n, pdesc(p), type(e).__name__, e))
            by_clause.setdefault('exception:' + type(e).__name__, []).append((n, p, str(e)))
            continue
        print('  #%02d %-60s size=%-9d %s' % (n, pdesc(p), len(b), ','.join(F.clauses()) or 'clean'))
        for clause, msg in F:
            by_clause.setdefault(clause, []).append((n, p, msg))
            if VERBOSE:
                print('        %-24s %s' % (clause, msg[:230]))
    print('-- findings by clause (count, first case, first message)')
    for clause in sorted(by_clause):
        hits = by_clause[clause]
        n, p, msg = hits[0]
        print('  %-26s %3d findings in cases %s' % (clause, len(hits), sorted(set(h[0] for h in hits))))
        print('      e.g. #%02d [%s]: %s' % (n, pdesc(p), msg[:300]))


# ---------------------------------------------------------------- reference images + mutations
def refix(b, lba):
    """Recompute the GPT header CRC at `lba` (so that only the mutated field is wrong)."""
    o = lba * 512
    b[o + 16:o + 20] = bytes(4)
    struct.pack_into('<L', b, o + 16, zlib.crc32(bytes(b[o:o + 92])))


def refix_arrays(b, last):
    for lba, elba in ((1, struct.unpack_from('<Q', b, 512 + 72)[0]), (last, struct.unpack_from('<Q', b, last * 512 + 72)[0])):
        struct.pack_into('<L', b, lba * 512 + 88, zlib.crc32(bytes(b[elba * 512:elba * 512 + 16384])))
        refix(b, lba)


def mutations(f, size):
    """[(name, expected clauses, fn(bytearray) -> bytes)] for an image with facts f."""
    e = 446 + 16 * (f['part_entry'] - 1)
    other = 446 + 16 * (3 if f['part_entry'] != 4 else 0)
    last = size // 512 - 1

    def setb(off, val):
        def fn(b):
            b[off:off + len(val)] = val
            return b
        return fn

    def add(off, fmt, delta, fix=None, both=None):
        def fn(b):
            for o in ([off] if both is None else [off, both]):
                v = struct.unpack_from(fmt, b, o)[0]
                struct.pack_into(fmt, b, o, (v + delta) % (1 << (8 * struct.calcsize(fmt))))
            if fix == 'arrays':
                refix_arrays(b, last)
            elif fix is not None:
                refix(b, fix)
            return b
        return fn

    def swap14(b):
        b[446:462], b[494:510] = b[494:510], b[446:462]
        return b

    m = [('mbr sig byte 510', {'mbr-signature'}, setb(510, b'\x54')),
         ('mbr sig byte 511', {'mbr-signature'}, setb(511, b'\x00')),
         ('rba +1', {'mbr-rba'}, add(432, '<L', 1)),
         ('rba high dword = 1', {'mbr-rba'}, setb(436, b'\x01')),
         ('mbr id bit flip', {'mbr-id'}, add(440, '<L', 0x100)),
         ('active status 0x80 -> 0', {'mbr-one-active'}, setb(e, b'\x00')),
         ('second entry gets status 0x80', {'mbr-one-active'}, setb(other, b'\x80')),
         ('junk in an empty entry', {'mbr-one-active'}, setb(other + 8, b'\x01')),
         ('partition type +1', {'mbr-part-type'}, add(e + 4, '<B', 1)),
         ('start lba +1', {'mbr-geometry'}, add(e + 8, '<L', 1)),
         ('sector count -1', {'mbr-geometry'}, add(e + 12, '<L', -1)),
         ('end head -1', {'mbr-geometry'}, add(e + 5, '<B', -1)),
         ('end sector +1', {'mbr-geometry'}, add(e + 6, '<B', 1)),
         ('end cylinder high bit', {'mbr-geometry'}, add(e + 6, '<B', 0x40)),
         ('end cylinder +1', {'mbr-geometry'}, add(e + 7, '<B', 1)),
         ('start head +1', {'mbr-geometry'}, add(e + 1, '<B', 1)),
         ('start sector +1', {'mbr-geometry'}, add(e + 2, '<B', 1)),
         ('start cylinder +1', {'mbr-geometry'}, add(e + 3, '<B', 1)),
         ('image truncated by 512', {'pad-cylinder'}, lambda b: b[:-512]),
         ('image grown by one cylinder', {'pad-cylinder'},
          lambda b: b + bytes(f['geometry_heads'] * f['geometry_sectors'] * 512 * (40 if f['efi'] else 1)))]
    if f['part_entry'] == 1 and not f['efi']:
        m.append(('active entry moved 1 -> 4', {'mbr-one-active'}, swap14))
    if f['efi']:
        P1, B = 512, last * 512
        m += [('primary GPT signature', {'gpt-signature'}, setb(P1, b'EFI PARX')),
              ('primary GPT revision', {'gpt-signature'}, add(P1 + 8, '<L', 1, fix=1)),
              ('primary GPT header size 96', {'gpt-signature'}, add(P1 + 12, '<L', 4)),
              ('primary header crc flip', {'gpt-header-crc'}, add(P1 + 16, '<L', 1)),
              ('primary reserved byte (inside crc)', {'gpt-header-crc'}, setb(P1 + 20, b'\x01')),
              ('backup header crc flip', {'gpt-header-crc'}, add(B + 16, '<L', 1)),
              ('backup GPT signature', {'gpt-signature'}, setb(B, b'\x00')),
              ('backup GPT header size', {'gpt-signature'}, add(B + 12, '<L', 4)),
              ('primary.current_lba = 2 (crc fixed)', {'gpt-mirror'}, add(P1 + 24, '<Q', 1, fix=1)),
              ('primary.backup_lba -1 (crc fixed)', {'gpt-mirror'}, add(P1 + 32, '<Q', -1, fix=1)),
              ('backup.current_lba -1 (crc fixed)', {'gpt-mirror'}, add(B + 24, '<Q', -1, fix=last)),
              ('backup.backup_lba = 2 (crc fixed)', {'gpt-mirror'}, add(B + 32, '<Q', 1, fix=last)),
              ('backup disk guid (crc fixed)', {'gpt-mirror'}, add(B + 56, '<B', 1, fix=last)),
              ('backup first_usable (crc fixed)', {'gpt-mirror'}, add(B + 40, '<Q', 1, fix=last)),
              ('backup last_usable (crc fixed)', {'gpt-mirror'}, add(B + 48, '<Q', -1, fix=last)),
              ('backup entries_lba -1 (crc fixed)', {'gpt-mirror', 'gpt-array-crc'}, add(B + 72, '<Q', -1, fix=last)),
              ('primary entries crc field (crc fixed)', {'gpt-array-crc'}, add(P1 + 88, '<L', 1, fix=1)),
              ('backup entries crc field (crc fixed)', {'gpt-array-crc'}, add(B + 88, '<L', 1, fix=last)),
              ('primary num_entries 127 (crc fixed)', {'gpt-array-crc'}, add(P1 + 80, '<L', -1, fix=1)),
              ('MBR EFI entry count +1', {'mbr-efi-partition'}, add(462 + 12, '<L', 1)),
              ('MBR EFI entry lba +4', {'mbr-efi-partition'}, add(462 + 8, '<L', 4))]

        def arr_mut(name, clause, idx, field_off, delta, which='both', fix=True):
            def fn(b):
                ep = struct.unpack_from('<Q', b, P1 + 72)[0] * 512
                eb = struct.unpack_from('<Q', b, B + 72)[0] * 512
                for base in ([ep, eb] if which == 'both' else [ep] if which == 'primary' else [eb]):
                    o = base + 128 * idx + field_off
                    struct.pack_into('<Q', b, o, (struct.unpack_from('<Q', b, o)[0] + delta) % (1 << 64))
                if fix:
                    refix_arrays(b, last)
                return b
            return (name, clause, fn)
        m += [arr_mut('primary array: byte in an empty entry', {'gpt-array-crc'}, 100, 64, 1, 'primary', False),
              arr_mut('backup array: byte in an empty entry', {'gpt-array-crc'}, 100, 64, 1, 'backup', False),
              arr_mut('backup array: part guid differs (crcs fixed)', {'gpt-mirror'}, 1, 16, 1, 'backup'),
              arr_mut('backup array: entry 1 emptied (crcs fixed)', {'gpt-mirror'}, 1, 0, 12345, 'backup'),
              arr_mut('EFI partition last_lba +1 (both, crcs fixed)', {'gpt-efi-partition'}, 1, 40, 1),
              arr_mut('EFI partition first_lba -4 (both, crcs fixed)', {'gpt-efi-partition'}, 1, 32, -4),
              arr_mut('EFI partition last_lba +1 (primary only, crcs fixed)', {'gpt-efi-partition'}, 1, 40, 1, 'primary')]
        if f['mac']:
            m += [arr_mut('Mac partition last_lba -1 (both, crcs fixed)', {'gpt-mac-partition'}, 2, 40, -1),
                  arr_mut('Mac partition first_lba +4 (both, crcs fixed)', {'gpt-mac-partition'}, 2, 32, 4),
                  ('MBR Mac entry lba +4', {'mbr-mac-partition'}, add(478 + 8, '<L', 4)),
                  ('MBR Mac entry count -1', {'mbr-mac-partition'}, add(478 + 12, '<L', -1)),
                  ('MBR Mac entry made active', {'mbr-one-active'}, setb(478, b'\x80')),
                  ('APM entry 1 signature', {'apm-signature'}, setb(2048, b'PX')),
                  ('APM entry 2 signature', {'apm-signature'}, setb(4096, b'TS')),
                  ('APM entry 3 signature', {'apm-signature'}, setb(6144 + 1, b'\x00')),
                  ('APM entry 3 map_entries 4', {'apm-map-count'}, add(6144 + 4, '>L', 1)),
                  ('APM entry 1 map_entries 2', {'apm-map-count'}, add(2048 + 4, '>L', -1)),
                  ('APM entry 1 map_entries 4', {'apm-map-count', 'apm-signature'}, add(2048 + 4, '>L', 1)),
                  ('APM entry 1 start_block 0', {'apm-self-entry'}, add(2048 + 8, '>L', -1)),
                  ('APM entry 1 type string', {'apm-self-entry'}, setb(2048 + 48, b'a')),
                  ('APM entry 2 start_block +1', {'apm-efi-partition'}, add(4096 + 8, '>L', 1)),
                  ('APM entry 2 block_count +1', {'apm-efi-partition'}, add(4096 + 12, '>L', 1)),
                  ('APM entry 3 start_block -1', {'apm-mac-partition'}, add(6144 + 8, '>L', -1)),
                  ('APM entry 3 block_count = 0', {'apm-mac-partition'}, setb(6144 + 12, bytes(4)))]
    return m


def run_reference_and_mutations():
    bad = 0
    print('== reference images (synth, isohybrid.c semantics) must be clean')
    refs = []
    for p in (P(), P(entry=3, offset=4, part_type=0x83, sectors=5, heads=7, extra=(20 * K,)),
              P(sectors=1, heads=1, extra=(600 * K,)),
              P(efi=True, efis=(5000,)), P(efi=True, efis=(5000, 9000), sectors=2, heads=2),
              P(mac=True, efis=(5000, 9000)), P(mac=True, efis=(8192, 2048), sectors=63, heads=255, entry=4),
              P(mac=True, efis=(5000, 9000), sectors=1, heads=1, extra=(600 * K,))):
        plain = build(p, hybrid=False)
        f = facts_for(plain, p)
        if f['mbr_id'] is None:
            f['mbr_id'] = 0xdeadbeef
        b = synth(plain, f)
        F = check(b, f)
        print('  %-66s size=%-9d %s' % (pdesc(p), len(b), ','.join(F.clauses()) or 'clean'))
        for c, msg in F:
            bad += 1
            print('        UNEXPECTED %-22s %s' % (c, msg[:250]))
        refs.append((p, f, b))
        if f['efi']:
            F2 = check(synth(plain, f, room=False), f)
            ok = 'gpt-backup-overlaps-iso' in F2.clauses()
            # with room=False the backup GPT only overlaps when the cylinder padding is small
            pad = (-len(plain)) % (f['geometry_heads'] * f['geometry_sectors'] * 512)
            if pad < 512 + 16384 and not ok:
                bad += 1
                print('        MISSED overlap (padding %d): %s' % (pad, F2.clauses()))
            elif pad < 512 + 16384:
                print('        no-room variant (padding %d): gpt-backup-overlaps-iso reported, as it must be' % pad)
    print('== single-field mutations of clean images')
    total = und = weak = 0
    for p, f, b in (refs[0], refs[1], refs[3], refs[5], refs[6]):
        print('  base: %s' % pdesc(p))
        for name, want, fn in mutations(f, len(b)):
            total += 1
            try:
                mb = bytes(fn(bytearray(b)))
                got = set(check(mb, f).clauses())
            except Exception as e:  # pylint: disable=broad-except
                got = {'EXCEPTION %s %s' % (type(e).__name__, e)}
            if want & got:
                state = 'ok'
            elif got and not any(g.startswith('EXCEPTION') for g in got):
                state, weak = 'OTHER-CLAUSE', weak + 1
            else:
                state, und = 'UNDETECTED', und + 1
            if state != 'ok' or VERBOSE:
                print('    %-12s %-52s want %s got %s' % (state, name, sorted(want), sorted(got)))
    print('  %d mutations, %d undetected, %d flagged only by a different clause' % (total, und, weak))
    return bad + und + weak, refs


def run_garbage(refs):
    print('== garbage / truncation robustness')
    rnd = random.Random(7)
    n = fails = 0
    for p, f, b in refs:
        cuts = [0, 1, 511, 512, 600, 1024, 2047, 2048, 4096, 8191, 8192 + 200, 32768, len(b) - 1, len(b) - 511, len(b) - 16896]
        imgs = [b[:c] for c in cuts if 0 <= c <= len(b)]
        for _ in range(40):
            mb = bytearray(b)
            for _ in range(rnd.randint(1, 6)):
                region = rnd.choice([(0, 512), (512, 604), (2048, 8192 + 512), (len(b) - 17000, len(b))])
                o = rnd.randrange(max(0, region[0]), min(len(b), region[1]))
                mb[o] = rnd.getrandbits(8)
            imgs.append(bytes(mb))
        imgs.append(bytes(rnd.getrandbits(8) for _ in range(40000)))
        imgs.append(b'\xff' * 70000)
        imgs.append(b[:510] + b'\x55\xaa' + b'\xff' * 40000)
        for mb in imgs:
            n += 1
            try:
                img = Image(mb)
                info = read_hybrid(img)
                validate_hybrid(img, info, **f)
                if info is not None:
                    for off, ln, kind in info['fields']:
                        assert isinstance(off, int) and isinstance(ln, int) and isinstance(kind, str)
            except Exception as e:  # pylint: disable=broad-except
                fails += 1
                print('    RAISED %s: %s (image of %d bytes)' % (type(e).__name__, e, len(mb)))
    print('  %d hostile images, %d raised' % (n, fails))
    return fails


def main():
    bad = 0
    for data in (b'', b'123456789', bytes(range(256)) * 3):
        if crc32(data) != zlib.crc32(data):
            bad += 1
            print('CRC MISMATCH for %r' % data[:16])
    assert crc32(b'123456789') == 0xCBF43926
    plain = build(P(), hybrid=False)
    if read_hybrid(Image(plain)) is not None:
        bad += 1
        print('non-hybrid image not recognised as such')
    run_pycdlib_cases()
    b2, refs = run_reference_and_mutations()
    bad += b2 + run_garbage(refs)
    print('SELFTEST %s' % ('OK' if not bad else 'FAILED (%d problems)' % bad))
    return 1 if bad else 0


if __name__ == '__main__':
    sys.exit(main())
