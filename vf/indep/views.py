"""Neutral views {ns: {path: (type, length, sha, hidden, target, mode)}} built from the
independent readers' output, comparable with vf.engine.api_view / model_view."""
import hashlib

from vf.indep.image import Image, SECTOR


def sha(data):
    return hashlib.sha256(data).hexdigest()[:16]


def file_bytes(img, entry):
    out = []
    for ext, ln in entry.get('extents', [(entry['extent'], entry['length'])]):
        if ln:
            out.append(img.read(ext * SECTOR, ln))
    return b''.join(out)


def iso_views(img, info, want_content=True):
    """Views of the ISO9660 physical tree ('iso'), the Rock Ridge logical tree ('rr') and Joliet ('jol')."""
    img = img if isinstance(img, Image) else Image(img)
    out = {}
    trees = info.get('trees', {})
    for tname, ns in (('iso', 'iso'), ('joliet', 'jol')):
        t = trees.get(tname)
        if t is None:
            continue
        d = {}
        for p, e in t.items():
            if p == '/':
                continue
            if e['type'] == 'dir':
                d[p] = ('dir', None, None, e['hidden'], None, None)
            else:
                su = e.get('susp') or {}
                if su.get('cl') is not None:
                    # relocation placeholder: a directory as far as the API is concerned
                    d[p] = ('dir', None, None, e['hidden'], None, None)
                    continue
                if su.get('sl') is not None:
                    d[p] = ('file', 0, None, e['hidden'], None, None)
                    continue
                data = file_bytes(img, e) if want_content else None
                d[p] = ('file', e['length'], sha(data) if data is not None else None, e['hidden'], None, None)
        out[ns] = d
    rr = info.get('rr')
    if rr and rr.get('tree'):
        d = {}
        for lp, e in rr['tree'].items():
            if lp == b'/':
                continue
            try:
                p = lp.decode('utf-8')
            except UnicodeDecodeError:
                p = lp.decode('latin-1')
            su = e.get('su') or {}
            px = su.get('px') or {}
            mode = px.get('mode')
            if e['type'] == 'dir':
                d[p] = ('dir', None, None, e['hidden'], None, mode)
            elif e['type'] == 'symlink':
                d[p] = ('sym', None, None, e['hidden'], e['target'].decode('utf-8', 'replace'), mode)
            else:
                ent = e['entry']
                data = file_bytes(img, ent) if want_content else None
                d[p] = ('file', ent['length'], sha(data) if data is not None else None, e['hidden'], None, mode)
        out['rr'] = d
    return out


def udf_view(img, uinfo, want_content=True):
    from vf.indep import udf as udfmod
    img = img if isinstance(img, Image) else Image(img)
    d = {}
    for p, e in (uinfo or {}).get('tree', {}).items():
        if p == '/' or '\0dup' in p:
            continue
        if e['type'] == 'dir':
            d[p] = ('dir', None, None, False, None, None)
        elif e['type'] == 'symlink':
            d[p] = ('sym', None, None, False, e.get('target'), None)
        else:
            data = udfmod.file_bytes(img, e) if (want_content and e['length'] <= (64 << 20)) else None
            d[p] = ('file', e['length'], sha(data) if data is not None else None, False, None, None)
    return d
