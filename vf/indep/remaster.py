"""Independent re-mastering: rebuild an ISO9660 / Rock Ridge / Joliet image *from scratch* in the
style of another mastering program.

The vendored corpus of foreign images named by C02 is not available offline, and no other
mastering tool is installed.  This module stands in for both: it takes what the independent
reader (vf/indep/iso9660.py) recovers from an image - trees, identifiers, record flags and dates,
the parsed system-use entries, file extents - and writes a new image that carries exactly the same
logical content but shares nothing of the original's layout:

 * every sector after the volume descriptors is re-assigned: path tables, directories, continuation
   areas and file data come in another order (two layout families: continuation areas collected
   after each directory as mkisofs/libisofs do it, or in one region), files in a drawn permutation
   with gaps, optional trailing pad sectors (mkisofs -pad);
 * the system-use area of every record is rebuilt: entries in another order, the optional `RR`
   entry dropped or kept, the alternate name and symlink components split between the record and
   its continuation area at another point (drawn in-record budget), continuation areas packed
   differently;
 * zero-length files get extent 0, the next free sector, one shared "empty" block or the address of
   another file's data;
 * the continuation area of the root's "." record (the ER entry) always has a sector of its own, as
   mkisofs writes it (libisofs lets it share a sector with the continuation areas of the root's
   children; the library's own layout model cannot represent that, which is recorded in DESIGN.md
   as outside what C02 quantifies over);
 * the version descriptor after the terminator is mkisofs' 'MKI ...' text or zeros.

Only traits that real mastering programs show are produced (SUSP and ECMA-119 allow much more).
El Torito images are handled: the boot record's catalog pointer, the load addresses in the catalog and
the 'own sector' field of a boot info table follow the moved data.
Not handled (returns None): UDF bridge, isohybrid system areas that name sectors, multi-extent files,
boot images that have no name and use an emulation mode, records whose continuation would need more
than one area, images with validator findings.  The result is checked by the
independent reader before it is handed out: no findings and the same neutral views as the source,
otherwise None is returned and the caller counts a harness problem, never a violation.

Shares no code with pycdlib.
"""
import struct

from vf.indep import iso9660
from vf.indep.views import iso_views

SECTOR = 2048

SU_ORDERS = [
    # rank of the entry kinds inside one system-use area (SP always first, CE always last)
    [b'RR', b'NM', b'PX', b'SL', b'TF', b'CL', b'PL', b'RE', b'PN', b'ER'],      # mkisofs-like
    [b'RR', b'PX', b'TF', b'PN', b'SL', b'NM', b'CL', b'PL', b'RE', b'ER'],      # libisofs-like
    [b'RR', b'PX', b'NM', b'TF', b'CL', b'PL', b'RE', b'SL', b'PN', b'ER'],
    [b'RR', b'TF', b'PX', b'PN', b'CL', b'PL', b'RE', b'NM', b'SL', b'ER'],
    [b'RR', b'SL', b'NM', b'TF', b'PX', b'PN', b'RE', b'CL', b'PL', b'ER'],
]

DEFAULT_STYLE = {'family': 0, 'su_order': 0, 'keep_rr': True, 'budget': 255, 'split_nm': True, 'split_sl': True, 'greedy': False,
                 'perm': [3, 1, 4, 1, 5, 9, 2, 6], 'gap': 1, 'zero': 0, 'pad': 0, 'mki': True, 'dfs': False, 'jfirst': False}


class Ineligible(Exception):
    pass


def b32(v):
    return struct.pack('<L', v) + struct.pack('>L', v)


def nsec(n):
    return (n + SECTOR - 1) // SECTOR


# ---------------------------------------------------------------------------- system-use planning
class Piece:
    """One system-use entry to emit: fixed bytes, or bytes that depend on the final layout."""
    __slots__ = ('sig', 'size', 'data', 'fn')

    def __init__(self, sig, data=None, size=None, fn=None):
        self.sig, self.data, self.fn = sig, data, fn
        self.size = len(data) if data is not None else size

    def emit(self, ctx):
        return self.data if self.data is not None else self.fn(ctx)


def nm_pieces(name, first_room=None, chunk=250):
    """NM entries for `name`; the first entry carries at most first_room name bytes."""
    out = []
    rest = name
    room = chunk if first_room is None else min(chunk, first_room)
    while True:
        part, rest = rest[:room], rest[room:]
        fl = 1 if rest else 0
        out.append(Piece(b'NM', b'NM' + bytes([5 + len(part), 1, fl]) + part))
        if not rest:
            return out
        room = chunk


def sl_components(raw_entries):
    """[(flags without CONTINUE, data)] from raw SL entries (continued components merged)."""
    comps = []
    open_c = None
    for raw in raw_entries:
        body = raw[5:]
        k = 0
        while k + 2 <= len(body):
            cf, cl = body[k], body[k + 1]
            data = bytes(body[k + 2:k + 2 + cl])
            if open_c is not None:
                open_c[1] += data
                open_c[0] = cf & 0xfe
                cur = open_c
            else:
                cur = [cf & 0xfe, data]
                comps.append(cur)
            open_c = cur if cf & 1 else None
            k += 2 + cl
    return [(c[0], bytes(c[1])) for c in comps]


def sl_pieces(comps, first_room=None, cap=250):
    """SL entries for the component list; the first entry's component area holds at most first_room bytes."""
    entries = []
    cur = bytearray()
    room = cap if first_room is None else min(cap, first_room)
    todo = [(cf, data) for cf, data in comps]
    i = 0
    while i < len(todo):
        cf, data = todo[i]
        need = 2 + len(data)
        left = room - len(cur)
        if need <= left:
            cur += bytes([cf, len(data)]) + data
            i += 1
            continue
        # split a plain component when a useful piece fits, else start the next entry
        take = left - 2
        if cf == 0 and take >= 1 and len(data) > 1:
            take = min(take, len(data) - 1, 255)
            if data[:take] in (b'.', b'..'):
                take -= 1
            if take >= 1 and data[take:] not in (b'.', b'..'):
                cur += bytes([1, take]) + data[:take]
                todo[i] = (0, data[take:])
        if not cur:
            # nothing fits at all (room too small): give the entry its full size
            room = cap
            if need > room:
                take = min(len(data) - 1, room - 2)
                cur += bytes([1, take]) + data[:take]
                todo[i] = (0, data[take:])
            continue
        entries.append(bytes(cur))
        cur = bytearray()
        room = cap
    if cur or not entries:
        entries.append(bytes(cur))
    out = []
    for k, body in enumerate(entries):
        fl = 1 if k + 1 < len(entries) else 0
        out.append(Piece(b'SL', b'SL' + bytes([5 + len(body), 1, fl]) + body))
    return out


class RecPlan:
    """Everything needed to emit one directory record later."""

    def __init__(self, raw, ident, kind, prefix, items, style, is_root_dot=False):
        self.raw = raw                  # original record bytes (fixed part is copied from here)
        self.ident = ident
        self.kind = kind                # ('dir', path) | ('file', old_extent, length) | ('self', path) | ('parent', path)
        self.prefix = prefix            # bytes before the SUSP entries (XA) or the whole raw system-use field
        self.inrec, self.cont = split_items(items, 33 + len(ident) + (1 - len(ident) % 2) + len(prefix), style, is_root_dot)
        self.ce = None                  # (block, offset) once allocated
        su = len(prefix) + sum(p.size for p in self.inrec) + (28 if self.cont else 0)
        n = 33 + len(ident) + (1 - len(ident) % 2) + su
        self.length = n + (n % 2)
        if self.length > 254:
            raise Ineligible('record too long')
        self.cont_len = sum(p.size for p in self.cont)
        if self.cont_len > SECTOR:
            raise Ineligible('continuation longer than one sector')

    def emit(self, ctx):
        r = self.raw
        if self.kind[0] in ('dir', 'self', 'parent'):
            ext, ln = ctx.dirs[self.kind[1]]
        else:
            ext, ln = ctx.file_extent(self.kind[1], self.kind[2]), self.kind[2]
        lfi = len(self.ident)
        out = bytearray()
        out += bytes([self.length, r[1]]) + b32(ext) + b32(ln) + r[18:32] + bytes([lfi]) + self.ident
        if lfi % 2 == 0:
            out += b'\0'
        out += self.prefix
        for p in self.inrec:
            out += p.emit(ctx)
        if self.cont:
            blk, off = self.ce
            out += b'CE\x1c\x01' + b32(blk) + b32(off) + b32(self.cont_len)
        if len(out) % 2:
            out += b'\0'
        assert len(out) == self.length, (len(out), self.length)
        return bytes(out)

    def emit_cont(self, ctx):
        return b''.join(p.emit(ctx) for p in self.cont)


def split_items(items, fixed, style, is_root_dot):
    """Distribute the logical items over the record and its continuation area."""
    cap = 254 - fixed
    if cap < 0:
        raise Ineligible('identifier leaves no room')

    def expand(it, first_room=None):
        if it[0] == 'nm':
            return nm_pieces(it[1], first_room)
        if it[0] == 'sl':
            return sl_pieces(it[1], first_room)
        return [it[1]]

    flat = []
    for it in items:
        flat += expand(it)
    total = sum(p.size for p in flat)
    if total <= cap:
        # no mastering program uses a continuation area for a record that fits
        return flat, []
    limit = min(cap, max(0, style['budget'] - fixed))      # style['budget'] = record length aimed at once a continuation area is needed
    sp = sum(p.size for p in flat if p.sig == b'SP')
    if cap < sp + 28:
        if total <= cap:
            return flat, []
        raise Ineligible('no room for a CE entry')
    avail = max(limit, sp + 28) - 28
    inrec, cont = [], []
    overflow = False
    for it in items:
        pieces = expand(it)
        size = sum(p.size for p in pieces)
        must = it[0] == 'raw' and it[1].sig == b'SP'
        if must or (not overflow and size <= avail):
            inrec += pieces
            avail -= size
            continue
        if not overflow and it[0] == 'nm' and style['split_nm'] and avail >= 6 and len(it[1]) > 1:
            pieces = nm_pieces(it[1], min(avail - 5, len(it[1]) - 1))
            inrec.append(pieces[0])
            avail -= pieces[0].size
            cont += pieces[1:]
        elif not overflow and it[0] == 'sl' and style['split_sl'] and avail >= 5 + 3:
            pieces = sl_pieces(it[1], avail - 5)
            if len(pieces) > 1 and pieces[0].size <= avail and pieces[0].size > 5:
                inrec.append(pieces[0])
                avail -= pieces[0].size
                cont += pieces[1:]
            else:
                cont += expand(it)
        else:
            if style['greedy'] and size <= avail:
                inrec += pieces
                avail -= size
                continue
            cont += pieces
        if not style['greedy']:
            overflow = True
    if not cont:
        return inrec, []
    return inrec, cont


def plan_items(img, parsed, style, dirmap_old):
    """Logical items (in the drawn order) from the reader's parsed system-use dict."""
    raws = []
    for sig, ln, off in parsed['entries']:
        if sig in (b'CE', b'ST'):
            continue
        raws.append((sig, bytes(img[off:off + ln])))
    items = []
    nm_raw = [r for s, r in raws if s == b'NM']
    sl_raw = [r for s, r in raws if s == b'SL']
    nm_done = sl_done = False
    for sig, raw in raws:
        if sig == b'NM':
            if nm_done:
                continue
            nm_done = True
            if any(r[4] & 6 for r in nm_raw):
                for r in nm_raw:
                    items.append(('raw', Piece(b'NM', r)))
            else:
                items.append(('nm', b''.join(r[5:] for r in nm_raw)))
        elif sig == b'SL':
            if sl_done:
                continue
            sl_done = True
            items.append(('sl', sl_components(sl_raw)))
        elif sig == b'RR':
            if style['keep_rr']:
                items.append(('raw', Piece(b'RR', raw)))
        elif sig == b'CL':
            old = struct.unpack_from('<L', raw, 4)[0]
            items.append(('raw', Piece(b'CL', size=12, fn=lambda ctx, old=old: b'CL\x0c\x01' + b32(ctx.dir_by_old_extent(old)))))
        elif sig == b'PL':
            old = struct.unpack_from('<L', raw, 4)[0]
            items.append(('raw', Piece(b'PL', size=12, fn=lambda ctx, old=old: b'PL\x0c\x01' + b32(ctx.dir_by_old_extent(old)))))
        else:
            items.append(('raw', Piece(sig, raw)))
    order = SU_ORDERS[style['su_order'] % len(SU_ORDERS)]

    def rank(it):
        sig = b'NM' if it[0] == 'nm' else b'SL' if it[0] == 'sl' else it[1].sig
        if sig == b'SP':
            return -1
        return order.index(sig) if sig in order else len(order)
    return sorted(items, key=rank)          # stable: unknown kinds keep their relative order at the end


# ---------------------------------------------------------------------------- the re-mastering itself
class Ctx:
    def __init__(self):
        self.dirs = {}          # (tree, path) -> (extent, length)
        self.old_dir_extent = {}    # old extent -> (tree, path)
        self.files = {}         # old extent -> new extent
        self.zero = 0

    def file_extent(self, old, length):
        if length == 0:
            return self.zero
        return self.files[old]

    def dir_by_old_extent(self, old):
        key = self.old_dir_extent.get(old)
        if key is None:
            raise Ineligible('CL/PL points at an unknown directory')
        return self.dirs[key][0]


def remaster(img, style=None):
    """New image bytes, or None when the image is not eligible / the self-check fails."""
    st = dict(DEFAULT_STYLE)
    st.update(style or {})
    try:
        return _remaster(bytes(img), st)
    except Ineligible:
        return None


def _remaster(img, st):
    info = iso9660.read_iso(img)
    # (the order of the records inside a directory is made anew here: what the source has there does not matter)
    ORDER = ('dir-order-ecma', 'dir-order-ecma-version')
    if [f for f in info['findings'] if f[0] not in ORDER] or not info.get('pvds') or info.get('terminator_sector') is None:
        return None
    el = info.get('eltorito')
    if len(info.get('boot_records') or []) != (1 if el else 0):
        return None
    if el and not (el.get('initial') and 'sections' in el and el.get('catalog_bytes')):
        return None
    for s in range(16, min(len(img) // SECTOR, 16 + 80)):
        if img[s * SECTOR + 1:s * SECTOR + 6] in (b'BEA01', b'NSR02', b'NSR03', b'TEA01', b'BOOT2'):
            return None
    trees = {'iso': info['trees']['iso']}
    if 'joliet' in info['trees']:
        trees['joliet'] = info['trees']['joliet']
    rr = info.get('rr')
    ctx = Ctx()
    for tname, t in trees.items():
        for p, e in t.items():
            if e['type'] == 'dir':
                ctx.old_dir_extent.setdefault(e['extent'], (tname, p)) if tname == 'iso' else None
            elif len(e['records']) != 1:
                return None

    # ---- plan every directory
    plans = {}          # (tree, path) -> [RecPlan]

    def raw_of(rec):
        return img[rec['offset']:rec['offset'] + rec['len']]

    def plan_record(tname, rec, ident, kind, parsed, is_root_dot=False):
        raw = raw_of(rec)
        if tname == 'iso' and rr is not None and parsed is not None:
            skip = (14 if info['xa'] else 0) if is_root_dot else rr['skip']
            prefix = rec['su'][:skip]
            items = plan_items(img, parsed, st, ctx.old_dir_extent)
        else:
            prefix, items = rec['su'], []
            if len(prefix) % 2 and prefix[-1:] == b'\0':
                prefix = prefix[:-1]
            if st.get('alien') and tname == 'iso' and rr is None and not info['xa'] and not prefix and kind[0] in ('file', 'dir') and (len(ident) + st['alien']) % 3 == 0:
                # a system use field of another tool's making (not SUSP, not XA): ECMA-119 9.1.13 leaves its content to the
                # recording system; a reader may ignore it but must not lose the record over it
                prefix = b'ZZ' + bytes([6 + 2 * (st['alien'] % 4), 1]) + b'hi' + b'xy' * (st['alien'] % 4)
        return RecPlan(raw, ident, kind, bytes(prefix), items, st, is_root_dot)

    for tname, t in trees.items():
        for p, e in t.items():
            if e['type'] != 'dir':
                continue
            recs = e.get('recs') or []
            if len(recs) < 2:
                return None
            lst = [plan_record(tname, recs[0], b'\x00', ('self', (tname, p)), e.get('dot_su'), p == '/'),
                   plan_record(tname, recs[1], b'\x01', ('parent', (tname, e['parent'] or '/')), e.get('dotdot_su'))]
            kids = sorted(e['children'], key=lambda c: t[c]['ident'])
            if st.get('ecma') and tname == 'iso':
                # the order ECMA-119 9.3 asks for (name and extension space padded, versions descending) instead of plain byte order
                import functools
                from vf.indep.iso9660 import ecma_order_ok
                kids = sorted(kids, key=functools.cmp_to_key(
                    lambda a, b: 0 if t[a]['ident'] == t[b]['ident'] else (-1 if ecma_order_ok(t[a]['ident'], t[b]['ident']) else 1)))
            for c in kids:
                ce = t[c]
                rec = ce['records'][0]
                if ce['type'] == 'dir':
                    kind = ('dir', (tname, c))
                else:
                    kind = ('file', rec['extent'], rec['length'])
                lst.append(plan_record(tname, rec, ce['ident'], kind, ce.get('susp')))
            plans[(tname, p)] = lst

    def dir_size(lst):
        sec_used, total = 0, 0
        for rp in lst:
            if sec_used + rp.length > SECTOR:
                total += SECTOR - sec_used
                sec_used = 0
            sec_used += rp.length
            total += rp.length
        return nsec(total) * SECTOR

    # ---- directory order
    def dir_order(tname):
        t = trees[tname]
        out = []
        if st['dfs']:
            stack = ['/']
            while stack:
                p = stack.pop()
                out.append(p)
                kids = sorted((c for c in t[p]['children'] if t[c]['type'] == 'dir'), key=lambda c: t[c]['ident'], reverse=True)
                stack += kids
        else:
            level = ['/']
            while level:
                out += level
                level = [c for p in level for c in sorted((c for c in t[p]['children'] if t[c]['type'] == 'dir'), key=lambda c: t[c]['ident'])]
        return out

    ndesc = info['terminator_sector'] - 16 + 1
    cur = 16 + ndesc + 1        # + version descriptor
    pt_loc = {}
    pt_size = {}
    tnames = list(trees)
    if st['jfirst'] and len(tnames) == 2:
        tnames.reverse()
    for tname in tnames:
        vd = info['pvds'][0] if tname == 'iso' else [d for d in info['svds'] if d['kind'] == 'joliet'][0]
        pt_size[tname] = vd['pt_size']
        n = max(1, nsec(vd['pt_size']))
        pt_loc[tname] = (cur, cur + n)
        cur += 2 * n
    # directories (+ continuation areas)
    ce_sectors = {}     # sector -> bytearray
    ce_state = {'sec': None, 'off': 0}
    pending_ce = []

    def alloc_ce(rp):
        if rp.ident == b'\x00' and rp.kind == ('self', ('iso', '/')):
            # the root's "." record: its continuation holds the ER entry; mkisofs gives it a sector of its own
            # (the "extension record" sector), and that is the only arrangement emulated here
            rp.ce = (new_sector(), 0)
            ce_state['sec'] = None
            return
        if ce_state['sec'] is None or ce_state['off'] + rp.cont_len > SECTOR:
            ce_state['sec'] = new_sector()
            ce_state['off'] = 0
        rp.ce = (ce_state['sec'], ce_state['off'])
        ce_state['off'] += rp.cont_len
        if st['family'] == 2:
            ce_state['off'] = (ce_state['off'] + 7) & ~7        # aligned areas: holes between them

    nonlocal_cur = [cur]

    def new_sector():
        s = nonlocal_cur[0]
        nonlocal_cur[0] += 1
        ce_sectors[s] = None
        return s

    for tname in tnames:
        for p in dir_order(tname):
            lst = plans[(tname, p)]
            size = dir_size(lst)
            ctx.dirs[(tname, p)] = (nonlocal_cur[0], size)
            nonlocal_cur[0] += size // SECTOR
            if st['family'] in (0, 2):
                # continuation areas of this directory's records follow it (mkisofs, libisofs)
                ce_state['sec'] = None
                for rp in lst:
                    if rp.cont:
                        alloc_ce(rp)
            else:
                pending_ce += [rp for rp in lst if rp.cont]
    if pending_ce:
        ce_state['sec'] = None
        for rp in pending_ce:
            alloc_ce(rp)
    cur = nonlocal_cur[0]
    # files
    old_files = {}
    for tname, t in trees.items():
        for p, e in t.items():
            if e['type'] == 'file':
                rec = e['records'][0]
                if rec['length']:
                    old_files[rec['extent']] = max(old_files.get(rec['extent'], 0), nsec(rec['length']))
    el_entries = []
    if el:
        # El Torito: the catalog sector and every boot image move like file data; images without a name are
        # known only through their load size (no-emulation) - anything else is left alone
        el_entries = [el['initial']] + [e for sec in el['sections'] for e in sec['entries']]
        for e in el_entries:
            if e['rba'] and e['rba'] not in old_files:
                if e['media'] != 0:
                    raise Ineligible('unnamed boot image with emulation')
                old_files[e['rba']] = max(1, nsec(max(1, e['sector_count']) * 512))
                if (e['rba'] + old_files[e['rba']]) * SECTOR > len(img):
                    raise Ineligible('boot image outside the image')
        old_files.setdefault(el['catalog_sector'], 1)
    order = sorted(old_files)
    picks = st['perm'] or [1]
    order.sort(key=lambda x: ((picks[(x * 7) % len(picks)] * 31 + x * 17) % 1009, x))
    if st['zero'] == 2:
        ctx.zero = cur          # one shared empty block (libisofs)
        cur += 1
    for k, old in enumerate(order):
        cur += (picks[k % len(picks)] % (st['gap'] + 1)) if st['gap'] else 0
        ctx.files[old] = cur
        cur += old_files[old]
    if st['zero'] == 1:
        ctx.zero = cur          # "the next sector" (mkisofs gives empty files the address of what follows)
        if st['pad'] == 0:
            cur += 1            # keep it inside the volume
    elif st['zero'] == 3 and order:
        ctx.zero = ctx.files[order[len(order) // 2]]      # the address of some file's data (mkisofs: of the file written next)
    total = cur + st['pad']

    # ---- emit
    out = bytearray(total * SECTOR)
    out[:16 * SECTOR] = img[:16 * SECTOR]
    for (tname, p), lst in plans.items():
        if True:
            ext, size = ctx.dirs[(tname, p)]
            off = ext * SECTOR
            used = 0
            for rp in lst:
                if used + rp.length > SECTOR:
                    off += SECTOR - used
                    used = 0
                b = rp.emit(ctx)
                out[off:off + len(b)] = b
                off += len(b)
                used += len(b)
                if rp.cont:
                    blk, o = rp.ce
                    cb = rp.emit_cont(ctx)
                    assert len(cb) == rp.cont_len
                    out[blk * SECTOR + o:blk * SECTOR + o + len(cb)] = cb
    for old, new in ctx.files.items():
        n = old_files[old]
        out[new * SECTOR:(new + n) * SECTOR] = img[old * SECTOR:(old + n) * SECTOR].ljust(n * SECTOR, b'\0')
    patched = set()
    if el:
        cat_old = el['catalog_sector']
        cat = bytearray(img[cat_old * SECTOR:(cat_old + 1) * SECTOR])
        for e in el_entries:
            if e['rba']:
                new_rba = ctx.files[e['rba']]
                cat[e['offset'] + 8:e['offset'] + 12] = struct.pack('<L', new_rba)
                # a boot info table (bytes 8..23 of the boot image: PVD sector, own sector, length, checksum) names the image's own sector
                o = e['rba'] * SECTOR
                if struct.unpack_from('<L', img, o + 12)[0] == e['rba'] and struct.unpack_from('<L', img, o + 8)[0] == 16:
                    out[new_rba * SECTOR + 12:new_rba * SECTOR + 16] = struct.pack('<L', new_rba)
                    patched.add(e['rba'])
        out[ctx.files[cat_old] * SECTOR:(ctx.files[cat_old] + 1) * SECTOR] = cat
        patched.add(cat_old)
    # path tables
    for tname, t in trees.items():
        ents = [(b'\x00', ctx.dirs[(tname, '/')][0], 1)]
        number = {'/': 1}
        level = ['/']
        while level:
            nxt = []
            for p in level:
                for c in sorted((c for c in t[p]['children'] if t[c]['type'] == 'dir'), key=lambda c: t[c]['ident']):
                    ents.append((t[c]['ident'], ctx.dirs[(tname, c)][0], number[p]))
                    number[c] = len(ents)
                    nxt.append(c)
            level = nxt
        for be, loc in ((False, pt_loc[tname][0]), (True, pt_loc[tname][1])):
            b = bytearray()
            for ident, ext, par in ents:
                b += bytes([len(ident), 0]) + struct.pack('>LH' if be else '<LH', ext, par) + ident + (b'\0' if len(ident) % 2 else b'')
            if len(b) != pt_size[tname]:
                raise Ineligible('path table size changed')
            out[loc * SECTOR:loc * SECTOR + len(b)] = b
    # descriptors
    for d in info['descriptors']:
        raw = bytearray(d['raw'])
        if d['type'] in (1, 2):
            tname = 'joliet' if d.get('kind') == 'joliet' else 'iso'
            if tname not in trees:
                return None
            raw[80:88] = b32(total)
            raw[140:144] = struct.pack('<L', pt_loc[tname][0])
            raw[144:148] = b'\0' * 4
            raw[148:152] = struct.pack('>L', pt_loc[tname][1])
            raw[152:156] = b'\0' * 4
            ext, size = ctx.dirs[(tname, '/')]
            raw[158:166] = b32(ext)
            raw[166:174] = b32(size)
        elif d['type'] == 0 and el and d['sector'] == el['boot_record_sector']:
            raw[71:75] = struct.pack('<L', ctx.files[el['catalog_sector']])
        out[d['sector'] * SECTOR:(d['sector'] + 1) * SECTOR] = raw
    vs = (info['terminator_sector'] + 1) * SECTOR
    if st['mki']:
        tag = b'MKI Fri Oct  2 12:00:00 2026\n'
        out[vs:vs + len(tag)] = tag
    new = bytes(out)
    # ---- self-check with the independent reader
    info2 = iso9660.read_iso(new)
    bad2 = [f for f in info2['findings'] if st.get('ecma') or f[0] not in ('dir-order-ecma', 'dir-order-ecma-version')]
    if bad2:
        raise SelfCheckFailed('findings: %r' % (bad2[:3],))
    def views(image, inf, skip):
        v = iso_views(image, inf)
        for tname, ns in (('iso', 'iso'), ('joliet', 'jol')):
            for pth, e in (inf['trees'].get(tname) or {}).items():
                if e['type'] == 'file' and e['records'][0]['extent'] in skip and pth in v.get(ns, {}):
                    v[ns][pth] = v[ns][pth][:2] + ('moved-boot-data',) + v[ns][pth][3:]
        rrv = v.get('rr')
        if rrv and inf.get('rr'):
            for lp, e in inf['rr']['tree'].items():
                ent = e.get('entry')
                if ent is not None and e['type'] == 'file' and ent['records'][0]['extent'] in skip:
                    k = lp.decode('utf-8', 'replace')
                    if k in rrv:
                        rrv[k] = rrv[k][:2] + ('moved-boot-data',) + rrv[k][3:]
        return v
    if views(new, info2, {ctx.files[x] for x in patched}) != views(img, info, patched):
        raise SelfCheckFailed('views differ')
    if el:
        el2 = info2.get('eltorito') or {}
        ents2 = ([el2['initial']] + [e for sec in el2.get('sections', []) for e in sec['entries']]) if el2.get('initial') else []
        if len(ents2) != len(el_entries):
            raise SelfCheckFailed('El Torito entries differ')
        for a, b in zip(el_entries, ents2):
            if {k: v for k, v in a.items() if k != 'rba'} != {k: v for k, v in b.items() if k != 'rba'}:
                raise SelfCheckFailed('El Torito entry fields differ')
            if a['rba']:
                n = old_files[a['rba']] * SECTOR
                x, y = bytearray(img[a['rba'] * SECTOR:a['rba'] * SECTOR + n]), bytearray(new[b['rba'] * SECTOR:b['rba'] * SECTOR + n])
                if a['rba'] in patched:
                    x[12:16] = y[12:16] = b'\0\0\0\0'
                if x != y:
                    raise SelfCheckFailed('boot image bytes differ')
    return new


class SelfCheckFailed(Exception):
    """The re-mastered image does not read back as the source: a defect of this module."""
