"""Independent ECMA-119 / SUSP / RRIP / Joliet / El Torito reader and validator.

Written from the standards; shares no code with pycdlib (only `struct`).  Never raises and
always terminates on arbitrary input: every problem becomes a finding (clause, message).

read_iso(src) -> dict with keys
  findings, descriptors, pvds, svds (Joliet/enhanced), boot_records, terminator_sector,
  volume_size, block_size, trees {'iso','joliet','enhanced'} (physical trees),
  rr (None | {'er_id', 'tree' (logical RR tree), 'version_hint'}), eltorito (None | dict),
  alloc [(first_sector, n_sectors, kind, owner)], ce_areas [(sector, offset, length, owner)],
  fields [(byte_offset, length, kind)], xa (bool)
"""
import struct

from vf.indep.image import Image, Findings, SECTOR

MAX_DIRS = 70000
MAX_RECORDS = 400000


def u16le(b, o):
    return struct.unpack_from('<H', b, o)[0]


def u16be(b, o):
    return struct.unpack_from('>H', b, o)[0]


def u32le(b, o):
    return struct.unpack_from('<L', b, o)[0]


def u32be(b, o):
    return struct.unpack_from('>L', b, o)[0]


class Reader:
    def __init__(self, src):
        self.img = src if isinstance(src, Image) else Image(src)
        self.f = Findings()
        self.alloc = []
        self.ce_areas = []
        self.fields = []
        self.records_seen = 0
        self.info = {}

    # ------------------------------------------------------------------ both-endian helpers
    def both32(self, b, o, what, base=0, clause='both-endian'):
        if len(b) < o + 8:
            self.f.add('unreadable', '%s: short field' % what)
            return 0
        le, be = u32le(b, o), u32be(b, o + 4)
        self.fields.append((base + o, 8, what))
        if le != be:
            self.f.add(clause, '%s: little-endian copy %d != big-endian copy %d' % (what, le, be))
        return le

    def both16(self, b, o, what, base=0, clause='both-endian'):
        if len(b) < o + 4:
            self.f.add('unreadable', '%s: short field' % what)
            return 0
        le, be = u16le(b, o), u16be(b, o + 2)
        self.fields.append((base + o, 4, what))
        if le != be:
            self.f.add(clause, '%s: little-endian copy %d != big-endian copy %d' % (what, le, be))
        return le

    # ------------------------------------------------------------------ descriptors
    def read_descriptors(self):
        img = self.img
        descs = []
        sec = 16
        term = None
        while sec < min(img.nsectors, 16 + 64):
            d = img.sector(sec)
            if len(d) < SECTOR or d[1:6] != b'CD001':
                break
            t = d[0]
            desc = {'sector': sec, 'type': t, 'version': d[6], 'raw': d}
            self.fields.append((sec * SECTOR, 1, 'vd-type'))
            self.fields.append((sec * SECTOR + 1, 5, 'vd-ident'))
            self.fields.append((sec * SECTOR + 6, 1, 'vd-version'))
            descs.append(desc)
            self.alloc.append((sec, 1, 'volume-descriptor-type-%d' % t, 'vd@%d' % sec))
            if t == 255:
                term = sec
                break
            sec += 1
        if term is None:
            self.f.add('vd-terminator', 'volume descriptor set starting at sector 16 has no terminator (type 255)')
        self.info['descriptors'] = descs
        self.info['terminator_sector'] = term
        pvds, svds, brs = [], [], []
        for desc in descs:
            if desc['type'] in (1, 2):
                self.parse_vd(desc)
                (pvds if desc['type'] == 1 else svds).append(desc)
            elif desc['type'] == 0:
                brs.append(desc)
        if not pvds:
            self.f.add('vd-no-pvd', 'no primary volume descriptor')
        self.info['pvds'], self.info['svds'], self.info['boot_records'] = pvds, svds, brs
        # after the terminator pycdlib writes a "version" descriptor sector (zeroes or 'MKI...')
        return descs

    def parse_vd(self, desc):
        d = desc['raw']
        base = desc['sector'] * SECTOR
        w = 'vd@%d.' % desc['sector']
        desc['flags'] = d[7]
        desc['system_id'] = d[8:40]
        desc['volume_id'] = d[40:72]
        desc['space_size'] = self.both32(d, 80, w + 'volume-space-size', base)
        desc['escape'] = d[88:120]
        desc['set_size'] = self.both16(d, 120, w + 'volume-set-size', base)
        desc['seqnum'] = self.both16(d, 124, w + 'volume-sequence-number', base)
        desc['block_size'] = self.both16(d, 128, w + 'logical-block-size', base)
        desc['pt_size'] = self.both32(d, 132, w + 'path-table-size', base)
        desc['pt_l'] = u32le(d, 140)
        desc['pt_l_opt'] = u32le(d, 144)
        desc['pt_m'] = u32be(d, 148)
        desc['pt_m_opt'] = u32be(d, 152)
        for o, k in ((140, 'pt-l-location'), (148, 'pt-m-location')):
            self.fields.append((base + o, 4, w + k))
        desc['root'] = self.parse_record(d[156:190], base + 156, None, 'utf-8', root=True)
        desc['app_use'] = d[883:1395]
        desc['file_structure_version'] = d[881]
        desc['dates'] = {'creation': d[813:830], 'modification': d[830:847], 'expiration': d[847:864], 'effective': d[864:881]}
        if d[156] != 34:
            self.f.add('vd-root-record', '%sroot directory record length %d != 34' % (w, d[156]))
        if desc['block_size'] != 2048:
            self.f.add('vd-block-size', '%slogical block size %d (only 2048 is handled)' % (w, desc['block_size']))
        kind = 'pvd'
        if desc['type'] == 2:
            esc = desc['escape'][:3]
            if esc in (b'%/@', b'%/C', b'%/E'):
                kind = 'joliet'
                desc['joliet_level'] = {b'%/@': 1, b'%/C': 2, b'%/E': 3}[esc]
            elif desc['version'] == 2:
                kind = 'enhanced'
            else:
                kind = 'svd'
        desc['kind'] = kind

    # ------------------------------------------------------------------ directory records
    def parse_record(self, r, absoff, parent, encoding, root=False):
        """Parse one directory record (bytes r).  Returns dict or None."""
        if len(r) < 34 or r[0] < 34 or r[0] > len(r):
            self.f.add('dir-record-packing', 'record at byte %d: length byte %d does not fit (have %d bytes)' % (absoff, r[0] if r else -1, len(r)))
            return None
        ln = r[0]
        w = 'dr@%d.' % absoff
        rec = {'offset': absoff, 'len': ln, 'ext_attr_len': r[1]}
        self.fields.append((absoff, 1, 'dr-length'))
        rec['extent'] = self.both32(r, 2, w + 'extent', absoff)
        rec['length'] = self.both32(r, 10, w + 'data-length', absoff)
        rec['date'] = r[18:25]
        rec['flags'] = r[25]
        self.fields.append((absoff + 25, 1, 'dr-flags'))
        rec['unit_size'], rec['gap'] = r[26], r[27]
        rec['seq'] = self.both16(r, 28, w + 'volume-sequence-number', absoff)
        lfi = r[32]
        self.fields.append((absoff + 32, 1, 'dr-len-fi'))
        if 33 + lfi > ln:
            self.f.add('dir-record-packing', 'record at byte %d: identifier length %d exceeds record length %d' % (absoff, lfi, ln))
            return None
        rec['ident'] = bytes(r[33:33 + lfi])
        pad = 1 - (lfi % 2)
        su_start = 33 + lfi + pad
        if ln % 2:
            self.f.add('dir-record-packing', 'record at byte %d: odd record length %d' % (absoff, ln))
        if pad and su_start <= ln and r[33 + lfi] != 0:
            self.f.add('dir-record-packing', 'record at byte %d: pad byte after even-length identifier is %d, not 0' % (absoff, r[33 + lfi]))
        rec['su'] = bytes(r[su_start:ln]) if su_start <= ln else b''
        rec['su_offset'] = absoff + su_start
        rec['is_dir'] = bool(rec['flags'] & 2)
        rec['hidden'] = bool(rec['flags'] & 1)
        rec['multi_extent'] = bool(rec['flags'] & 0x80)
        return rec

    def read_dir_extent(self, extent, length, owner, encoding):
        """Records of one directory extent, with packing checks.  Returns list of record dicts."""
        out = []
        img = self.img
        if length % SECTOR:
            self.f.add('dir-size', 'directory %s: data length %d is not a multiple of the sector size' % (owner, length))
        nsec = (length + SECTOR - 1) // SECTOR
        if extent + nsec > img.nsectors or nsec > 4096:
            self.f.add('dir-bounds', 'directory %s: extent %d + %d sectors lies outside the image (%d sectors)' % (owner, extent, nsec, img.nsectors))
            nsec = max(0, min(nsec, img.nsectors - extent, 4096))
        for s in range(nsec):
            sec = img.sector(extent + s)
            base = (extent + s) * SECTOR
            off = 0
            while off < len(sec):
                ln = sec[off]
                if ln == 0:
                    if any(sec[off:]):
                        self.f.add('dir-record-packing', 'directory %s: non-zero bytes after the last record of sector %d' % (owner, extent + s))
                    break
                if off + ln > SECTOR:
                    self.f.add('dir-record-packing', 'directory %s: record at sector %d offset %d (length %d) crosses the sector end' % (owner, extent + s, off, ln))
                    break
                self.records_seen += 1
                if self.records_seen > MAX_RECORDS:
                    self.f.add('unreadable', 'too many directory records')
                    return out
                rec = self.parse_record(sec[off:off + ln], base + off, owner, encoding)
                if rec is None:
                    break
                out.append(rec)
                off += ln
        return out

    def read_tree(self, vd, treename):
        """Physical tree below the root record of a descriptor."""
        enc = 'utf-16_be' if vd['kind'] == 'joliet' else 'utf-8'
        root = vd.get('root')
        tree = {}
        if root is None:
            return tree
        tree['/'] = {'type': 'dir', 'ident': b'', 'name': '', 'extent': root['extent'], 'length': root['length'], 'flags': root['flags'],
                     'hidden': False, 'records': [root], 'parent': None, 'children': [], 'susp': None}
        seen_extents = {}
        queue = ['/']
        ndirs = 0
        while queue:
            path = queue.pop(0)
            node = tree[path]
            ndirs += 1
            if ndirs > MAX_DIRS:
                self.f.add('unreadable', 'too many directories')
                break
            ext = node['extent']
            if ext in seen_extents:
                self.f.add('dir-cycle', '%s: directory %r shares its extent %d with %r' % (treename, path, ext, seen_extents[ext]))
                continue
            seen_extents[ext] = path
            recs = self.read_dir_extent(ext, node['length'], '%s:%s' % (treename, path), enc)
            used = sum(r['len'] for r in recs)
            self.alloc.append((ext, max(1, (node['length'] + SECTOR - 1) // SECTOR), 'dir-' + treename, '%s:%s' % (treename, path)))
            node['recs'] = recs
            # "." and ".."
            if len(recs) < 2 or recs[0]['ident'] != b'\x00' or recs[1]['ident'] != b'\x01':
                self.f.add('dir-dot', '%s: directory %r does not start with "." and ".." records' % (treename, path))
            else:
                dot, dotdot = recs[0], recs[1]
                if dot['extent'] != ext or dot['length'] != node['length'] or not dot['is_dir']:
                    self.f.add('dir-dot', '%s: "." of %r says extent %d length %d, directory is at extent %d length %d'
                               % (treename, path, dot['extent'], dot['length'], ext, node['length']))
                par = tree[node['parent']] if node['parent'] is not None else node
                if dotdot['extent'] != par['extent'] or dotdot['length'] != par['length'] or not dotdot['is_dir']:
                    self.f.add('dir-dotdot', '%s: ".." of %r says extent %d length %d, parent %r is at extent %d length %d'
                               % (treename, path, dotdot['extent'], dotdot['length'], node['parent'] or '/', par['extent'], par['length']))
                node['dot'], node['dotdot'] = dot, dotdot
            # ordering and duplicates
            prev = None
            i = 2 if len(recs) >= 2 else 0
            body = recs[i:]
            j = 0
            while j < len(body):
                r = body[j]
                group = [r]
                # multi-extent chain: consecutive records with the same identifier, all but the last flagged
                while group[-1]['multi_extent'] and j + 1 < len(body) and body[j + 1]['ident'] == r['ident']:
                    j += 1
                    group.append(body[j])
                if group[-1]['multi_extent']:
                    self.f.add('multi-extent', '%s: %r: last record of %r still has the multi-extent flag' % (treename, path, r['ident'][:40]))
                ident = r['ident']
                if prev is not None:
                    if ident == prev:
                        self.f.add('dup-ident', '%s: directory %r holds identifier %r twice' % (treename, path, ident[:60]))
                    elif ident < prev and not (enc == 'utf-8' and ecma_order_ok(prev, ident)):
                        # (where byte order and the order of ECMA-119 9.3 disagree, the latter is the conforming one)
                        self.f.add('dir-order', '%s: directory %r: %r sorted after %r' % (treename, path, ident[:40], prev[:40]))
                    elif enc == 'utf-8' and not ecma_order_ok(prev, ident):
                        only_version = prev.rpartition(b';')[0] == ident.rpartition(b';')[0] and b';' in prev and b';' in ident
                        self.f.add('dir-order-ecma-version' if only_version else 'dir-order-ecma',
                                   '%s: directory %r: %r before %r is byte order but not ECMA-119 9.3 order%s'
                                   % (treename, path, prev[:40], ident[:40], ' (versions of one file go in descending order)' if only_version else ''))
                prev = ident
                try:
                    name = ident.decode(enc)
                except UnicodeDecodeError:
                    name = ident.decode('latin-1')
                    self.f.add('name-encoding', '%s: identifier %r in %r does not decode as %s' % (treename, ident[:40], path, enc))
                cpath = ('' if path == '/' else path) + '/' + name
                entry = {'type': 'dir' if r['is_dir'] else 'file', 'ident': ident, 'name': name, 'extent': r['extent'],
                         'length': sum(g['length'] for g in group), 'flags': r['flags'], 'hidden': r['hidden'], 'records': group,
                         'extents': [(g['extent'], g['length']) for g in group], 'parent': path, 'children': [], 'susp': None}
                if cpath in tree:
                    j += 1
                    continue
                tree[cpath] = entry
                node['children'].append(cpath)
                if r['is_dir']:
                    if len(group) > 1:
                        self.f.add('multi-extent', '%s: directory %r has several records' % (treename, cpath))
                    queue.append(cpath)
                j += 1
            if used > node['length']:
                self.f.add('dir-size', '%s: directory %r uses %d bytes of records but declares %d' % (treename, path, used, node['length']))
        return tree

    # ------------------------------------------------------------------ path tables
    def check_path_tables(self, vd, tree, treename):
        size = vd['pt_size']
        enc_dirs = self.expected_path_table(tree)
        tables = {}
        for label, loc, be in (('L', vd['pt_l'], False), ('M', vd['pt_m'], True)):
            nsec = (size + SECTOR - 1) // SECTOR
            if loc == 0 or loc + nsec > self.img.nsectors or size > (1 << 24):
                self.f.add('pt-bounds', '%s: %s path table at sector %d size %d lies outside the image' % (treename, label, loc, size))
                continue
            self.alloc.append((loc, max(1, nsec), 'path-table-%s-%s' % (label, treename), '%s:%s' % (treename, label)))
            data = self.img.read(loc * SECTOR, size)
            ents = []
            off = 0
            while off < len(data):
                ldi = data[off]
                if ldi == 0:
                    self.f.add('pt-size', '%s: %s path table: zero identifier length at offset %d of %d' % (treename, label, off, size))
                    break
                if off + 8 + ldi > len(data):
                    self.f.add('pt-size', '%s: %s path table: record at offset %d runs past the declared size %d' % (treename, label, off, size))
                    break
                ext = u32be(data, off + 2) if be else u32le(data, off + 2)
                par = u16be(data, off + 6) if be else u16le(data, off + 6)
                ident = bytes(data[off + 8:off + 8 + ldi])
                self.fields.append((loc * SECTOR + off, 1, 'pt-len-di'))
                self.fields.append((loc * SECTOR + off + 2, 4, 'pt-extent'))
                self.fields.append((loc * SECTOR + off + 6, 2, 'pt-parent'))
                ents.append((ident, ext, par))
                off += 8 + ldi + (ldi % 2)
            if off != size and off <= len(data) and not (off > size):
                pass
            if off != size:
                self.f.add('pt-size', '%s: %s path table records end at %d, declared size %d' % (treename, label, off, size))
            tables[label] = ents
            if ents != enc_dirs:
                # find first difference for the message
                k = 0
                while k < min(len(ents), len(enc_dirs)) and ents[k] == enc_dirs[k]:
                    k += 1
                got = ents[k] if k < len(ents) else None
                want = enc_dirs[k] if k < len(enc_dirs) else None
                clause = 'pt-content'
                if got and want:
                    if got[0] != want[0]:
                        clause = 'pt-order'
                    elif got[1] != want[1]:
                        clause = 'pt-extent'
                    elif got[2] != want[2]:
                        clause = 'pt-parent'
                self.f.add(clause, '%s: %s path table entry %d is %r, the directory hierarchy implies %r (table has %d entries, hierarchy %d directories)'
                           % (treename, label, k + 1, _short(got), _short(want), len(ents), len(enc_dirs)))
        if 'L' in tables and 'M' in tables and tables['L'] != tables['M']:
            self.f.add('pt-le-be-agree', '%s: little- and big-endian path tables differ' % treename)

    def expected_path_table(self, tree):
        """(ident, extent, parent number) in ECMA-119 6.9.1 order: by level, then parent number, then identifier."""
        if '/' not in tree:
            return []
        out = [(b'\x00', tree['/']['extent'], 1)]
        number = {'/': 1}
        level = ['/']
        while level:
            nxt = []
            for p in level:
                kids = [c for c in tree[p]['children'] if tree[c]['type'] == 'dir']
                kids.sort(key=lambda c: tree[c]['ident'])
                for c in kids:
                    out.append((tree[c]['ident'], tree[c]['extent'], number[p]))
                    number[c] = len(out)
                    nxt.append(c)
            level = nxt
        return out

    # ------------------------------------------------------------------ SUSP / RRIP
    def parse_susp(self, rec, skip, owner, is_root_dot):
        """Parse the system-use area (following CE chains).  Returns dict."""
        out = {'entries': [], 'nm': b'', 'nm_flags': 0, 'px': None, 'sl': None, 'cl': None, 'pl': None, 're': False, 'tf': None,
               'sp': None, 'er': None, 'ce': [], 'rr_flags': None, 'sf': None, 'es': False, 'sl_continue': False}
        area = rec['su'][skip:] if skip <= len(rec['su']) else b''
        base = rec['su_offset'] + skip
        hops = 0
        sl_parts = []
        sl_open_component = None
        while True:
            off = 0
            next_ce = None
            while off + 4 <= len(area):
                sig = bytes(area[off:off + 2])
                ln = area[off + 2]
                if sig[0] == 0:
                    # padding byte(s)
                    break
                if ln < 4 or off + ln > len(area):
                    self.f.add('su-length', '%s: system-use entry %r at byte %d has length %d but only %d bytes remain' % (owner, sig, base + off, ln, len(area) - off))
                    off = len(area)
                    break
                ver = area[off + 3]
                body = bytes(area[off + 4:off + ln])
                self.fields.append((base + off + 2, 1, 'su-entry-length'))
                out['entries'].append((sig, ln, base + off))
                if ver != 1:
                    self.f.add('su-version', '%s: system-use entry %r has version %d' % (owner, sig, ver))
                if next_ce is not None and sig != b'ST':
                    self.f.add('su-ce-last', '%s: entry %r follows the CE entry of its area' % (owner, sig))
                if sig == b'CE':
                    if ln != 28:
                        self.f.add('su-length', '%s: CE entry length %d != 28' % (owner, ln))
                    else:
                        blk = self.both32(body, 0, 'ce-block', base + off + 4, 'su-both-endian')
                        o2 = self.both32(body, 8, 'ce-offset', base + off + 4, 'su-both-endian')
                        l2 = self.both32(body, 16, 'ce-length', base + off + 4, 'su-both-endian')
                        next_ce = (blk, o2, l2)
                elif sig == b'SP':
                    out['sp'] = body
                    if not is_root_dot:
                        self.f.add('su-sp', '%s: SP entry outside the root directory\'s "." record' % owner)
                    if ln != 7 or body[:2] != b'\xbe\xef':
                        self.f.add('su-sp', '%s: malformed SP entry' % owner)
                elif sig == b'ER':
                    if len(body) >= 4:
                        li, ld, ls = body[0], body[1], body[2]
                        out['er'] = {'id': body[4:4 + li], 'ext_ver': body[3], 'des': body[4 + li:4 + li + ld], 'src': body[4 + li + ld:4 + li + ld + ls]}
                        if 4 + li + ld + ls != len(body):
                            self.f.add('su-length', '%s: ER entry lengths do not add up' % owner)
                elif sig == b'RR':
                    out['rr_flags'] = body[0] if body else None
                elif sig == b'PX':
                    if ln not in (36, 44):
                        self.f.add('rr-px-len', '%s: PX entry length %d' % (owner, ln))
                    else:
                        px = {'len': ln,
                              'mode': self.both32(body, 0, 'px-mode', base + off + 4, 'su-both-endian'),
                              'links': self.both32(body, 8, 'px-links', base + off + 4, 'su-both-endian'),
                              'uid': self.both32(body, 16, 'px-uid', base + off + 4, 'su-both-endian'),
                              'gid': self.both32(body, 24, 'px-gid', base + off + 4, 'su-both-endian')}
                        if ln == 44:
                            px['serial'] = self.both32(body, 32, 'px-serial', base + off + 4, 'su-both-endian')
                        out['px'] = px
                elif sig == b'NM':
                    if not body:
                        self.f.add('su-length', '%s: empty NM entry' % owner)
                    else:
                        fl = body[0]
                        if out['nm'] and not (out['nm_flags'] & 1):
                            self.f.add('rr-nm', '%s: NM entry follows one without the CONTINUE flag' % owner)
                        out['nm'] += body[1:]
                        out['nm_flags'] = fl
                        out['nm_count'] = out.get('nm_count', 0) + 1
                        if len(body) - 1 > 250:
                            self.f.add('rr-nm', '%s: NM entry carries %d name bytes' % (owner, len(body) - 1))
                elif sig == b'SL':
                    if not body:
                        self.f.add('su-length', '%s: empty SL entry' % owner)
                    elif out.get('sl_seen') and not out.get('sl_continue'):
                        # RRIP 4.1.3: the link ends with the first SL entry whose CONTINUE flag is clear; what follows is not part of it
                        self.f.add('rr-sl-continue', '%s: an SL entry follows one whose CONTINUE flag is clear' % owner)
                    else:
                        fl = body[0]
                        k = 1
                        while k + 2 <= len(body):
                            cf, cl = body[k], body[k + 1]
                            if k + 2 + cl > len(body):
                                self.f.add('rr-sl', '%s: SL component runs past its entry' % owner)
                                break
                            comp = body[k + 2:k + 2 + cl]
                            if sl_open_component is not None:
                                sl_open_component[1] += comp
                                sl_open_component[0] = cf
                                cur = sl_open_component
                            else:
                                cur = [cf, bytearray(comp)]
                                sl_parts.append(cur)
                            sl_open_component = cur if (cf & 1) else None
                            k += 2 + cl
                        if k != len(body):
                            self.f.add('rr-sl', '%s: SL entry has %d stray bytes' % (owner, len(body) - k))
                        out['sl_continue'] = bool(fl & 1)
                        out['sl_seen'] = True
                elif sig == b'CL':
                    out['cl'] = self.both32(body, 0, 'cl-location', base + off + 4, 'su-both-endian') if ln == 12 else None
                    if ln != 12:
                        self.f.add('su-length', '%s: CL length %d' % (owner, ln))
                elif sig == b'PL':
                    out['pl'] = self.both32(body, 0, 'pl-location', base + off + 4, 'su-both-endian') if ln == 12 else None
                    if ln != 12:
                        self.f.add('su-length', '%s: PL length %d' % (owner, ln))
                elif sig == b'RE':
                    out['re'] = True
                    if ln != 4:
                        self.f.add('su-length', '%s: RE length %d' % (owner, ln))
                elif sig == b'TF':
                    if body:
                        fl = body[0]
                        n = bin(fl & 0x7f).count('1')
                        sz = 17 if fl & 0x80 else 7
                        if 1 + n * sz != len(body):
                            self.f.add('su-length', '%s: TF entry length %d does not match its flags' % (owner, ln))
                        out['tf'] = (fl, body[1:])
                elif sig == b'SF':
                    out['sf'] = ln
                elif sig == b'ES':
                    out['es'] = True
                elif sig == b'ST':
                    off += ln
                    break
                elif sig in (b'PN', b'PD'):
                    pass
                else:
                    self.f.add('su-unknown', '%s: unknown system-use entry %r' % (owner, sig))
                off += ln
            # whatever is left in this area must be padding (at most one pad byte inside a directory record)
            rest = area[off:]
            if any(rest):
                self.f.add('su-length', '%s: %d stray non-zero bytes after the system-use entries at byte %d' % (owner, len(rest), base + off))
            elif hops == 0 and len(rest) > 1 and next_ce is None and False:
                pass
            if next_ce is None:
                break
            hops += 1
            if hops > 64:
                self.f.add('su-ce-loop', '%s: more than 64 chained continuation areas' % owner)
                break
            blk, o2, l2 = next_ce
            if o2 + l2 > SECTOR:
                self.f.add('su-ce-bounds', '%s: continuation area (sector %d offset %d length %d) leaves its sector' % (owner, blk, o2, l2))
            if blk == 0 or (blk + 1) * SECTOR > self.img.size + 0 and blk >= self.img.nsectors:
                self.f.add('su-ce-bounds', '%s: continuation area sector %d lies outside the image' % (owner, blk))
                break
            self.ce_areas.append((blk, o2, l2, owner))
            out['ce'].append((blk, o2, l2))
            area = self.img.read(blk * SECTOR + o2, l2)
            if len(area) < l2:
                self.f.add('su-ce-bounds', '%s: continuation area (sector %d offset %d length %d) is cut short by the end of the image' % (owner, blk, o2, l2))
            base = blk * SECTOR + o2
        if sl_parts or out.get('sl_seen'):
            if sl_open_component is not None:
                self.f.add('rr-sl', '%s: last SL component still has the CONTINUE flag' % owner)
            if out['sl_continue']:
                self.f.add('rr-sl', '%s: last SL entry still has the CONTINUE flag' % owner)
            out['sl'] = sl_target(sl_parts, self.f, owner)
        if out['nm'] and (out['nm_flags'] & 1):
            self.f.add('rr-nm', '%s: last NM entry still has the CONTINUE flag' % owner)
        return out

    def read_rock_ridge(self, tree, xa):
        """Attach SUSP data to every ISO record and reconstruct the logical Rock Ridge tree."""
        root = tree.get('/')
        if root is None or not root.get('recs'):
            return None
        dot = root['recs'][0]
        skip0 = 14 if xa else 0
        if dot['su'][skip0:skip0 + 2] != b'SP':
            return None
        sp = dot['su'][skip0:skip0 + 7]
        skip = sp[6] if len(sp) >= 7 else 0
        if xa and skip != 14:
            self.f.add('su-sp', 'SP entry says %d bytes to skip on an XA image (expected 14)' % skip)
        info = {'skip': skip}
        by_extent = {}
        for p, e in tree.items():
            if e['type'] == 'dir':
                by_extent.setdefault(e['extent'], p)
        for p, e in tree.items():
            owner = 'rr:%s' % p
            if e['type'] == 'dir' and e.get('recs'):
                recs = e['recs']
                if len(recs) >= 2:
                    # on the root "." record the SP entry itself sits before len_skp takes effect
                    e['dot_su'] = self.parse_susp(recs[0], skip0 if p == '/' else skip, owner + '/.', p == '/')
                    e['dotdot_su'] = self.parse_susp(recs[1], skip, owner + '/..', False)
            if p != '/':
                e['susp'] = self.parse_susp(e['records'][0], skip, owner, False)
        er = root.get('dot_su', {}).get('er')
        info['er_id'] = er['id'] if er else None
        if er is None:
            self.f.add('su-er', 'root "." record carries SP but no ER entry')
        # logical tree
        logical = {b'/': {'type': 'dir', 'name': b'', 'phys': '/', 'su': root.get('dot_su'), 'children': [], 'hidden': False}}

        def walk(lpath, ppath, depth):
            if depth > 64:
                self.f.add('rr-depth', 'logical tree deeper than 64 levels')
                return
            for c in tree[ppath]['children']:
                e = tree[c]
                su = e.get('susp') or {}
                if su.get('re'):
                    # relocated directory: hidden at its physical location
                    if not e['type'] == 'dir':
                        self.f.add('rr-re', '%s: RE entry on a non-directory' % c)
                    e['relocated'] = True
                    continue
                name = su.get('nm') or e['ident']
                child_l = (b'' if lpath == b'/' else lpath) + b'/' + name
                ent = {'type': e['type'], 'name': name, 'phys': c, 'su': su, 'children': [], 'hidden': e['hidden'], 'entry': e}
                target = c
                if su.get('cl') is not None:
                    loc = su['cl']
                    moved = by_extent.get(loc)
                    if moved is None or not tree[moved].get('susp', {}).get('re'):
                        self.f.add('rr-cl-target', '%s: CL points at sector %d which is not a relocated (RE) directory' % (c, loc))
                    else:
                        target = moved
                        ent['type'] = 'dir'
                        ent['phys'] = moved
                        ent['via_cl'] = c
                        msu = tree[moved].get('susp') or {}
                        if (msu.get('nm') or tree[moved]['ident']) != name:
                            self.f.add('rr-cl-target', '%s: placeholder is named %r but the relocated directory %r' % (c, name[:40], (msu.get('nm') or b'')[:40]))
                        ent['su'] = msu
                        ent['entry'] = tree[moved]
                        ent['hidden'] = tree[moved]['hidden']
                        # PL of the moved directory's ".." must point at the logical parent
                        dd = tree[moved].get('dotdot_su') or {}
                        lp_ext = tree[ppath]['extent']
                        if dd.get('pl') != lp_ext:
                            self.f.add('rr-pl-target', '%s: PL of the relocated directory points at sector %r, logical parent is at sector %d' % (moved, dd.get('pl'), lp_ext))
                    if e['type'] == 'dir':
                        self.f.add('rr-cl-target', '%s: CL placeholder is flagged as a directory' % c)
                if su.get('sl') is not None:
                    ent['type'] = 'symlink'
                    ent['target'] = su['sl']
                if child_l in logical:
                    self.f.add('rr-dup-name', 'logical directory %r holds the name %r twice' % (lpath[:60], name[:60]))
                    continue
                logical[child_l] = ent
                logical[lpath]['children'].append(child_l)
                if ent['type'] == 'dir':
                    walk(child_l, target, depth + 1)
        walk(b'/', '/', 0)
        for p, e in tree.items():
            if e.get('relocated') and not any(l.get('phys') == p for l in logical.values()):
                self.f.add('rr-re', '%s: relocated directory is not referenced by any CL placeholder' % p)
        info['tree'] = logical
        return info

    # ------------------------------------------------------------------ El Torito
    def read_eltorito(self):
        brs = [d for d in self.info['boot_records'] if d['raw'][7:39].rstrip(b'\0') == b'EL TORITO SPECIFICATION']
        if not brs:
            return None
        br = brs[0]
        el = {'boot_record_sector': br['sector'], 'findings': []}
        if br['sector'] != 17:
            self.f.add('eltorito-sector', 'El Torito boot record at sector %d, must be 17' % br['sector'])
        cat = u32le(br['raw'], 71)
        self.fields.append((br['sector'] * SECTOR + 71, 4, 'eltorito-catalog-pointer'))
        el['catalog_sector'] = cat
        if cat == 0 or cat >= self.img.nsectors:
            self.f.add('eltorito-catalog', 'boot catalog pointer %d lies outside the image' % cat)
            return el
        self.alloc.append((cat, 1, 'boot-catalog', 'eltorito'))
        c = self.img.sector(cat)
        el['catalog_bytes'] = c
        val = c[0:32]
        el['validation'] = {'header_id': val[0], 'platform': val[1], 'id': val[4:28], 'checksum': u16le(val, 28), 'key': val[30:32]}
        if val[0] != 1 or val[30:32] != b'\x55\xaa':
            self.f.add('eltorito-validation', 'validation entry header/key bytes wrong (%d, %r)' % (val[0], val[30:32]))
        if sum(u16le(val, i) for i in range(0, 32, 2)) & 0xffff:
            self.f.add('eltorito-validation', 'validation entry 16-bit words do not sum to zero')

        def entry(b, off):
            self.fields.append((cat * SECTOR + off + 8, 4, 'eltorito-load-rba'))
            self.fields.append((cat * SECTOR + off + 6, 2, 'eltorito-sector-count'))
            self.fields.append((cat * SECTOR + off + 1, 1, 'eltorito-media'))
            rba = u32le(b, 8)
            if 0 < rba < self.img.nsectors and u32le(self.img.sector(rba), 12) == rba:
                # a boot info table, if any, sits at bytes 8..23 of the boot file (parsers look at it)
                for k, name in ((8, 'bit-pvd-extent'), (12, 'bit-file-extent'), (16, 'bit-length'), (20, 'bit-checksum')):
                    self.fields.append((rba * SECTOR + k, 4, name))
            return {'bootable': b[0] == 0x88, 'indicator': b[0], 'media': b[1] & 0x0f, 'media_flags': b[1] >> 4, 'load_segment': u16le(b, 2), 'system_type': b[4],
                    'sector_count': u16le(b, 6), 'rba': u32le(b, 8), 'selection': b[12], 'offset': off}
        el['initial'] = entry(c[32:64], 32)
        if c[32] not in (0x88, 0x00):
            self.f.add('eltorito-entry', 'initial entry boot indicator %#x' % c[32])
        sections = []
        off = 64
        last_seen = False
        while off + 32 <= SECTOR:
            b = c[off:off + 32]
            if b[0] in (0x90, 0x91):
                if last_seen:
                    self.f.add('eltorito-section', 'section header after the one marked last (0x91)')
                n = u16le(b, 2)
                self.fields.append((cat * SECTOR + off + 2, 2, 'eltorito-section-count'))
                sec = {'indicator': b[0], 'platform': b[1], 'count': n, 'id': b[4:32], 'entries': [], 'offset': off}
                off += 32
                for _ in range(n):
                    if off + 32 > SECTOR:
                        self.f.add('eltorito-section', 'section entries run past the catalog sector')
                        break
                    e = c[off:off + 32]
                    if e[0] not in (0x88, 0x00):
                        self.f.add('eltorito-entry', 'section entry boot indicator %#x' % e[0])
                    sec['entries'].append(entry(e, off))
                    off += 32
                    while off + 32 <= SECTOR and c[off] == 0x44:
                        off += 32
                sections.append(sec)
                if b[0] == 0x91:
                    last_seen = True
                continue
            if any(b):
                if b[0] in (0x88,):
                    self.f.add('eltorito-section', 'stand-alone entry at offset %d without a section header' % off)
                else:
                    self.f.add('eltorito-section', 'unexpected byte %#x at catalog offset %d' % (b[0], off))
                off += 32
                continue
            break
        if sections and not last_seen:
            self.f.add('eltorito-section', 'no section header is marked as the last one (0x91)')
        if any(c[off:]):
            self.f.add('eltorito-section', 'non-zero bytes after the end of the catalog entries')
        el['sections'] = sections
        return el

    # ------------------------------------------------------------------ top level
    def run(self):
        info = self.info
        info['findings'] = self.f
        try:
            self._run()
        except Exception as e:  # never raise on garbage
            import traceback
            self.f.add('unreadable', 'reader gave up: %r at %s' % (e, traceback.format_exc().splitlines()[-3:]))
        info['alloc'] = self.alloc
        info['ce_areas'] = self.ce_areas
        info['fields'] = self.fields
        return info

    def _run(self):
        info = self.info
        self.alloc.append((0, 16, 'system-area', 'system-area'))
        self.read_descriptors()
        info['trees'] = {}
        info['rr'] = None
        info['eltorito'] = None
        info['xa'] = False
        if not info['pvds']:
            return
        pvd = info['pvds'][0]
        info['volume_size'] = pvd['space_size']
        info['block_size'] = pvd['block_size']
        info['xa'] = pvd['app_use'][141:149] == b'CD-XA001'
        for other in info['pvds'][1:] + info['svds']:
            if other['space_size'] != pvd['space_size']:
                self.f.add('vd-sizes-agree', 'descriptor at sector %d declares %d sectors, the primary %d' % (other['sector'], other['space_size'], pvd['space_size']))
        for other in info['pvds'][1:]:
            a, b = bytearray(other['raw']), bytearray(pvd['raw'])
            if a != b:
                self.f.add('vd-duplicate-pvd', 'duplicate PVD at sector %d differs from the first PVD' % other['sector'])
        tree = self.read_tree(pvd, 'iso')
        info['trees']['iso'] = tree
        self.check_path_tables(pvd, tree, 'iso')
        for svd in info['svds']:
            if svd['kind'] == 'joliet' and 'joliet' not in info['trees']:
                jt = self.read_tree(svd, 'joliet')
                info['trees']['joliet'] = jt
                self.check_path_tables(svd, jt, 'joliet')
            elif svd['kind'] == 'enhanced':
                r = svd.get('root')
                if r is not None and (r['extent'] != pvd['root']['extent'] or r['length'] != pvd['root']['length']):
                    self.f.add('vd-enhanced', 'enhanced descriptor root (extent %d, length %d) differs from the primary root (%d, %d)'
                               % (r['extent'], r['length'], pvd['root']['extent'], pvd['root']['length']))
                for k in ('pt_size', 'pt_l', 'pt_m'):
                    if svd[k] != pvd[k]:
                        self.f.add('vd-enhanced', 'enhanced descriptor %s %d differs from the primary %d' % (k, svd[k], pvd[k]))
                info['trees']['enhanced'] = tree
        info['rr'] = self.read_rock_ridge(tree, info['xa'])
        info['eltorito'] = self.read_eltorito()
        # file data allocation (ISO and Joliet names share extents)
        seen = {}
        for tname, t in info['trees'].items():
            if tname == 'enhanced':
                continue
            for p, e in t.items():
                if e['type'] != 'file':
                    continue
                su = e.get('susp') or {}
                if su.get('cl') is not None or su.get('sl') is not None:
                    continue
                for ext, ln in e.get('extents', []):
                    if ln == 0:
                        continue
                    key = (ext, (ln + SECTOR - 1) // SECTOR)
                    seen.setdefault(key, []).append('%s:%s' % (tname, p))
        cat = (info['eltorito'] or {}).get('catalog_sector')
        for (ext, n), owners in sorted(seen.items()):
            if cat is not None and ext == cat and n == 1:
                continue
            self.alloc.append((ext, n, 'file', tuple(owners)))
        # continuation sectors
        for blk in sorted(set(a[0] for a in self.ce_areas)):
            self.alloc.append((blk, 1, 'rr-ce', 'ce@%d' % blk))
        # continuation areas: no overlap
        areas = sorted(self.ce_areas)
        for i in range(1, len(areas)):
            a, b = areas[i - 1], areas[i]
            if a[0] == b[0] and a[1] + a[2] > b[1] and a[:3] != b[:3]:
                self.f.add('su-ce-overlap', 'continuation areas of %s and %s overlap in sector %d' % (a[3], b[3], a[0]))
            elif a[:3] == b[:3] and a[3] != b[3]:
                self.f.add('su-ce-overlap', 'continuation area in sector %d offset %d is used by both %s and %s' % (a[0], a[1], a[3], b[3]))


def sl_target(parts, f, owner):
    """Reassemble a symlink target from SL components (RRIP 4.1.3)."""
    comps = []
    absolute = False
    for i, (cf, data) in enumerate(parts):
        cf &= 0xfe
        if cf & 8:      # ROOT
            if i != 0:
                f.add('rr-sl', '%s: ROOT component in the middle of a target' % owner)
            absolute = True
            comps = [None]          # a ROOT component starts the path over at '/'
        elif cf & 2:
            comps.append(b'.')
        elif cf & 4:
            comps.append(b'..')
        else:
            comps.append(bytes(data))
    if absolute:
        rest = [c for c in comps[1:]]
        return b'/' + b'/'.join(rest)
    return b'/'.join(c for c in comps if c is not None)


def ecma_order_ok(a, b):
    """ECMA-119 9.3 ordering of two file identifiers (a before b): name, then extension, each space
    padded, then version descending."""
    def split(x):
        ver = b''
        if b';' in x:
            x, ver = x.rsplit(b';', 1)
        name, ext = (x.split(b'.', 1) + [b''])[:2] if b'.' in x else (x, b'')
        return name, ext, ver
    na, ea, va = split(a)
    nb, eb, vb = split(b)
    w = max(len(na), len(nb))
    if na.ljust(w) != nb.ljust(w):
        return na.ljust(w) < nb.ljust(w)
    w = max(len(ea), len(eb))
    if ea.ljust(w) != eb.ljust(w):
        return ea.ljust(w) < eb.ljust(w)
    try:
        return int(va or b'0') >= int(vb or b'0')
    except ValueError:
        return True


def _short(t):
    if t is None:
        return None
    return (t[0][:24], t[1], t[2])


def read_iso(src):
    return Reader(src).run()


_KIND_CACHE = {}


def kind_of_sector(img, sec):
    """Kind of the on-disc object a sector belongs to (for diagnostics)."""
    key = (id(img), len(img))
    if key not in _KIND_CACHE:
        _KIND_CACHE.clear()
        info = read_iso(img)
        m = {}
        for first, n, kind, owner in info['alloc']:
            for s in range(first, first + min(n, 100000)):
                m.setdefault(s, kind)
        _KIND_CACHE[key] = m
    return _KIND_CACHE[key].get(sec)
