"""Rewrite a (pycdlib-written) ISO9660/Joliet/Rock Ridge image into an equivalent image with
"foreign" layout traits that the pycdlib parser documents it tolerates:

 * file data moved to other extents, in a different order, with gaps between files;
 * arbitrary (non-zero) extents on zero-length files;
 * a non-empty "version" descriptor sector after the terminator (mkisofs writes 'MKI ...');
 * optionally a volume space size in the descriptors that is smaller than the real end.

Works on the independent reader's output only (record offsets, extents); shares no code with
pycdlib.  UDF and El Torito images are not handled (their structures also point at data).
"""
import struct

from vf.indep import iso9660

SECTOR = 2048


def relayout(img, picks, shrink_declared_size=False):
    """Returns new image bytes or None when the image is not eligible."""
    info = iso9660.read_iso(img)
    if info['findings'] or info.get('eltorito') or any(d['raw'][1:6] in (b'BEA01', b'NSR02') for d in info['descriptors']):
        return None
    if img[(info['terminator_sector'] + 2) * SECTOR + 1:(info['terminator_sector'] + 2) * SECTOR + 6] in (b'BEA01', b'NSR02', b'TEA01'):
        return None
    for s in range(16, min(24, len(img) // SECTOR)):
        if img[s * SECTOR + 1:s * SECTOR + 6] in (b'BEA01', b'NSR02', b'NSR03'):
            return None
    out = bytearray(img)
    # collect file extents (shared between ISO and Joliet names) and the records that point at them
    by_extent = {}
    zero_recs = []
    for tname in ('iso', 'joliet'):
        t = info['trees'].get(tname) or {}
        for p, e in t.items():
            if e['type'] != 'file':
                continue
            su = e.get('susp') or {}
            if su.get('cl') is not None:
                continue
            for rec in e['records']:
                if rec['length'] == 0 or su.get('sl') is not None:
                    zero_recs.append(rec)
                else:
                    by_extent.setdefault(rec['extent'], []).append(rec)
    if not by_extent and not zero_recs:
        return None
    end = len(out) // SECTOR
    order = sorted(by_extent)
    order = sorted(order, key=lambda x: (picks[(x * 7) % len(picks)] * 31 + x) % 997)     # drawn permutation
    moves = {}
    cur = end
    for k, ext in enumerate(order):
        recs = by_extent[ext]
        nsec = max((r['length'] + SECTOR - 1) // SECTOR for r in recs)
        cur += picks[k % len(picks)] % 3            # gap of 0..2 sectors
        moves[ext] = (cur, nsec)
        cur += nsec
    new = bytearray(cur * SECTOR)
    new[:len(out)] = out
    for ext, (dst, nsec) in moves.items():
        new[dst * SECTOR:(dst + nsec) * SECTOR] = out[ext * SECTOR:(ext + nsec) * SECTOR]
        # scribble over the old location so that a stale pointer is noticed
        new[ext * SECTOR:(ext + nsec) * SECTOR] = b'\xa5' * (nsec * SECTOR)
        for rec in by_extent[ext]:
            new[rec['offset'] + 2:rec['offset'] + 10] = struct.pack('<L', dst) + struct.pack('>L', dst)
    for k, rec in enumerate(zero_recs):
        x = 20 + picks[k % len(picks)] % 5000       # arbitrary extent on an empty file
        new[rec['offset'] + 2:rec['offset'] + 10] = struct.pack('<L', x) + struct.pack('>L', x)
    # volume space size
    total = cur
    # "declared size smaller than the real end": the parser documents that it repairs the size from
    # the file data it finds through the ISO9660 tree, so only do this when all moved data is
    # referenced from there, and keep all metadata inside the declared size
    iso_exts = set(r['extent'] for e in (info['trees'].get('iso') or {}).values() if e['type'] == 'file' for r in e['records'])
    can_shrink = shrink_declared_size and moves and all(ext in iso_exts for ext in moves)
    declared = end if can_shrink else total
    for d in info['pvds'] + info['svds']:
        base = d['sector'] * SECTOR
        new[base + 80:base + 88] = struct.pack('<L', declared) + struct.pack('>L', declared)
    # non-empty version descriptor
    vs = (info['terminator_sector'] + 1) * SECTOR
    if not any(new[vs:vs + SECTOR]):
        tag = b'MKI Fri Oct  2 12:00:00 2026\n'
        new[vs:vs + len(tag)] = tag
    return bytes(new)
