"""Image-mutation self-test of the independent ISO9660/SUSP/Joliet/El Torito reader.

For a set of valid images (built by the history engine), every field in the reader's own field
map is corrupted in turn (one field at a time); the reader must then either report a finding or
recover a different tree/content view.  Prints the field kinds whose corruption goes unnoticed.
Run:  cd /verif && PYTHONPATH=/verif /venv/bin/python -m vf.indep.selftest_iso
"""
import collections
import struct
import sys

from vf import shim
from vf.indep import iso9660
from vf.indep.views import iso_views


def main():
    from vf.props import c15
    shim.install('UTC')
    bases = c15.bases()[:16]
    stats = collections.Counter()
    missed = collections.Counter()
    raised = 0
    for b in bases:
        img = b['img']
        info0 = iso9660.read_iso(img)
        if info0['findings']:
            print('BASE IMAGE HAS FINDINGS', info0['findings'][:3])
        view0 = iso_views(img, info0)
        el0 = repr({k: v for k, v in (info0.get('eltorito') or {}).items() if k != 'catalog_bytes'})
        seen_kinds = collections.Counter()
        for off, ln, kind in info0['fields']:
            k = str(kind).split('.')[-1].split('@')[0]
            if seen_kinds[k] >= 6:
                continue
            seen_kinds[k] += 1
            m = bytearray(img)
            old = bytes(m[off:off + ln])
            if ln == 8:
                v = struct.unpack_from('<L', old, 0)[0] + 1
                m[off:off + 8] = struct.pack('<L', v & 0xffffffff) + struct.pack('>L', v & 0xffffffff)
            else:
                m[off] = (m[off] + 1) & 0xff
            try:
                info1 = iso9660.read_iso(bytes(m))
                view1 = iso_views(bytes(m), info1)
            except Exception as e:  # the reader must never raise
                raised += 1
                print('READER RAISED on', k, repr(e))
                continue
            el1 = repr({k2: v2 for k2, v2 in (info1.get('eltorito') or {}).items() if k2 != 'catalog_bytes'})
            stats[k] += 1
            if not info1['findings'] and view1 == view0 and el1 == el0:
                missed[k] += 1
    print('field kinds mutated:', len(stats), 'mutations:', sum(stats.values()), 'reader exceptions:', raised)
    for k in sorted(stats):
        print('  %-28s mutated %3d  unnoticed %3d' % (k, stats[k], missed[k]))
    return 1 if raised else 0


if __name__ == '__main__':
    sys.exit(main())
