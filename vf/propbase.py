"""Boilerplate shared by the engine-based properties: case execution with refusal
re-confirmation and known-finding attribution, shard/replay/shrink factories."""
from vf.campaign import (drive, ddmin_ops, program_classes, refusal_reasons, clean_program, attribute_known)
from vf.runner import Collector


def big_dir_classes(run):
    m = run.model
    cl = set()
    for ns in ('iso', 'jol', 'udf'):
        counts = {}
        for p in m.t[ns]:
            if p != '/':
                par = p.rsplit('/', 1)[0] or '/'
                counts[par] = counts.get(par, 0) + 1
        if counts and max(counts.values()) > 35:
            cl.add('big-directory')
    if m.rr and any(e.get('rr') and len(e['rr'].encode()) > 150 for e in m.t['iso'].values()):
        cl.add('long-rr-name')
    return cl


class EngineProperty:
    """oracle(program, aux) -> (run, failures[(sig, clause, msg)]) ; nontrivial(run, classes) -> bool"""

    def __init__(self, pid, oracle, nontrivial, extra_classes=None, confirm_refusals=True):
        self.pid = pid
        self.oracle = oracle
        self.nontrivial = nontrivial
        self.extra_classes = extra_classes
        self.confirm_refusals = confirm_refusals

    def run_case(self, case, col):
        program, aux = case[0], case[1] if len(case) > 1 else None
        run, failures = self.oracle(program, aux)
        cl = program_classes(run) | big_dir_classes(run)
        if self.extra_classes is not None:
            cl |= set(self.extra_classes(run))
        col.case([program, aux], self.nontrivial(run, cl), sorted(cl))
        x = col.extra
        for k, v in refusal_reasons(run).items():
            x.setdefault('over_refusals', {})
            x['over_refusals'][k] = x['over_refusals'].get(k, 0) + v
        x['skipped_ops'] = x.get('skipped_ops', 0) + len(run.skipped)
        x['applied_ops'] = x.get('applied_ops', 0) + len(run.applied)
        for k, v in getattr(run.model, 'avoided_counts', {}).items():
            x.setdefault('avoided', {})
            x['avoided'][k] = x['avoided'].get(k, 0) + v
        for k, v in getattr(run, 'stats', {}).items():
            x[k] = x.get(k, 0) + v
        rounds = 0
        while self.confirm_refusals and failures and run.refused and rounds < 6:
            rounds += 1
            clean = clean_program(run)
            run, failures2 = self.oracle(clean, aux)
            sigs2 = {f[0] for f in failures2}
            kept = {f[0] for f in failures if f[0] in sigs2}
            x['failures_not_confirmed_without_refusals'] = x.get('failures_not_confirmed_without_refusals', 0) + (len({f[0] for f in failures}) - len(kept))
            failures = [f for f in failures2 if f[0] in kept]
            program = clean
        if self.confirm_refusals and failures and run.refused:
            x['failures_dropped_still_refusing'] = x.get('failures_dropped_still_refusing', 0) + len(failures)
            failures = []
        if failures and not program.get('avoid'):
            failures = attribute_known(program, failures, lambda p: self.oracle(p, aux))
        seen = set()
        for sig, clause, msg in failures:
            if sig in seen:
                continue
            seen.add(sig)
            col.fail(sig, clause, msg, [program, aux])

    def shard_fn(self, strategy_fn, cases):
        def shard(seed, tier, shard_no, nshards):
            col = Collector()
            drive(strategy_fn(tier), cases[tier], seed * 64 + shard_no, lambda case: self.run_case(case, col))
            return col.result()
        return shard

    def replay(self, case, col):
        self.run_case((case[0], case[1] if len(case) > 1 else None), col)

    def shrink(self, case, sig, max_trials=250):
        program, aux = case[0], case[1] if len(case) > 1 else None
        if 'ops' not in program:
            return case
        base = sig.split('/known:')[0]

        def still(p):
            _, fs = self.oracle(p, aux)
            return any(f[0] == base for f in fs)
        return [ddmin_ops(program, still, max_trials), aux]
