"""Avoidance switches: one per OPEN finding in known_findings.json.  While a finding is open
the generators steer around it in most programs (program['avoid'] lists the active ids; a
fraction of programs is drawn with an empty list so the finding is still hit and reported as
KNOWN-FINDING).  Avoided draws are counted per id in evidence ('avoided')."""

OPEN = {
    'dup-pvd-udf': 'duplicate_pvd() on a UDF image shifts the bridge layout: the image cannot be reopened',
    'dup-pvd-eltorito': 'duplicate_pvd() together with El Torito puts the boot record at sector 18: the image cannot be reopened',
    'hybrid-efi-count': 'isohybrid with a number of 0xef El Torito entries other than the efi/mac flags expect: write raises PyCdlibInternalError',
}


def active(flag):
    return sorted(OPEN) if flag else []
