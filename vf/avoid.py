"""Avoidance switches: one per OPEN finding in known_findings.json.  While a finding is open
the generators steer around it in most programs (program['avoid'] lists the active ids; a
fraction of programs is drawn with an empty list so the finding is still hit and reported as
KNOWN-FINDING).  Avoided draws are counted per id in evidence ('avoided')."""

OPEN = {
}


def active(flag):
    return sorted(OPEN) if flag else []
