"""Campaign runner: shards a property's generated-input campaign over worker processes,
merges counters, buckets failures by signature, matches them against
known_findings.json, minimises new ones, writes replay files and the evidence file.

Exit codes: 0 held (maybe KNOWN-FINDING lines), 1 VIOLATION, 2 harness error.
"""
import argparse
import collections
import fnmatch
import hashlib
import importlib
import json
import multiprocessing
import os
import subprocess
import sys
import time
import traceback

from vf import VERIF, REPO

EVIDENCE_DIR = os.path.join(VERIF, 'evidence')
OUT_DIR = os.path.join(VERIF, 'out')
KNOWN = os.path.join(VERIF, 'known_findings.json')
REGRESSIONS = os.path.join(VERIF, 'regressions')


def canon(obj):
    return json.dumps(obj, sort_keys=True, separators=(',', ':'), default=_default)


def _default(o):
    if isinstance(o, (bytes, bytearray)):
        return {'__b__': bytes(o).hex()}
    if isinstance(o, (set, frozenset)):
        return sorted(o)
    if isinstance(o, tuple):
        return list(o)
    return repr(o)


def case_hash(obj):
    return hashlib.sha1(canon(obj).encode()).hexdigest()[:16]


class Collector:
    """Per-shard accumulator handed to a property's test body."""

    def __init__(self, max_samples=4, max_fail_per_sig=3):
        self.evaluations = 0
        self.nontrivial = set()
        self.samples = []
        self.classes = collections.Counter()
        self.failures = {}        # sig -> list of failure dicts (smallest kept)
        self.fail_counts = collections.Counter()
        self.extra = {}
        self.max_samples = max_samples
        self.max_fail_per_sig = max_fail_per_sig
        self.inconclusive = 0

    def case(self, case, nontrivial, classes=()):
        """Record one executed case."""
        self.evaluations += 1
        for c in classes:
            self.classes[c] += 1
        if nontrivial:
            h = case_hash(case)
            if h not in self.nontrivial:
                self.nontrivial.add(h)
                if len(self.samples) < self.max_samples:
                    self.samples.append(case)

    def fail(self, sig, clause, msg, case):
        size = len(canon(case))
        self.fail_counts[sig] += 1
        lst = self.failures.setdefault(sig, [])
        lst.append({'sig': sig, 'clause': clause, 'msg': str(msg)[:2000], 'case': case, 'size': size})
        lst.sort(key=lambda f: f['size'])
        del lst[self.max_fail_per_sig:]

    def bump(self, key, n=1):
        self.classes[key] += n

    def result(self):
        return {
            'evaluations': self.evaluations,
            'nontrivial': self.nontrivial,
            'samples': self.samples,
            'classes': dict(self.classes),
            'failures': self.failures,
            'fail_counts': dict(self.fail_counts),
            'extra': self.extra,
            'inconclusive': self.inconclusive,
        }


def exc_signature(exc, tb=None):
    """(type, innermost frame inside /repo) - the narrowest stable description of where
    an unexpected exception came from."""
    tb = tb if tb is not None else exc.__traceback__
    frames = traceback.extract_tb(tb)
    where = 'outside-repo'
    for fr in reversed(frames):
        fn = fr.filename
        if fn.startswith(REPO + os.sep) or os.sep + 'pycdlib' + os.sep in fn or '/tools/pycdlib-' in fn:
            where = '%s:%s' % (os.path.basename(fn), fr.name)
            break
    return '%s@%s' % (type(exc).__name__, where)


def _run_shard(args):
    modname, seed, tier, shard, nshards = args
    try:
        os.environ['PYTHONHASHSEED'] = '0'
        mod = importlib.import_module(modname)
        t0 = time.perf_counter()
        res = mod.shard(seed, tier, shard, nshards)
        res['wall'] = time.perf_counter() - t0
        return ('ok', res)
    except BaseException:  # harness error, reported as exit 2
        return ('err', 'shard %d: %s' % (shard, traceback.format_exc()))


def load_known(pid):
    if not os.path.exists(KNOWN):
        return []
    with open(KNOWN) as f:
        data = json.load(f)
    return [k for k in data.get('findings', []) if k.get('property') in (pid, '*')]


def match_known(known, sig):
    for k in known:
        if k.get('status') != 'open':
            continue
        for pat in (k.get('signatures') or [k.get('signature', '')]):
            if pat and (pat == sig or fnmatch.fnmatchcase(sig, pat)):
                return k
    return None


def repo_head():
    try:
        h = subprocess.run(['git', '-C', REPO, 'rev-parse', 'HEAD'], capture_output=True, text=True).stdout.strip()
        d = subprocess.run(['git', '-C', REPO, 'status', '--porcelain', '--untracked-files=no'],
                           capture_output=True, text=True).stdout.strip()
        return {'head': h, 'dirty': bool(d)}
    except Exception:
        return {'head': 'unknown', 'dirty': None}


def write_replay(pid, failure, seed, tier):
    d = os.path.join(OUT_DIR, 'replays', pid)
    os.makedirs(d, exist_ok=True)
    name = hashlib.sha1(failure['sig'].encode()).hexdigest()[:12] + '.json'
    path = os.path.join(d, name)
    with open(path, 'w') as f:
        f.write(json.dumps({'property': pid, 'signature': failure['sig'], 'clause': failure['clause'],
                            'msg': failure['msg'], 'case': failure['case'], 'seed': seed, 'tier': tier},
                           default=_default, indent=1, sort_keys=True))
    return path


def load_replay(path):
    with open(path) as f:
        data = json.load(f, object_hook=_hook)
    return data


def _hook(d):
    if set(d.keys()) == {'__b__'}:
        return bytes.fromhex(d['__b__'])
    return d


def regression_cases(pid):
    d = os.path.join(REGRESSIONS, pid)
    out = []
    if os.path.isdir(d):
        for n in sorted(os.listdir(d)):
            if n.endswith('.json'):
                out.append((os.path.join(d, n), load_replay(os.path.join(d, n))))
    return out


def run_property(pid, tier, seed, nshards=None, replay=None, workers=None):
    t_start = time.perf_counter()
    modname = 'vf.props.' + pid.lower()
    mod = importlib.import_module(modname)
    known = load_known(pid)
    all_failures = {}   # sig -> best failure
    counts_by_sig = collections.Counter()

    def absorb(failures, counts=None):
        for sig, lst in failures.items():
            counts_by_sig[sig] += (counts or {}).get(sig, len(lst))
            for f in lst:
                cur = all_failures.get(sig)
                if cur is None or f['size'] < cur['size']:
                    all_failures[sig] = f

    if replay is not None:
        data = load_replay(replay)
        col = Collector()
        mod.replay(data['case'], col)
        absorb(col.failures, col.fail_counts)
        for sig, f in sorted(all_failures.items()):
            k = match_known(known, sig)
            if k:
                print('KNOWN-FINDING: property=%s %s' % (pid, k.get('what', sig)))
            else:
                print('VIOLATION property=%s replay=%s' % (pid, replay))
                print('  signature: %s\n  %s' % (sig, f['msg'][:600]))
        bad = [s for s in all_failures if not match_known(known, s)]
        return 1 if bad else 0

    # 1. regression tier: committed minimised replays
    reg_col = Collector()
    nreg = 0
    for path, data in regression_cases(pid):
        nreg += 1
        mod.replay(data['case'], reg_col)
    absorb(reg_col.failures, reg_col.fail_counts)

    # 2. generated campaign
    if nshards is None:
        nshards = getattr(mod, 'SHARDS', {}).get(tier, 16)
    if workers is None:
        workers = min(nshards, os.cpu_count() or 1, 16)
    jobs = [(modname, seed, tier, s, nshards) for s in range(nshards)]
    if workers <= 1 or nshards == 1:
        results = [_run_shard(j) for j in jobs]
    else:
        ctx = multiprocessing.get_context('fork')
        with ctx.Pool(workers, maxtasksperchild=1) as pool:
            results = pool.map(_run_shard, jobs, chunksize=1)
    errs = [r[1] for r in results if r[0] == 'err']
    if errs:
        sys.stderr.write('HARNESS ERROR in %s:\n%s\n' % (pid, '\n'.join(errs)))
        return 2

    evaluations = reg_col.evaluations
    nontrivial = set(reg_col.nontrivial)
    samples = []
    classes = collections.Counter()
    extra = {}
    inconclusive = 0
    for _, r in results:
        evaluations += r['evaluations']
        nontrivial |= r['nontrivial']
        for s in r['samples']:
            if len(samples) < 5:
                samples.append(s)
        classes.update(r['classes'])
        inconclusive += r.get('inconclusive', 0)
        for k, v in r.get('extra', {}).items():
            if isinstance(v, (int, float)):
                extra[k] = extra.get(k, 0) + v
            elif isinstance(v, dict):
                d = extra.setdefault(k, collections.Counter())
                d.update(v)
            elif isinstance(v, list):
                extra.setdefault(k, [])
                if len(extra[k]) < 20:
                    extra[k].extend(v[:20 - len(extra[k])])
            else:
                extra[k] = v
        absorb(r['failures'], r.get('fail_counts'))

    # 3. classify, shrink new signatures, report
    shrink_deadline = (time.perf_counter() - t_start) + 240
    known_hit = collections.Counter()
    violations = []
    for sig in sorted(all_failures):
        f = all_failures[sig]
        k = match_known(known, sig)
        if k is not None:
            known_hit[k.get('id', k.get('signature'))] += counts_by_sig[sig]
            continue
        # minimisation is a convenience for the reader of the replay file, not part of the verdict:
        # bounded per run (first 8 new signatures, 240 s in total)
        if hasattr(mod, 'shrink') and len(violations) < 8 and time.perf_counter() - t_start < shrink_deadline:
            try:
                small = mod.shrink(f['case'], sig)
                if small is not None:
                    f = dict(f, case=small, size=len(canon(small)))
            except Exception:
                sys.stderr.write('shrink failed for %s: %s\n' % (sig, traceback.format_exc()))
        violations.append(f)

    printed = set()
    for k in known:
        kid = k.get('id', k.get('signature'))
        if k.get('status') == 'open' and known_hit.get(kid) and kid not in printed:
            printed.add(kid)
            print('KNOWN-FINDING: property=%s %s [%s; hit %d times this run]' % (pid, k.get('what', ''), kid, known_hit[kid]))
    for f in violations:
        path = write_replay(pid, f, seed, tier)
        print('VIOLATION property=%s replay=%s' % (pid, path))
        print('  signature: %s (seen %d times)\n  %s' % (f['sig'], counts_by_sig[f['sig']], f['msg'][:800].replace('\n', '\n  ')))

    wall = time.perf_counter() - t_start
    sample_out = samples[:5] if samples else []
    if not sample_out and all_failures:
        sample_out = [next(iter(all_failures.values()))['case']]
    evidence = {
        'property_id': pid,
        'tier': tier,
        'seed': int(seed),
        'level': getattr(mod, 'LEVEL', 'exploration'),
        'coverage': {
            'evaluations': int(evaluations),
            'distinct_nontrivial': len(nontrivial),
            'rule': getattr(mod, 'RULE', ''),
            'samples': json.loads(canon(sample_out)),
            'classes': dict(sorted(classes.items())),
            'regression_replays': nreg,
            'known_findings_hit': dict(known_hit),
            'violating_signatures': [f['sig'] for f in violations],
            'inconclusive': inconclusive,
            'shards': nshards,
            'repo': repo_head(),
        },
        'assumptions': list(getattr(mod, 'ASSUMPTIONS', [])),
        'wall_s': round(wall, 2),
        'violations': len(violations),
    }
    for k, v in extra.items():
        if isinstance(v, collections.Counter):
            v = dict(sorted(v.items(), key=lambda kv: str(kv[0])))
        evidence['coverage'][k] = json.loads(canon(v))
    os.makedirs(EVIDENCE_DIR, exist_ok=True)
    with open(os.path.join(EVIDENCE_DIR, pid + '.json'), 'w') as fh:
        json.dump(evidence, fh, indent=1, sort_keys=True)
        fh.write('\n')
    print('%s %s seed=%s: %d cases, %d distinct non-trivial, %d known-finding hits, %d violations, %.1fs'
          % (pid, tier, seed, evaluations, len(nontrivial), sum(known_hit.values()), len(violations), wall))
    if hasattr(mod, 'MIN_NONTRIVIAL') and len(nontrivial) < mod.MIN_NONTRIVIAL.get(tier, 2):
        sys.stderr.write('HARNESS ERROR: generator starved (%d non-trivial cases)\n' % len(nontrivial))
        return 2
    return 1 if violations else 0


def main(argv=None):
    ap = argparse.ArgumentParser(prog='check')
    ap.add_argument('property')
    ap.add_argument('--tier', default=os.environ.get('VERIF_TIER') or 'quick', choices=['quick', 'thorough'])
    ap.add_argument('--seed', type=int, default=None)
    ap.add_argument('--replay', default=None)
    ap.add_argument('--shards', type=int, default=None)
    ap.add_argument('--workers', type=int, default=None)
    a = ap.parse_args(argv)
    seed = a.seed
    if seed is None:
        try:
            seed = int(os.environ.get('VERIF_SEED', '1'))
        except ValueError:
            seed = 1
    try:
        rc = run_property(a.property.upper(), a.tier, seed, a.shards, a.replay, a.workers)
    except SystemExit:
        raise
    except BaseException:
        sys.stderr.write('HARNESS ERROR:\n' + traceback.format_exc())
        rc = 2
    sys.exit(rc)
