"""Reference predicates: is an identifier legal in a namespace of an image?

This module encodes EXACTLY the naming rules listed in the statement of property C13

    "d-characters at levels 1-3, 8.3 at level 1, directory names of at most 8 or 207
     characters, versions 1-32767, eight levels deep without Rock Ridge or level 4,
     the Joliet and UDF name limits, and fits the on-disc field that holds it"

plus the field widths of the on-disc structures (ECMA-119 9.1 directory record, 9.4 path
table record; Joliet; ECMA-167 4/14.4 file identifier descriptor + OSTA CS0).  It is
derived from that statement and from the documentation/comments of the library
(docs/example-creating-new-basic-iso.md, the comments in utils.mangle_file_for_iso9660,
the docstring of PyCdlib.new), never from what the library's code happens to accept.
It imports nothing but the stdlib and is shared by several checks (C13, C18, C20).

Every predicate returns `(verdict, reason)`:

    True   the identifier obeys every rule the statement lists
    False  it breaks the rule named in `reason` (an edit creating it must be refused)
    None   the statement is silent on this point; `reason` starts with 'silent:'.  A check
           must accept both a clean refusal and a clean acceptance here (it may still
           demand that an accepted edit yields an image that writes and reopens).

Points where a reading had to be picked are marked "Interpretation".
"""

D_CHARACTERS = frozenset(b'ABCDEFGHIJKLMNOPQRSTUVWXYZ0123456789_')

# ECMA-119 9.1: a directory record is LEN_DR (1 byte) long, 33 fixed bytes + identifier +
# 1 pad byte when the identifier length is even + system use.
DR_FIXED = 33
DR_MAX = 255
# Joliet: 64 UCS-2 code units = 128 bytes.
JOLIET_MAX_UNITS = 64
# ECMA-167 4/14.4.4 L_FI is one byte and counts the OSTA compression id + the name.
UDF_MAX_FIELD = 255
# RRIP 4.1.4: one NM entry is 5 header bytes + name content, LEN is one byte.
RR_NM_MAX_CONTENT = 255 - 5
# SUSP 5.1: a CE entry is 28 bytes.  On a Rock Ridge image every record carries RRIP
# entries (PX is mandatory, >= 36 bytes); they may all move to a continuation area, but
# the CE entry that points there has to sit in the record itself.  So `system_use=
# RR_MIN_SYSTEM_USE` is the least a record of a Rock Ridge image needs besides the
# identifier (identifier <= 193 bytes).
RR_MIN_SYSTEM_USE = 28

VERSION_MIN = 1
VERSION_MAX = 32767


def dr_length(len_fi, system_use=0):
    """Length in bytes of a directory record holding an identifier of len_fi bytes."""
    n = DR_FIXED + len_fi
    if len_fi % 2 == 0:
        n += 1
    n += system_use
    return n + (n % 2)


def fits_directory_record(len_fi, system_use=0):
    """On-disc limit: identifier length is one byte and the whole record <= 255 bytes.
    Without system use this means len_fi <= 221 (220 -> 254, 221 -> 254, 222 -> 256)."""
    return len_fi <= 255 and dr_length(len_fi, system_use) <= DR_MAX


def split_file_identifier(ident):
    """ECMA-119 7.5.1 shape: NAME [ '.' EXT ] [ ';' VERSION ].

    Interpretation: the version is what follows the LAST ';' and the extension what
    follows the LAST '.' of the remainder (the only split under which every d-character
    name/extension pair has a unique spelling).  Returns (name, ext, version) where ext
    is None when there is no '.', and version is None when there is no ';'."""
    version = None
    rest = ident
    if b';' in ident:
        rest, _, version = ident.rpartition(b';')
    ext = None
    name = rest
    if b'.' in rest:
        name, _, ext = rest.rpartition(b'.')
    return name, ext, version


def version_verdict(version):
    """versions 1-32767.  `version` is the bytes after the last ';' (None: no ';')."""
    if version is None:
        # Interpretation: the statement bounds the version, it does not demand that one
        # is present (the library's comments say version-less names are tolerated).
        return True, 'no version'
    if version.isdigit() and version.isascii():
        v = int(version)
        if VERSION_MIN <= v <= VERSION_MAX:
            return True, 'version in range'
        return False, 'version %s 1-32767' % ('below' if v < VERSION_MIN else 'above')
    if version == b'':
        # Interpretation: 'NAME;' has the separator but no number; the statement does
        # not say whether an absent number after ';' is a version at all.
        return None, 'silent:empty-version'
    try:
        int(version)
    except ValueError:
        return False, 'version not a number'
    # '+1', ' 1', '1_0': Python's int() would read a number, but a version number is a string of digits (ECMA-119 7.5.1,
    # and what the library's own check demands): not a version in 1-32767.
    return False, 'version not digits'


def _all_d(b):
    return all(c in D_CHARACTERS for c in b)


def legal_iso_file(ident, level, system_use=0):
    """ISO9660 file identifier `ident` (bytes, one path component, with or without
    ';version') on an image of interchange level `level`."""
    if not isinstance(ident, (bytes, bytearray)):
        raise TypeError('ident must be bytes')
    ident = bytes(ident)
    if level not in (1, 2, 3, 4):
        raise ValueError('level must be 1..4')
    if ident == b'' or b'/' in ident:
        return False, 'not a path component'
    if not fits_directory_record(len(ident), system_use):
        return False, 'does not fit directory record'
    name, ext, version = split_file_identifier(ident)
    ok, why = version_verdict(version)
    if ok is False:
        return False, why
    silent = None if ok else why
    if level < 4:
        if not _all_d(name) or not _all_d(ext or b''):
            # ';' inside name/extension lands here too: it is not a d-character.
            return False, 'not d-characters'
    if level == 1:
        if len(name) > 8 or len(ext or b'') > 3:
            return False, 'not 8.3'
    # Interpretation: the statement gives no maximum for file identifiers at levels 2-4
    # (only "8.3 at level 1"), so only the on-disc limit checked above applies there.
    if not name and not ext:
        # Interpretation: 'a name or an extension must exist' is in the library's
        # tutorial but not in the statement's list.
        return None, 'silent:empty-name-and-extension'
    if ident in (b'\x00', b'\x01'):
        return None, 'silent:reserved-dot-identifier'
    if silent:
        return None, silent
    return True, 'ok'


def legal_iso_dir(ident, level, system_use=0):
    """ISO9660 directory identifier on an image of interchange level `level`."""
    if not isinstance(ident, (bytes, bytearray)):
        raise TypeError('ident must be bytes')
    ident = bytes(ident)
    if level not in (1, 2, 3, 4):
        raise ValueError('level must be 1..4')
    if ident == b'' or b'/' in ident:
        return False, 'not a path component'
    # directory record and path table record (LEN_DI is one byte) both hold it
    if not fits_directory_record(len(ident), system_use):
        return False, 'does not fit directory record'
    if level == 1 and len(ident) > 8:
        return False, 'longer than 8'
    if level in (2, 3) and len(ident) > 207:
        return False, 'longer than 207'
    if level < 4 and not _all_d(ident):
        return False, 'not d-characters'
    if ident in (b'\x00', b'\x01'):
        return None, 'silent:reserved-dot-identifier'
    return True, 'ok'


def utf16_units(name):
    return len(name.encode('utf-16_be', 'surrogatepass')) // 2


def legal_joliet(name):
    """Joliet name (str, one path component): at most 64 UTF-16 code units, which is
    the 128-byte identifier field of the Joliet directory/path-table record.
    Interpretation: the statement names only the *limit*; Joliet's forbidden characters
    (* / : ; ? \\) are not in its list and are not enforced here."""
    if not isinstance(name, str):
        raise TypeError('name must be str')
    if name == '' or '/' in name:
        return False, 'not a path component'
    try:
        units = utf16_units(name)
    except UnicodeEncodeError:
        return False, 'not encodable'
    if units > JOLIET_MAX_UNITS:
        return False, 'longer than 64 units'
    if name in ('\x00', '\x01'):
        return None, 'silent:reserved-dot-identifier'
    return True, 'ok'


def udf_field_length(name):
    """Bytes of the OSTA CS0 file identifier field: compression id + name, 8 bits per
    character when every character is <= U+00FF, 16 bits otherwise."""
    try:
        return 1 + len(name.encode('latin-1'))
    except UnicodeEncodeError:
        # Interpretation: characters outside the BMP are counted as the two UTF-16 units
        # a 16-bit CS0 writer would emit; the statement only gives the field limit.
        return 1 + 2 * utf16_units(name)


def legal_udf(name):
    """UDF file identifier (str, one path component): compression id + name <= 255
    bytes, i.e. <= 254 Latin-1 characters or <= 127 UCS-2 units."""
    if not isinstance(name, str):
        raise TypeError('name must be str')
    if name == '' or '/' in name:
        return False, 'not a path component'
    if udf_field_length(name) > UDF_MAX_FIELD:
        return False, 'longer than 255 bytes'
    return True, 'ok'


def legal_rr_name(name):
    """Rock Ridge alternate name (str).  The library documents two rules: one must be
    given on a Rock Ridge image, and it is relative (no '/')."""
    if not isinstance(name, str):
        raise TypeError('name must be str')
    if name == '':
        return False, 'empty'
    if '/' in name:
        return False, 'not relative'
    if len(name.encode('utf-8', 'surrogatepass')) > RR_NM_MAX_CONTENT:
        # Interpretation: RRIP lets a name continue over several NM entries, so a name
        # longer than one NM field can hold is neither required nor forbidden here.
        return None, 'silent:longer-than-one-NM-field'
    return True, 'ok'


def depth_ok(n_components, level, rr, is_dir=True):
    """"eight levels deep without Rock Ridge or level 4".  The root directory is level 1,
    so a directory whose path has n components sits at level n + 1."""
    if rr or level == 4:
        return True, 'no depth rule'
    if n_components <= 7:
        return True, 'ok'
    if not is_dir and n_components == 8:
        # Interpretation: a file inside a level-8 directory does not add a ninth
        # directory level; the library's comment counts it as too deep.  Undecided.
        return None, 'silent:file-in-level-8-directory'
    return False, 'deeper than eight levels'
